"""C19 — multipart codec round trip, truthful size, reader termination.

Implementation under test: aiohttp.multipart (MultipartWriter, MultipartPayloadWriter, MultipartReader,
BodyPartReader), aiohttp.formdata.FormData, aiohttp.payload, aiohttp.streams.StreamReader,
aiohttp.web_request.BaseRequest.post.
Model: lean/AioModel/C19.lean; theorems: lean/AioProps/C19.lean.
"""
import io, asyncio, base64, binascii, gzip, json, os, re, zlib
from urllib.parse import unquote
from multidict import CIMultiDict
from .common import c19_io as io19
from .common.c19_io import hx, show_list, run_reader, rd_line

import warnings
warnings.filterwarnings("ignore")

PROPERTY = "C19"
LEAN_MODULES = ["AioProps.C19"]
THEOREMS = [
    "Aio.C19.window_finds_boundary_across_edges",
    "Aio.C19.window_no_false_boundary",
    "Aio.C19.first_delimiter_follows_content",
    "Aio.C19.roundtrip_any_chunking",
    "Aio.C19.b64_align_conserves",
    "Aio.C19.b64_align_quartets",
    "Aio.C19.b64_short_chunk_not_aligned",
    "Aio.C19.size_truthful",
    "Aio.C19.size_truthful_after_header_change",
    "Aio.C19.size_declared_iff_plain",
    "Aio.C19.io_payload_replays",
    "Aio.C19.gather_terminates",
    "Aio.C19.gather_fuel_enough",
    "Aio.C19.gather_eof_counter",
    "Aio.C19.reader_terminates_partial",
]
RULE = ("(a) round trips: real MultipartWriter (subtypes mixed/related/form-data, boundaries of 1..70 chars from a punctuation-rich "
        "alphabet, 0-4 parts, nesting depth <= 2, part sizes around 0, the boundary window, 8192 and 16384, content alphabets of CR/LF runs, "
        "dashes, boundary prefixes, delimiter-minus-one-byte placed at read-chunk edges, random binary; Content-Encoding gzip/deflate/identity, "
        "Content-Transfer-Encoding base64/quoted-printable/binary in mixed case; Content-Disposition names/filenames with non-ASCII, quotes, "
        "separators; length-framed parts whose content contains the delimiter) -> bytes -> segmenter (whole / fixed k incl. 1 / random cuts / "
        "cuts around every CRLF-- / tiny; segments delivered lazily, one each time the reader parks; EOF with the last segment or later; a prefix "
        "pre-fed) -> real StreamReader + MultipartReader driven by a script of read / read_chunk(sizes cycling, >= boundary+2) / readline / "
        "release / skip / partial-read-then-release, descending into nested readers or leaving them to the parent; (b) the same bodies with 1-3 "
        "mutations (truncate, delete, insert structural junk, replace a byte, duplicate a region; ASCII only) under small and default limits "
        "(max_field_size, max_headers, client_max_size, stream limit); (c) compression bombs: gzip/deflate Content-Encoding parts of a "
        "multipart/mixed body, wire size below client_max_size, decoded size limit + 5..40 decode chunks (deflate ratios ~100..1000) and a control "
        "just under the limit, read via read(decode=True)/text()/json()/form(): the bytes yielded by decode_iter before the size error must "
        "stay <= limit + 2**18 (one decode chunk = DEFAULT_CHUNK_SIZE = max_decompress_size) - implementation-only oracle, not modelled "
        "(form-data/post() never content-decodes, so it has no decoded-size limit to test); (d) Content-Transfer-Encoding values in every "
        "letter case (base64/Base64/BASE64/bAsE64, quoted-printable, binary variants) x transport segments of 1,2,3,5,7,64,1000,all x "
        "read_chunk sizes boundary+2+{0,1,2,3,5,7,9,11,60,...}, consumed chunk by chunk with each chunk decoded on its own (manual "
        "read_chunk+decode, BodyPartReaderPayload.write): decoded bytes == written, following part intact; a non-final chunk with >= 4 "
        "base64 characters that is not quartet-aligned has its own signature (the recorded short-read escape only covers < 4); (e) one part "
        "with a header line / header count below, between and above a tightened or raised max_field_size / max_headers and the defaults, "
        "read at nesting depth 0, 1 and 2: same verdict at every depth, accepted iff within the configured limit; (f) writer HISTORIES: "
        "3-12 steps of append part / append nested writer / change, add or delete a header of an already appended part or nested writer "
        "(set_content_disposition, headers[k]=v, popall) on a tree of depth <= 2, with size queries of the changed writer, an ancestor or the "
        "root interleaved: at every query declared size == bytes write() produces now, a size is declared iff no part is encoded, and the "
        "model (size and bytes as pure functions of the current parts) agrees; parts of a history are also built through the payload "
        "registry from file-like objects (BytesIO, TemporaryFile, file opened rb, text-mode file, StringIO) holding a prefix of 0-3000 bytes "
        "and positioned just after it, each query writes the body again (size asked before or after the write) and the bytes written "
        "are read back with the real reader and must be what was added; (g) get_payload(BytesIO / real file at offset k) under random "
        "size/write sequences vs the IOPayload model; (h) deterministic cases run first on every seed: one per recorded finding, bodies "
        "truncated inside a base64 part read by read_chunk/read/release (EOF counter), hand-written nested bodies without epilogue and with "
        "mixed-case header names/tokens, file-like payloads at offset 100, FormData used twice, text-mode files handed over after a "
        "readline; (i) work: 64 KiB vs 512 KiB parts (plain lines, CRLF runs, dashes, near-delimiters, base64) in 64..4096-byte segments "
        "through read/read_chunk/readline/release: CPU t(8n) <= 16 t(n) + 0.4 s and <= 4 s. Every case is compared event by event (headers, every chunk/line handed "
        "out, error class) with the Lean model, and judged by the direct oracle. Distinct by boundary+parts+cuts+script.")
TRUSTED_BASE = [
    "zlib and binascii.b2a_qp are not modelled: the compressor outputs and quoted-printable encodings are oracle columns of the writer model",
    "StreamReader is modelled only through read(n>0)/readline/unread_data/at_eof with lazy one-segment-per-wait delivery; timers, flow control and exceptions set on the stream are not modelled",
    "header values are modelled as bytes; exact for ASCII header blocks (parse_mimetype's unicode strip/lower on non-ASCII Content-Type is not modelled; the mutation stream is ASCII)",
    "roundtrip_any_chunking is about the read_chunk loop abstracted from the stream (absRead: any sequence of fresh-chunk sizes); that _read_chunk_from_stream realises such a sequence is covered by correspondence and by gather_terminates, not by a refinement theorem",
    "MultipartReader.next/_read_boundary/_read_headers/nesting, readline, Content-Length mode, parse_content_disposition, FormData and BaseRequest.post are covered by correspondence / direct oracle only",
    "the form field `_charset_` special case of MultipartReader.next is not modelled (never generated)",
]
ASSUMPTIONS = [
    "content precondition of the round trip: the delimiter CRLF--boundary does not occur in CRLF + encoded part body (unless the part is length-framed); boundary without CR/LF (the writer refuses others)",
    "quoted-printable is used for line-oriented text only and never over compressed bytes",
    "transport segments are non-empty (feed_data(b'') is a no-op)",
]

HERE = os.path.dirname(os.path.abspath(__file__))


# ------------------------------------------------------------------------------ tables
def _ranges(pred, hi):
    out, start, prev = [], None, None
    for c in range(hi):
        if pred(c):
            if start is None:
                start = c
            prev = c
        elif start is not None:
            out.append((start, prev)); start = None
    if start is not None:
        out.append((start, prev))
    return out


def generate(repo):
    import aiohttp.multipart as mp
    import aiohttp.http_parser as hp
    import aiohttp.http_writer as hw
    b64 = sorted(mp._BASE64_CHARS)
    tch = [c for c in range(0x110000) if hp.TOKENRE.fullmatch(chr(c))]
    vf = _ranges(lambda c: hp._FIELD_VALUE_FORBIDDEN_CTL_RE.search(chr(c)) is not None, 0x110000)
    hf = _ranges(lambda c: hw._FORBIDDEN_HEADER_CHARS_RE.search(chr(c)) is not None, 0x110000)
    if max(tch) >= 128 or max(b for _, b in vf) >= 128 or max(b for _, b in hf) >= 128:
        raise ValueError("a header character class now reaches beyond ASCII; the byte-level model no longer applies")
    sing = sorted(list(s.encode()) for s in hp.SINGLETON_HEADERS)
    rng = lambda l: ", ".join(f"({a}, {b})" for a, b in l)
    txt = (
        "-- GENERATED by harness/c19.py from aiohttp/multipart.py, http_parser.py, http_writer.py — do not edit\n"
        "namespace Aio.Gen.C19\n"
        "/-- `multipart._BASE64_CHARS` -/\n"
        f"def base64Chars : List Nat := {b64}\n"
        "/-- `BodyPartReader.chunk_size` -/\n"
        f"def chunkSize : Nat := {mp.BodyPartReader.chunk_size}\n"
        "/-- code points for which `http_parser.TOKENRE.fullmatch` holds (all < 128) -/\n"
        f"def tcharBytes : List Nat := {tch}\n"
        "/-- code-point ranges matched by `http_parser._FIELD_VALUE_FORBIDDEN_CTL_RE` (all < 128) -/\n"
        f"def valueForbidden : List (Nat × Nat) := [{rng(vf)}]\n"
        "/-- code-point ranges matched by `http_writer._FORBIDDEN_HEADER_CHARS_RE` (all < 128) -/\n"
        f"def headerForbidden : List (Nat × Nat) := [{rng(hf)}]\n"
        "/-- `http_parser.SINGLETON_HEADERS` (sorted, as byte values) -/\n"
        f"def singletonHeaders : List (List Nat) := {sing}\n"
        "end Aio.Gen.C19\n")
    return {"AioModel/Generated/C19.lean": txt}


# ------------------------------------------------------------------------------ writer side
class Sink:
    def __init__(self):
        self.buf = bytearray()

    async def write(self, d):
        self.buf += bytes(d)


BOUNDARY_ALPHA = "abcXYZ019-_.'+:=? "


def gen_boundary(rng):
    n = rng.choice([1, 1, 2, 3, 5, 8, 16, 32, 69, 70])
    b = "".join(rng.choice(BOUNDARY_ALPHA) for _ in range(n))
    b = b.strip(" ") or "b"
    if b.endswith(" "):
        b = b[:-1] + "x"
    return b


def gen_content(rng, boundary, n, allow_delim=False, ascii_only=False):
    bb = boundary.encode()
    delim = b"\r\n--" + bb
    alpha = [b"\r", b"\n", b"-", b"--", bb[:1], bb, delim[:-1], b"x", b"\r\n-", b"\r\n--", b"\r\n", delim[:len(delim) // 2 + 1],
             b"--" + bb, b"--" + bb + b"--", b"\r\n\r\n", b"=", b"A", b"Zm9v"]
    if not ascii_only:
        alpha += [b"\x00", b"\xff", b"\x80"]
    if allow_delim:
        alpha += [delim, delim + b"--\r\n"]
    mode = rng.random()
    if mode < 0.55:
        out = bytearray()
        while len(out) < n:
            out += rng.choice(alpha)
        data = bytes(out[:n])
    elif mode < 0.8:
        # filler with a near-delimiter pattern placed at a chosen offset (read-chunk edges)
        data = bytearray(rng.choice([b"x", b"\r", b"-"]) * n)
        pat = rng.choice([delim[:-1], delim[:len(delim) // 2], b"\r\n--", b"\r", b"\r\n", b"--" + bb])
        for edge in (8192, 16384, n):
            pos = edge - rng.randint(0, len(delim) + 2)
            if 0 <= pos and pos + len(pat) <= n:
                data[pos:pos + len(pat)] = pat
        data = bytes(data)
    else:
        data = bytes(rng.randrange(128 if ascii_only else 256) for _ in range(n))
    if not allow_delim:
        while delim in b"\r\n" + data:
            data = (b"\r\n" + data).replace(delim, b"\r\n-Q" + bb)[2:2 + n]
    return data


SIZES = [0, 1, 2, 3, 5, 20, 100, 8189, 8190, 8191, 8192, 8193, 8200, 16383, 16384, 16385, 16387, 20000]


def gen_size(rng, boundary, small=False):
    bl = len(boundary) + 4
    edge = [8192 - bl - 1, 8192 - bl, 8192 - bl + 1, 8192 - 2, 8192 - 1, 16384 - bl, 16384 - bl + 1, bl - 1, bl, bl + 1, 2 * bl]
    if small:
        return rng.choice([0, 1, 2, 3, 5, 20, 100, bl - 1, bl, bl + 1, 2 * bl, 300])
    return rng.choice(SIZES + edge) if rng.random() < 0.8 else rng.randint(0, 300)


NAME_ALPHA = ["a", "b", "Z", "0", " ", "-", "_", ".", "é", "€", "😀", "%", "+", "'", "*", "=", ",", "(", ")", "/", "\\", '"', ";", "\t", "~", " "]


def gen_name(rng, hard=False):
    n = rng.randint(1, 8)
    alpha = NAME_ALPHA if hard else NAME_ALPHA[:18]
    s = "".join(rng.choice(alpha) for _ in range(n))
    return s


def qp_text(rng, data):
    """line-oriented text: no bare CR/LF, CRLF line ends"""
    data = data.replace(b"\r", b"").replace(b"\n", b"\r\n")
    return data


def compress_pieces(content, enc, te):
    """oracle columns: what the real compressor / b2a_qp return, piece by piece"""
    from aiohttp.compression_utils import ZLibCompressor
    cz1 = czf = b""
    if enc:
        z = ZLibCompressor(encoding=enc, suppress_deflate_header=True)
        cz1 = z.compress_sync(content) if content else b""
        czf = z.flush()
        pieces = ([b""] if not content else ([cz1] if cz1 else [])) + ([czf] if czf else [])
    else:
        pieces = [content]
    qps = [binascii.b2a_qp(p) for p in pieces] if te == "quoted-printable" else []
    return cz1, czf, qps


def encoded_body(content, enc, te):
    """independent recomputation of the bytes a part's body occupies on the wire (precondition check only)"""
    enc = enc.lower() if enc and enc.lower() != "identity" else None
    te = te.lower() if te and te.lower() != "binary" else None
    cz1, czf, qps = compress_pieces(content, enc, te)
    pieces = (([b""] if not content else ([cz1] if cz1 else [])) + ([czf] if czf else [])) if enc else [content]
    if te == "base64":
        return base64.b64encode(b"".join(pieces))
    if te == "quoted-printable":
        return b"".join(qps)
    return b"".join(pieces)


class PartSpec:
    """one generated body part (or a nested writer)"""
    def __init__(self, **kw):
        self.headers = kw.get("headers", [])      # user headers (list of pairs)
        self.content = kw.get("content", b"")
        self.enc = kw.get("enc")                  # Content-Encoding value or None
        self.te = kw.get("te")                    # Content-Transfer-Encoding value or None
        self.disp = kw.get("disp")                # (disptype, quote_fields, params) or None
        self.nested = kw.get("nested")            # (boundary, subtype, [PartSpec]) or None
        self.ctype = kw.get("ctype", "application/octet-stream")


def gen_parts(rng, boundary, subtype, depth=0, small=False, ascii_only=False, allow_nested=True):
    parts = []
    for _ in range(rng.choice([0, 1, 1, 2, 2, 3, 4]) if depth == 0 else rng.choice([0, 1, 2])):
        r = rng.random()
        if allow_nested and depth < 2 and r < 0.12 and subtype != "form-data":
            ib = gen_boundary(rng)
            while ib == boundary or boundary.startswith(ib) or ib.startswith(boundary):
                ib = gen_boundary(rng) + "n"
            isub = rng.choice(["mixed", "mixed", "form-data", "related"])
            inner = gen_parts(rng, ib, isub, depth + 1, small, ascii_only)
            parts.append(PartSpec(nested=(ib, isub, inner)))
            continue
        n = gen_size(rng, boundary, small)
        enc = te = None
        hdrs = []
        if subtype != "form-data":
            enc = rng.choice([None, None, None, "gzip", "deflate", "identity", "GZip"])
            te = rng.choice([None, None, None, "base64", "quoted-printable", "binary", "Base64"])
        if te and te.lower() == "quoted-printable" and enc and enc.lower() != "identity":
            enc = None      # quoted-printable is for line-oriented text only (property text); never over compressed bytes
        plain = not (enc and enc.lower() != "identity") and not (te and te.lower() != "binary")
        allow_delim = plain and subtype != "form-data" and n > 0 and rng.random() < 0.15
        delim = b"\r\n--" + boundary.encode()
        for attempt in range(12):
            content = gen_content(rng, boundary, n, allow_delim=allow_delim, ascii_only=ascii_only)
            if te and te.lower() == "quoted-printable":
                content = qp_text(rng, content)
            # MIME precondition: the delimiter does not occur in the *encoded* body (unless it is length-framed)
            if allow_delim or delim not in b"\r\n" + encoded_body(content, enc, te):
                break
        else:
            content = b"x" * n
        if enc: hdrs.append(("Content-Encoding", enc))
        if te: hdrs.append(("Content-Transfer-Encoding", te))
        if rng.random() < 0.4:
            hdrs.append((rng.choice(["X-Custom", "x-a", "Content-Location", "X-Note"]),
                         rng.choice(["v", "a b", "tab\there", "é", "x" * 50, "", "multipart", "q=\"1\"; r"])))
        disp = None
        if subtype == "form-data" or rng.random() < 0.4:
            params = {"name": gen_name(rng, hard=rng.random() < 0.15)}
            if rng.random() < 0.5:
                params["filename"] = gen_name(rng, hard=rng.random() < 0.15)
            disp = ("form-data" if subtype == "form-data" else rng.choice(["attachment", "inline"]), rng.random() < 0.7, params)
        ctype = rng.choice(["application/octet-stream", "text/plain", "text/plain; charset=utf-8", "application/json"])
        parts.append(PartSpec(headers=hdrs, content=content, enc=enc, te=te, disp=disp, ctype=ctype))
    return parts


def build_writer(boundary, subtype, specs):
    """real MultipartWriter for the specs; returns (writer, [payload or nested tuple per spec])"""
    from aiohttp import MultipartWriter, payload
    mw = MultipartWriter(subtype, boundary=boundary)
    built = []
    for sp in specs:
        if sp.nested:
            ib, isub, ispecs = sp.nested
            inner, ibuilt = build_writer(ib, isub, ispecs)
            mw.append_payload(inner)
            built.append(("N", inner, ibuilt))
        else:
            p = payload.BytesPayload(sp.content, headers=CIMultiDict(sp.headers), content_type=sp.ctype)
            if sp.disp:
                p.set_content_disposition(sp.disp[0], quote_fields=sp.disp[1], **sp.disp[2])
            pre = [(k, v) for k, v in p.headers.items()]
            mw.append_payload(p)
            built.append(("B", p, pre))
    return mw, built


def write_all(loop, mw):
    s = Sink()
    loop.run_until_complete(mw.write(s))
    return bytes(s.buf)


def wr_line(boundary, subtype, specs, built):
    toks = ["wr", hx(boundary.encode()), "1" if subtype == "form-data" else "0"]
    for sp, b in zip(specs, built):
        pre = b[2]
        enc = sp.enc.lower() if sp.enc and sp.enc.lower() != "identity" else None
        te = sp.te.lower() if sp.te else None
        cz1, czf, qps = compress_pieces(sp.content, enc, te)
        h = "&".join(f"{hx(k.encode())}={hx(v.encode())}" for k, v in pre) or "~"
        toks.append("|".join([h, hx(sp.content), hx(cz1), hx(czf), show_list(qps)]))
    return " ".join(toks)


# ------------------------------------------------------------------------------ segmentations / scripts
def segment(rng, wire, style=None):
    n = len(wire)
    style = style or rng.choice(["whole", "fixed", "fixed", "random", "edges", "tiny"])
    if n == 0:
        return []
    if style == "whole":
        return [wire]
    if style == "fixed":
        k = rng.choice([1, 2, 3, 7, 64, 1000, 4096, 8191, 8192, 8193, 10000])
        if k < 3 and n > 3000:
            k = 64
        return [wire[i:i + k] for i in range(0, n, k)]
    if style == "tiny":
        k = 1 if n <= 1500 else rng.choice([17, 33])
        return [wire[i:i + k] for i in range(0, n, k)]
    if style == "random":
        cuts = sorted(set(rng.randrange(1, n) for _ in range(rng.randint(1, 12)))) if n > 1 else []
    else:  # cuts around every CRLF-- occurrence
        pos = [m.start() for m in re.finditer(rb"\r\n--", wire)]
        cuts = sorted(set(min(max(p + rng.randint(-2, 6), 1), n - 1) for p in pos if n > 1))
    out, last = [], 0
    for c in cuts:
        if c > last:
            out.append(wire[last:c]); last = c
    out.append(wire[last:])
    return [s for s in out if s]


def gen_script(rng, boundary):
    bl = len(boundary) + 4      # _boundary_len of the top-level reader
    acts = []
    for _ in range(rng.randint(1, 4)):
        r = rng.random()
        if r < 0.25:
            acts.append(("R",))
        elif r < 0.6:
            sizes = [rng.choice([bl, bl + 1, bl + 2, 2 * bl, 64, 100, 1000, 8191, 8192, 8193, 10000, 20000, 76, 77, bl + 3])
                     for _ in range(rng.randint(1, 3))]
            acts.append(("C", sizes))
        elif r < 0.7:
            acts.append(("L",))
        elif r < 0.8:
            acts.append(("X",))
        elif r < 0.9:
            acts.append(("S",))
        else:
            acts.append(("P", rng.randint(0, 3), rng.choice([bl, 64, 8192, 100])))
    return acts


def legal_sizes_for(script, specs, boundary):
    """read_chunk sizes must be >= the inner-most boundary length + 2 for nested parts too"""
    need = len(boundary) + 4
    def walk(sps, b):
        nonlocal need
        need = max(need, len(b) + 4)
        for sp in sps:
            if sp.nested:
                walk(sp.nested[2], sp.nested[0])
    walk(specs, boundary)
    out = []
    for a in script:
        if a[0] == "C":
            out.append(("C", [max(s, need) for s in a[1]]))
        elif a[0] == "P":
            out.append(("P", a[1], max(a[2], need)))
        else:
            out.append(a)
    return out


# ------------------------------------------------------------------------------ direct oracle
def decode_part(part, tag, data):
    """decoded content from what the chosen API returned (the part's own decoder on the joined raw data)"""
    if tag in ("R", "C", "L"):
        return part.decode(b"".join(data))
    return None


_B64 = frozenset(b"ABCDEFGHIJKLMNOPQRSTUVWXYZabcdefghijklmnopqrstuvwxyz0123456789+/=")


def b64_unaligned(chunks, complete=True):
    """(index, number of base64 characters) of the first chunk that does not hold whole quartets, else None; when the part
    was read to its end the last non-empty chunk is exempt.  Fewer than 4 characters = the recorded short-read escape;
    4 or more = alignment not applied."""
    last = max((i for i, c in enumerate(chunks) if c), default=-1)
    for i, c in enumerate(chunks[:max(last, 0)] if complete else chunks):
        n = sum(1 for x in c if x in _B64)
        if n % 4:
            return i, n
    return None


def b64_chunks_independent(part, tag, data):
    """base64 parts (any letter case of the header value - the writer and the decoder compare case-insensitively):
    every chunk handed out by read_chunk must be decodable on its own and the per-chunk decodings must concatenate to
    the decoding of the whole (reference: base64 module).  Returns (signature, message) or None."""
    te = part.headers.get("Content-Transfer-Encoding", "").lower()
    if tag != "C" or te != "base64":
        return None
    msg = None
    try:
        per = b"".join(base64.b64decode(c) for c in data)
        whole = base64.b64decode(b"".join(data))
        if per != whole:
            msg = f"per-chunk decoding gives {len(per)} bytes, whole gives {len(whole)}"
    except binascii.Error as e:
        msg = f"a chunk is not decodable on its own: {e}"
    if msg is None:
        return None
    un = b64_unaligned(data)
    if un is not None and un[1] >= 4:
        return ("C19/b64/chunk-with-whole-quartets-not-aligned",
                f"{msg}; chunk {un[0]} holds {un[1]} base64 characters (header value {part.headers.get('Content-Transfer-Encoding')!r})")
    return ("C19/b64/chunk-not-quartet-aligned", msg)


def expected_headers(p):
    return [(k, v) for k, v in p.headers.items()]


def check_names(ctx, case, sp, part):
    if not sp.disp:
        return
    for key in ("name", "filename"):
        if key not in sp.disp[2]:
            continue
        orig = sp.disp[2][key]
        got = getattr(part, key)
        if got == orig:
            continue
        if got is not None and unquote(got) == orig:
            continue
        ctx.hit("names:deviation")
        stripped = orig.lstrip("\\/")
        if any(";" in v for v in sp.disp[2].values()):
            ctx.violation("C19/roundtrip/disposition-param-with-semicolon", case,
                          f"{key} {orig!r} written (params {sp.disp[2]!r}, quote_fields={sp.disp[1]}) is read back as {got!r}")
        elif got is not None and (got == stripped or unquote(got) == stripped):
            ctx.violation(f"C19/roundtrip/{key}-leading-slash-stripped", case,
                          f"{key} {orig!r} written (quote_fields={sp.disp[1]}) is read back as {got!r}")
        else:
            ctx.violation(f"C19/roundtrip/{key}-differs/quote_fields={sp.disp[1]}", case,
                          f"{key} {orig!r} written (quote_fields={sp.disp[1]}) is read back as {got!r}")


def has_empty_nested(specs):
    return any(sp.nested and (not sp.nested[2] or has_empty_nested(sp.nested[2])) for sp in specs)


def oracle_roundtrip(ctx, case, specs, built, parts, where=""):
    """parts (tree from the real reader) must equal what was written"""
    if len(parts) != len(specs):
        ctx.violation("C19/roundtrip/part-count", case, f"{where}wrote {len(specs)} parts, read {len(parts)}")
        return
    for i, (sp, b, got) in enumerate(zip(specs, built, parts)):
        if sp.nested:
            if got[0] != "N":
                ctx.violation("C19/roundtrip/nested-not-recognised", case, f"{where}part {i}: nested writer read back as a body part")
                continue
            if got[2] is not None:
                oracle_roundtrip(ctx, case, sp.nested[2], b[2], got[2], where=f"{where}{i}/")
            continue
        if got[0] != "B":
            ctx.violation("C19/roundtrip/body-read-as-nested", case, f"{where}part {i}")
            continue
        _, part, tag, data = got
        exp_h = expected_headers(b[1])
        got_h = [(k, v) for k, v in part.headers._md.items()]
        if got_h != exp_h:
            ctx.violation("C19/roundtrip/headers-differ", case, f"{where}part {i}: wrote {exp_h!r} read {got_h!r}")
        check_names(ctx, case, sp, part)
        sm = b64_chunks_independent(part, tag, data)
        if sm:
            ctx.violation(sm[0], case, f"{where}part {i}: {sm[1]}")
        try:
            dec = decode_part(part, tag, data)
        except Exception as e:
            ctx.violation(f"C19/roundtrip/decode-error/{tag}/{(sp.te or '-').lower()}/{(sp.enc or '-').lower()}", case,
                          f"{where}part {i}: decoding what {tag} returned raised {type(e).__name__}: {e}")
            continue
        if dec is not None and bytes(dec) != sp.content:
            a, bb = bytes(dec), sp.content
            k = next((j for j in range(min(len(a), len(bb))) if a[j] != bb[j]), min(len(a), len(bb)))
            ctx.violation(f"C19/roundtrip/content-differs/{tag}/{(sp.te or '-').lower()}/{(sp.enc or '-').lower()}", case,
                          f"{where}part {i}: wrote {len(bb)} bytes, read {len(a)}; first difference at {k}: "
                          f"{bb[max(0,k-8):k+8]!r} vs {a[max(0,k-8):k+8]!r}")


# ------------------------------------------------------------------------------ the checks
def specs_to_json(specs):
    out = []
    for sp in specs:
        if sp.nested:
            out.append({"nested": [sp.nested[0], sp.nested[1], specs_to_json(sp.nested[2])]})
        else:
            out.append({"headers": sp.headers, "content": sp.content.hex(), "enc": sp.enc, "te": sp.te,
                        "disp": [sp.disp[0], sp.disp[1], sp.disp[2]] if sp.disp else None, "ctype": sp.ctype})
    return out


def specs_from_json(js):
    out = []
    for j in js:
        if "nested" in j:
            out.append(PartSpec(nested=(j["nested"][0], j["nested"][1], specs_from_json(j["nested"][2]))))
        else:
            out.append(PartSpec(headers=[tuple(h) for h in j["headers"]], content=bytes.fromhex(j["content"]), enc=j["enc"], te=j["te"],
                                disp=(j["disp"][0], j["disp"][1], j["disp"][2]) if j["disp"] else None, ctype=j["ctype"]))
    return out


def has_delim_content(specs):
    for sp in specs:
        if sp.nested:
            if has_delim_content(sp.nested[2]): return True
        # stream-mode APIs cannot be used on content that contains the delimiter
    return False


class _Resign:
    """route every violation of one case to a single signature (used where the cause is known by construction)"""
    def __init__(self, ctx, sig):
        self._ctx, self._sig = ctx, sig
    def violation(self, sig, case, detail):
        if sig.startswith(("C19/roundtrip/", "C19/b64/")):
            self._ctx.violation(self._sig, case, f"[{sig}] {detail}")
        else:                          # size / termination / limits clauses are never absorbed by a read-side finding
            self._ctx.violation(sig, case, detail)
    def __getattr__(self, k):
        return getattr(self._ctx, k)


def _lf_prefix(sps, b):
    for sp in sps:
        if sp.nested:
            if _lf_prefix(sp.nested[2], sp.nested[0]): return True
        else:
            # the readline API sees the *encoded* body (b2a_qp soft line breaks are "=\\n": a bare LF)
            for body in (sp.content, encoded_body(sp.content, sp.enc, sp.te)):
                if (b"\n--" + b.encode()) in b"\n" + body and (b"\r\n--" + b.encode()) not in b"\r\n" + body:
                    return True
    return False


def one_roundtrip(ctx, loop, case, compare_lines):
    """case: dict(boundary, subtype, specs(json), segs(hex list) or seg params, script, ...). Runs writer+reader on
    the real code, applies the direct oracle, and queues the model lines for comparison."""
    boundary, subtype = case["boundary"], case["subtype"]
    specs = specs_from_json(case["specs"])
    if any(a[0] == "L" for a in case["script"]) and _lf_prefix(specs, boundary):
        ctx = _Resign(ctx, "C19/roundtrip/readline-bare-lf-before-boundary-prefix")
    flat = not any(sp.nested for sp in specs)
    try:
        mw, built = build_writer(boundary, subtype, specs)
        wire = write_all(loop, mw)
        size = mw.size
    except (AssertionError, RuntimeError, ValueError) as e:
        # the writer refuses: nothing is produced, nothing to read back
        ctx.hit("writer-refuses:" + type(e).__name__)
        return None
    # --- size truthful
    if size is not None and size != len(wire):
        ctx.violation("C19/size/declared-differs-from-written", case, f"size={size}, wrote {len(wire)} bytes")
    # --- writer correspondence (flat part lists only)
    if flat:
        hdrs = "/".join(io19.show_hdrs(b[1].headers) for b in built)
        compare_lines.append((wr_line(boundary, subtype, specs, built),
                              f"ok {hx(wire)} size={'none' if size is None else size} hdrs={hdrs}", case, "MultipartWriter vs Aio.C19.writeParts"))
    # --- reader
    cuts = case["cuts"]
    segs = [wire[a:b] for a, b in zip([0] + cuts, cuts + [len(wire)])]
    segs = [s for s in segs if s]
    script = [tuple(a) if a[0] != "C" else ("C", list(a[1])) for a in case["script"]]
    kw = dict(script=script, descend=case["descend"], prefed=min(case["prefed"], len(segs)), eof_with_last=case["eof_with_last"],
              limit=case.get("limit", 2 ** 16))
    ev, parts, steps, err, rd = run_reader(loop, segs, boundary, subtype, **kw)
    ctx.hit("rt:" + (err or "ok"))
    if err == "E_VALUE" and has_empty_nested(specs) and (not case["descend"] or ev.endswith("( ) E_VALUE")):
        # (narrow: a ValueError raised by the first next() after an empty nested reader; anything else is reported as itself)
        ctx.violation("C19/roundtrip/empty-nested-multipart", case, f"a body with an empty nested multipart ends with {err}: {ev[-200:]}")
    elif err is not None:
        ctx.violation(f"C19/roundtrip/reader-error/{err}", case, f"reading a body produced by the writer ended with {err}: {ev[-200:]}")
    else:
        oracle_roundtrip(ctx, case, specs, built, parts)
    if b"_charset_" not in wire:
        compare_lines.append((rd_line(segs, boundary, subtype, **kw), ev, case, "MultipartReader vs Aio.C19.drive"))
    return wire


def gen_roundtrip_case(rng, small=False):
    boundary = gen_boundary(rng)
    subtype = rng.choice(["mixed", "mixed", "form-data", "related"])
    specs = gen_parts(rng, boundary, subtype, small=small)
    script = legal_sizes_for(gen_script(rng, boundary), specs, boundary)
    # content that contains the delimiter is only legal for length-framed parts read by count
    def fix(sps, b):
        for sp in sps:
            if sp.nested:
                fix(sp.nested[2], sp.nested[0])
            elif (b"\r\n--" + b.encode()) in b"\r\n" + sp.content:
                return True
        return False
    def lf_prefix(sps, b):
        for sp in sps:
            if sp.nested:
                if lf_prefix(sp.nested[2], sp.nested[0]): return True
            elif (b"\n--" + b.encode()) in b"\n" + sp.content or (b"\n--" + b.encode()) in b"\n" + encoded_body(sp.content, sp.enc, sp.te):
                return True
        return False
    # (the readline API on content with a bare-LF line that starts with the boundary is a recorded finding,
    #  probed separately by FIXED_PROBES)
    if fix(specs, boundary) or lf_prefix(specs, boundary):
        script = [a for a in script if a[0] != "L"] or [("R",)]
    return {"kind": "rt", "boundary": boundary, "subtype": subtype, "specs": specs_to_json(specs), "script": [list(a) for a in script],
            "descend": rng.random() < 0.8, "prefed": rng.choice([0, 0, 0, 1, 2, 10 ** 6]), "eof_with_last": rng.random() < 0.5,
            "seg_style": rng.choice(["whole", "fixed", "fixed", "random", "edges", "tiny"]), "seg_seed": rng.randrange(2 ** 32), "cuts": None}


def fill_cuts(case, loop):
    """segmentation is drawn over the actual wire length (needs the writer's output)"""
    import random
    if case["cuts"] is not None:
        return
    specs = specs_from_json(case["specs"])
    try:
        mw, _ = build_writer(case["boundary"], case["subtype"], specs)
        wire = write_all(loop, mw)
    except (AssertionError, RuntimeError, ValueError):
        case["cuts"] = []
        return
    segs = segment(random.Random(case["seg_seed"]), wire, case["seg_style"])
    cuts, pos = [], 0
    for s in segs[:-1]:
        pos += len(s); cuts.append(pos)
    case["cuts"] = cuts


def check_roundtrips(ctx, loop):
    rng = ctx.rng
    n = 500 if ctx.quick else 7000
    lines = []
    for i in range(n):
        case = gen_roundtrip_case(rng, small=(i % 3 == 0))
        fill_cuts(case, loop)
        wire = one_roundtrip(ctx, loop, case, lines)
        if wire is None:
            continue
        ctx.case(("rt", case["boundary"], case["specs"], case["cuts"], case["script"]), nontrivial=len(case["specs"]) > 0,
                 sample={"boundary": case["boundary"], "parts": len(case["specs"]), "wire_len": len(wire), "script": case["script"]} if i % 97 == 0 else None)
        for a in case["script"]: ctx.hit("api:" + a[0])
        ctx.hit("seg:" + case["seg_style"])
    flush_compare(ctx, lines)


def flush_compare(ctx, lines):
    outs = ctx.model([l[0] for l in lines])
    if outs is None:
        return
    for (line, impl, case, where), out in zip(lines, outs):
        ctx.compare(case, impl, out, where)


# ------------------------------------------------------------------------------ mutation stream (termination, limits)
ASCII_JUNK = [b"\r\n", b"\n", b"\r", b"--", b":", b" ", b"\t", b"a", b"Content-Length: 5\r\n", b"Content-Length: 0\r\n", b"Content-Length: 1x\r\n",
              b"Content-Type: multipart/mixed; boundary=q\r\n", b"Content-Type: multipart/mixed\r\n", b"Content-Transfer-Encoding: base64\r\n",
              b"content-length: 3\r\n", b"CONTENT-LENGTH: 2\r\n", b"Content-Length:7\r\n", b"Content-Length: 007\r\n", b"Content-Length: +5\r\n",
              b"content-type: Multipart/Mixed; Boundary=q\r\n", b"CONTENT-TYPE: MULTIPART/FORM-DATA; boundary=\"q\"\r\n", b"Content-Type: multipart/mixed; boundary=\r\n",
              b"Content-Type: multipart/mixed; boundary=" + b"z" * 71 + b"\r\n", b"content-transfer-encoding: BASE64\r\n", b"Content-Transfer-Encoding: base64\r\nContent-Transfer-Encoding: base64\r\n",
              b"--q\r\n", b"--q--\r\n",
              b"\r\n\r\n", b"x: y\r\n", b"bad header\r\n", b"Content-Type: text/plain\r\nContent-Type: text/html\r\n", b"\x00", b"\x7f", b"=", b"Zm9v"]


def mutate(rng, wire, boundary):
    bb = boundary.encode()
    junk = ASCII_JUNK + [b"--" + bb, b"--" + bb + b"--", b"\r\n--" + bb + b"\r\n", b"\r\n--" + bb + b"--\r\n", bb]
    w = bytearray(wire)
    for _ in range(rng.choice([1, 1, 2, 3])):
        n = len(w)
        k = rng.random()
        pos = rng.randrange(n + 1) if rng.random() < 0.5 or n == 0 else _near_structure(rng, bytes(w))
        if k < 0.25:
            del w[pos:]                                           # truncate
        elif k < 0.45:
            del w[pos:pos + rng.choice([1, 2, 3, len(bb), len(bb) + 4, 50])]      # delete
        elif k < 0.75:
            w[pos:pos] = rng.choice(junk) * rng.choice([1, 1, 1, 2, 200])         # insert
        elif k < 0.9:
            if n:
                q = min(pos, n - 1); w[q] = rng.choice(b"\r\n-: aZ0=\x00\x7f")   # replace one byte
        else:
            a = rng.randrange(n + 1); b = min(n, a + rng.choice([10, 100, 1000]))
            w[pos:pos] = w[a:b]                                   # duplicate a region
    return bytes(w)


def _near_structure(rng, w):
    pos = [m.start() for m in re.finditer(rb"\r\n--|\r\n\r\n|: ", w)]
    return min(len(w), max(0, rng.choice(pos) + rng.randint(-2, 8))) if pos else rng.randrange(len(w) + 1)


def gen_mutation_case(rng):
    boundary = gen_boundary(rng)
    subtype = rng.choice(["mixed", "mixed", "form-data"])
    specs = gen_parts(rng, boundary, subtype, small=rng.random() < 0.7, ascii_only=True)
    drop_epilogue = subtype != "form-data" and rng.random() < 0.2
    if drop_epilogue:        # bodies whose nested close-delimiter is not followed by an epilogue line (`_read_boundary` fallback)
        for _ in range(30):
            if any(sp.nested and sp.nested[2] for sp in specs):
                break
            specs = gen_parts(rng, boundary, subtype, small=True, ascii_only=True)
    def walk(sps):
        for sp in sps:
            if sp.nested:
                yield from walk(sp.nested[2])
            else:
                yield sp
    for sp in walk(specs):
        if sp.disp:       # ASCII-only header block: the byte-level header model is exact there
            sp.disp = (sp.disp[0], True, {k: "".join(c for c in v if 32 <= ord(c) < 127 and c not in ';"\\') or "n" for k, v in sp.disp[2].items()})
        sp.headers = [(k, v) for k, v in sp.headers if v.isascii()]
    return {"kind": "mut", "boundary": boundary, "subtype": subtype, "specs": specs_to_json(specs),
            "drop_epilogue": drop_epilogue, "also_random": rng.random() < 0.5,
            "script": [list(a) for a in legal_sizes_for(gen_script(rng, boundary), specs, boundary)],
            "descend": rng.random() < 0.8, "prefed": rng.choice([0, 0, 1, 10 ** 6]), "eof_with_last": rng.random() < 0.5,
            "seg_style": rng.choice(["whole", "fixed", "random", "edges", "tiny"]), "seg_seed": rng.randrange(2 ** 32),
            "mut_seed": rng.randrange(2 ** 32), "max_field": rng.choice([8190, 8190, 40, 100]), "max_headers": rng.choice([128, 128, 2, 4]),
            "max_size": rng.choice([2 ** 62, 2 ** 62, 10, 100, 8192, 9000]), "limit": rng.choice([2 ** 16, 2 ** 16, 64, 1000])}


def one_mutation(ctx, loop, case, compare_lines):
    import random
    specs = specs_from_json(case["specs"])
    try:
        mw, built = build_writer(case["boundary"], case["subtype"], specs)
        wire = write_all(loop, mw)
    except (AssertionError, RuntimeError, ValueError):
        return None
    if case.get("drop_epilogue"):
        wire = wire.replace(b"--\r\n\r\n--", b"--\r\n--")
        ctx.hit("mut:drop-epilogue")
    if not case.get("drop_epilogue") or case.get("also_random"):
        wire = mutate(random.Random(case["mut_seed"]), wire, case["boundary"])
    segs = segment(random.Random(case["seg_seed"]), wire, case["seg_style"])
    script = [tuple(a) if a[0] != "C" else ("C", list(a[1])) for a in case["script"]]
    kw = dict(script=script, descend=case["descend"], prefed=min(case["prefed"], len(segs)), eof_with_last=case["eof_with_last"],
              limit=case["limit"], max_field=case["max_field"], max_headers=case["max_headers"], max_size=case["max_size"])
    ev, parts, steps, err, rd = run_reader(loop, segs, case["boundary"], case["subtype"], bound=8 * len(wire) + 2048, **kw)
    ctx.hit("mut:" + (err or "END"))
    if err == "LOOP":
        ctx.violation("C19/termination/step-bound-exceeded", case, f"more than {8 * len(wire) + 2048} stream reads on {len(wire)} bytes of input")
    elif err == "STUCK":
        ctx.violation("C19/termination/readline-never-reaches-eof-on-truncated-part", case,
                      "BodyPartReader.readline() keeps returning b'' at stream EOF without setting at_eof or raising: "
                      "`while not part.at_eof(): await part.readline()` never ends")
    elif err is not None and err.startswith("E_OTHER"):
        ctx.violation(f"C19/termination/unexpected-exception/{err}", case, f"reader raised {err}")
    if b"_charset_" not in wire and all(c < 128 for c in wire):
        compare_lines.append((rd_line(segs, case["boundary"], case["subtype"], **kw), ev, case, "MultipartReader (mutated input) vs Aio.C19.drive"))
    return wire


def check_mutations(ctx, loop):
    rng = ctx.rng
    n = 700 if ctx.quick else 12000
    lines = []
    for i in range(n):
        case = gen_mutation_case(rng)
        wire = one_mutation(ctx, loop, case, lines)
        if wire is None:
            continue
        ctx.case(("mut", case["boundary"], case["specs"], case["mut_seed"], case["seg_seed"], case["script"]),
                 sample={"mutated_len": len(wire), "script": case["script"]} if i % 199 == 0 else None)
    flush_compare(ctx, lines)


# ------------------------------------------------------------------------------ fixed probes (one per recorded finding)
def _rt(boundary, specs, script, subtype="mixed", cuts=None, seg_style="whole", **kw):
    c = {"kind": "rt", "boundary": boundary, "subtype": subtype, "specs": specs_to_json(specs), "script": script, "descend": True,
         "prefed": 0, "eof_with_last": False, "seg_style": seg_style, "seg_seed": 1, "cuts": cuts}
    c.update(kw)
    return c


def fixed_probes():
    P = PartSpec
    return [
        # base64 part delivered one byte per segment: read_chunk hands out chunks that are not whole quartets
        _rt("b", [P(content=b"hello world!", te="base64", headers=[("Content-Transfer-Encoding", "base64")])], [["C", [8192]]], seg_style="tiny"),
        # an empty nested multipart written by MultipartWriter cannot be read back
        _rt("b", [P(nested=("inner", "mixed", [])), P(content=b"x")], [["R"]]),
        # leading / or \ of a field name / file name is stripped by the reader
        _rt("b", [P(content=b"x", disp=("form-data", False, {"name": "/a"}))], [["R"]], subtype="form-data"),
        _rt("b", [P(content=b"x", disp=("form-data", False, {"name": "n", "filename": "\\a"}))], [["R"]], subtype="form-data"),
        # two semicolons in a parameter value defeat parse_content_disposition
        _rt("b", [P(content=b"x", disp=("form-data", True, {"name": "a;b;c"}))], [["R"]], subtype="form-data"),
        # readline API: a content line that starts with the boundary after a bare LF
        _rt("b", [P(content=b"a\n--b\nc"), P(content=b"second")], [["L"]]),
        _rt("b", [P(content=b"a\n--bxyz\nc"), P(content=b"second")], [["L"]]),
        # quoted-printable decoded chunk by chunk (BodyPartReaderPayload.write / post()): an escape split by a short read stays encoded
        {"kind": "tecase", "te_kind": "quoted-printable", "te": "quoted-printable", "path": "payload", "seg": 3, "boundary": "b",
         "content": b"price=5 caf\xc3\xa9".hex(), "sizes": [8192]},
        # body truncated inside a part, read by read_chunk / read / release: the EOF counter must end it after exactly two more calls
        {"kind": "trunc", "boundary": "b", "subtype": "mixed", "specs": specs_to_json([P(content=b"0123456789" * 30, te="base64", headers=[("Content-Transfer-Encoding", "base64")])]),
         "cut_at": -40, "script": [["C", [8192]]]},
        {"kind": "trunc", "boundary": "b", "subtype": "mixed", "specs": specs_to_json([P(content=b"0123456789" * 30, te="base64", headers=[("Content-Transfer-Encoding", "base64")])]),
         "cut_at": -40, "script": [["R"]]},
        {"kind": "trunc", "boundary": "b", "subtype": "mixed", "specs": specs_to_json([P(content=b"0123456789" * 30, te="base64", headers=[("Content-Transfer-Encoding", "base64")])]),
         "cut_at": -40, "script": [["X"]]},
        # nested close-delimiter not followed by an epilogue line (the `_read_boundary` fallback), nested twice, and a length-framed
        # part whose content contains the delimiter
        {"kind": "raw", "boundary": "o", "script": [["R"]], "descend": True, "seg": 7,
         "wire": (b"--o\r\nContent-Type: multipart/mixed; boundary=i\r\n\r\n--i\r\n\r\nA\r\n--i--\r\n--o\r\n\r\nB\r\n--o--\r\n").hex()},
        {"kind": "raw", "boundary": "o", "script": [["C", [9, 5]]], "descend": False, "seg": 3,
         "wire": (b"--o\r\nContent-Type: multipart/mixed; boundary=i\r\n\r\n--i\r\nContent-Type: Multipart/Related; Boundary=\"j\"\r\n\r\n--j\r\n\r\nA\r\n--j--\r\n--i--\r\n\r\n--o\r\ncontent-length: 9\r\n\r\nB\r\n--o\r\nB\r\n--o--\r\n").hex()},
        # file-like payload at a non-zero offset: size, write, write
        {"kind": "iop", "buf": bytes(range(200)).hex(), "k": 100, "src": "filerb", "ops": "SWWS"},
        {"kind": "iop", "buf": bytes(range(200)).hex(), "k": 100, "src": "bytesio", "ops": "WWS"},
        # FormData used twice (redirect / retry): same bytes, same size
        {"kind": "post", "fields": [{"name": "a", "bytes": False, "text": "v1", "ctype": None},
                                    {"name": "f", "bytes": True, "hex": b"filedata".hex(), "filename": "x.bin", "ctype": None}],
         "quote_fields": True, "seg": 1000, "client_max_size": 2 ** 30},
        # text-mode file (default newline=None) handed over after the caller consumed a CR-terminated header line
        {"kind": "textcookie", "data": b"HDR\rline one\rline two\r".hex(), "how": "readline", "newline": None, "api": "append"},
        {"kind": "textcookie", "data": b"HDR\rline one\rline two\r".hex(), "how": "readline", "newline": None, "api": "formdata"},
        {"kind": "textcookie", "data": b"HDR\nline one\nline two\n".hex(), "how": "readline", "newline": None, "api": "append"},
        # readline API on a body truncated inside a part
        {"kind": "trunc", "boundary": "b", "subtype": "mixed", "specs": specs_to_json([P(content=b"line1\r\nline2")]), "cut_at": -12,
         "script": [["L"]]},
    ]


def one_trunc(ctx, loop, case, compare_lines):
    specs = specs_from_json(case["specs"])
    mw, _ = build_writer(case["boundary"], case["subtype"], specs)
    wire = write_all(loop, mw)[:case["cut_at"]]
    script = [tuple(a) for a in case["script"]]
    ev, parts, steps, err, rd = run_reader(loop, [wire], case["boundary"], case["subtype"], script=script)
    ctx.hit("trunc:" + (err or "END"))
    if err == "STUCK":
        ctx.violation("C19/termination/readline-never-reaches-eof-on-truncated-part", case,
                      "BodyPartReader.readline() keeps returning b'' at stream EOF without setting at_eof or raising: "
                      "`while not part.at_eof(): await part.readline()` never ends")
    elif err == "LOOP":
        ctx.violation("C19/termination/step-bound-exceeded", case, "step bound exceeded")
    compare_lines.append((rd_line([wire], case["boundary"], case["subtype"], script=script), ev, case, "truncated body vs Aio.C19.drive"))


def one_raw(ctx, loop, case, compare_lines):
    """a hand-written body (shapes no writer produces): termination oracle + event-by-event comparison with the model"""
    wire = bytes.fromhex(case["wire"])
    seg = case["seg"]
    segs = [wire[i:i + seg] for i in range(0, len(wire), seg)]
    script = [tuple(a) if a[0] != "C" else ("C", list(a[1])) for a in case["script"]]
    kw = dict(script=script, descend=case["descend"])
    ev, parts, steps, err, rd = run_reader(loop, segs, case["boundary"], "mixed", bound=8 * len(wire) + 2048, **kw)
    ctx.hit("raw:" + (err or "END"))
    if err in ("LOOP", "STUCK") or (err or "").startswith("E_OTHER"):
        ctx.violation(f"C19/termination/raw-body/{err}", case, f"reader ended with {err}")
    if "expect" in case and ev != case["expect"]:
        ctx.violation("C19/roundtrip/raw-body-reads-differently", case, f"events {ev[-160:]} expected {case['expect'][-160:]}")
    compare_lines.append((rd_line(segs, case["boundary"], "mixed", **kw), ev, case, "hand-written body vs Aio.C19.drive"))


def one_textcookie(ctx, loop, case):
    """a text-mode file handed to MultipartWriter.append / FormData.add_field after the caller read its first line: the declared
    size must be the bytes written and the rest of the file must read back"""
    import tempfile
    from aiohttp import MultipartWriter, FormData
    data = bytes.fromhex(case["data"])
    t = tempfile.NamedTemporaryFile("wb", delete=False, prefix="c19-", suffix=".txt"); t.write(data); t.close()
    f = open(t.name, "r", encoding="utf-8", newline=case["newline"])
    os.unlink(t.name)
    try:
        head = f.readline() if case["how"] == "readline" else f.read(4)
        cookie = f.tell()
        rest_expected = None
        if case["api"] == "append":
            mw = MultipartWriter("mixed", boundary="B"); mw.append(f)
        else:
            fd = FormData(); fd.add_field("f", f, filename="a.txt"); mw = fd()
        res = {}
        try:
            res["size"] = mw.size
            res["wire"] = write_all(loop, mw)
        except Exception as e:
            res["err"] = f"{type(e).__name__}: {str(e)[:60]}"
    finally:
        f.close()
    is_cookie = cookie > len(data)        # TextIOWrapper.tell() returned an opaque cookie, not a byte offset
    ctx.hit(f"textcookie:{'cookie' if is_cookie else 'offset'}:{'err' if 'err' in res else 'ok'}")
    bad = None
    if "err" in res:
        bad = f"size={res.get('size')}, write raised {res['err']}"
    elif res["size"] is not None and res["size"] != len(res["wire"]):
        bad = f"size={res['size']} but {len(res['wire'])} bytes written"
    if bad:
        sig = ("C19/size/textfile-tell-cookie-used-as-byte-offset" if is_cookie and (res.get("size") or 0) < 0
               else "C19/size/textfile-part-size-or-write-wrong")
        ctx.violation(sig, case, f"text-mode file {data[:24]!r}, newline={case['newline']!r}, after {case['how']} (tell()={hex(cookie)}), via {case['api']}: {bad}")


def check_probes(ctx, loop):
    lines = []
    for case in fixed_probes():
        run_case(ctx, loop, case, lines)
        ctx.case(("probe", json.dumps(case, sort_keys=True)))
    flush_compare(ctx, lines)


def run_case(ctx, loop, case, lines):
    k = case.get("kind")
    if k == "rt":
        fill_cuts(case, loop)
        one_roundtrip(ctx, loop, case, lines)
    elif k == "mut":
        one_mutation(ctx, loop, case, lines)
    elif k == "trunc":
        one_trunc(ctx, loop, case, lines)
    elif k == "limit":
        one_limit(ctx, loop, case)
    elif k == "post":
        one_post(ctx, loop, case)
    elif k == "bomb":
        one_bomb(ctx, loop, case)
    elif k == "tecase":
        one_tecase(ctx, loop, case)
    elif k == "nestlim":
        one_nestlim(ctx, loop, case, lines)
    elif k == "hist":
        one_history(ctx, loop, case, lines)
    elif k == "iop":
        one_iopayload(ctx, loop, case, lines)
    elif k == "raw":
        one_raw(ctx, loop, case, lines)
    elif k == "work":
        one_work(ctx, loop, case)
    elif k == "textcookie":
        one_textcookie(ctx, loop, case)


# ------------------------------------------------------------------------------ limits are enforced while reading
def one_limit(ctx, loop, case):
    """a body that exceeds one limit by far, delivered lazily in `seg`-byte segments: the reader must give up (with the
    right error) after having been fed little more than the limit - not after the oversized item has been buffered"""
    what, seg, n = case["what"], case["seg"], case["n"]
    head = b"--b\r\nContent-Type: text/plain\r\n"
    kw = dict(script=[("R",)], max_field=8190, max_headers=128, max_size=2 ** 62, limit=2 ** 16)
    if what == "field":
        wire = head + b"X-Long: " + b"a" * n + b"\r\n\r\nbody\r\n--b--\r\n"
        kw["max_field"] = case["limit_value"]; expect = "E_LINE"; allowed = len(head) + case["limit_value"]
    elif what == "headers":
        wire = head + b"x: y\r\n" * n + b"\r\nbody\r\n--b--\r\n"
        kw["max_headers"] = case["limit_value"]; expect = "E_BADMSG"; allowed = len(head) + 6 * (case["limit_value"] + 1)
    elif what == "size-read":
        wire = head + b"\r\n" + b"z" * n + b"\r\n--b--\r\n"
        kw["max_size"] = case["limit_value"]; expect = "E_SIZE"; allowed = len(head) + 2 + case["limit_value"] + 3 * 8192
    elif what == "preamble-line":
        wire = b"p" * n + b"\r\n" + head + b"\r\nbody\r\n--b--\r\n"
        kw["limit"] = case["limit_value"]; expect = "E_LINE"; allowed = 2 * case["limit_value"]
    else:
        raise AssertionError(what)
    segs = [wire[i:i + seg] for i in range(0, len(wire), seg)]
    ev, parts, steps, err, rd = run_reader(loop, segs, "b", "mixed", **kw)
    ctx.hit(f"limit:{what}:{err}")
    got = (err or "END").split("@")[0]
    if got != expect:
        ctx.violation(f"C19/limits/{what}/not-enforced", case, f"expected {expect}, reader ended with {err or 'END'}")
    elif rd.fed_bytes > allowed + 2 * seg:
        ctx.violation(f"C19/limits/{what}/enforced-only-after-buffering", case,
                      f"{rd.fed_bytes} bytes had been fed when {expect} was raised; the limit allows about {allowed} (+2 segments of {seg})")
    line = rd_line(segs, "b", "mixed", **kw)
    return line, ev


def check_limits(ctx, loop):
    rng = ctx.rng
    lines = []
    for i in range(24 if ctx.quick else 200):
        what = ["field", "headers", "size-read", "preamble-line"][i % 4]
        lv = {"field": rng.choice([100, 8190]), "headers": rng.choice([3, 128]), "size-read": rng.choice([10, 10000, 70000]),
              "preamble-line": rng.choice([1000, 65536])}[what]
        n = {"field": 6 * lv + 30000, "headers": 10 * lv + 500, "size-read": 3 * lv + 60000, "preamble-line": 4 * lv + 20000}[what]
        case = {"kind": "limit", "what": what, "seg": rng.choice([100, 1000, 4096]), "n": n, "limit_value": lv}
        line, ev = one_limit(ctx, loop, case)
        lines.append((line, ev, case, "limits vs Aio.C19.drive"))
        ctx.case(("limit", what, case["seg"], n, lv))
    flush_compare(ctx, lines)


# ------------------------------------------------------------------------------ FormData -> BaseRequest.post()
def one_post(ctx, loop, case):
    from aiohttp import FormData
    from aiohttp.test_utils import make_mocked_request
    from aiohttp.web_exceptions import HTTPRequestEntityTooLarge
    from aiohttp.web_request import FileField
    fields = case["fields"]
    fd = FormData(quote_fields=case["quote_fields"], default_to_multipart=True)
    for f in fields:
        val = bytes.fromhex(f["hex"]) if f["bytes"] else f["text"]
        fd.add_field(f["name"], val, filename=f.get("filename"), content_type=f.get("ctype"))
    try:
        mw = fd()
        wire = write_all(loop, mw)
    except (AssertionError, ValueError, TypeError) as e:
        ctx.hit("post:writer-refuses"); return
    if mw.size is not None and mw.size != len(wire):
        ctx.violation("C19/size/declared-differs-from-written", case, f"FormData: size={mw.size}, wrote {len(wire)}")
    # the same FormData object is called and sent again (retry, 307/308 redirect): same bytes, same size
    try:
        mw2 = fd()
        wire2 = write_all(loop, mw2)
        size2 = mw2.size
    except Exception as e:
        wire2, size2 = f"{type(e).__name__}: {e}"[:80], None
    if wire2 != wire:
        ctx.violation("C19/roundtrip/formdata-second-use-differs", case,
                      f"FormData called and written a second time: {len(wire)} bytes first, then "
                      f"{len(wire2) if isinstance(wire2, bytes) else wire2}")
    elif size2 != mw.size:
        ctx.violation("C19/size/declared-differs-from-written/formdata-second-use", case, f"size {mw.size} first, {size2} on second use")
    seg = case["seg"]
    segs = [wire[i:i + seg] for i in range(0, len(wire), seg)]
    sr = io19.make_stream(loop, 2 ** 16, 16 * len(wire) + 4096)
    cms = case["client_max_size"]
    out = {}

    async def main():
        req = make_mocked_request("POST", "/", headers={"Content-Type": mw.content_type}, payload=sr, client_max_size=cms)
        try:
            out["post"] = await req.post()
        except HTTPRequestEntityTooLarge:
            out["err"] = "too-large"
        except io19.StepLimit:
            out["err"] = "LOOP"
        except Exception as e:
            out["err"] = type(e).__name__ + ": " + str(e)[:80]

    _, fed = loop.run_until_complete(io19.lazily_fed(sr, segs, 0, False, main()))
    ctx.hit("post:" + out.get("err", "ok").split(":")[0])
    if out.get("err") == "LOOP":
        ctx.violation("C19/termination/step-bound-exceeded", case, "post() exceeded the step bound"); return
    if 0 < cms < len(wire):
        semi = any(";" in (f["name"] + (f.get("filename") or "")) for f in fields)
        if out.get("err", "").startswith("ValueError") and semi:
            # the first field's Content-Disposition is unparsable (recorded finding) before the size limit is reached
            ctx.violation("C19/roundtrip/disposition-param-with-semicolon", case, f"post() failed: {out['err']}")
        elif out.get("err") != "too-large":
            ctx.violation("C19/limits/post/not-enforced", case, f"body of {len(wire)} bytes with client_max_size={cms}: {out.get('err', 'accepted')}")
        elif fed > cms + 3 * 8192 + 2 * seg:
            ctx.violation("C19/limits/post/enforced-only-after-buffering", case, f"{fed} bytes fed before 413, client_max_size={cms}")
        return
    if "err" in out:
        if any(";" in (f["name"] + (f.get("filename") or "")) for f in fields):
            ctx.violation("C19/roundtrip/disposition-param-with-semicolon", case, f"post() failed: {out['err']}")
        else:
            ctx.violation("C19/roundtrip/post-error", case, f"post() failed: {out['err']}")
        return
    got = list(out["post"].items())
    if len(got) != len(fields):
        ctx.violation("C19/roundtrip/post-field-count", case, f"{len(fields)} fields written, {len(got)} read"); return
    for f, (k, v) in zip(fields, got):
        exp = bytes.fromhex(f["hex"]) if f["bytes"] else f["text"]
        if isinstance(v, FileField):
            data = v.file.read(); fn = v.filename
            ok = data == (exp if f["bytes"] else exp.encode()) and (fn == f.get("filename") or unquote(fn) == f.get("filename"))
        elif isinstance(v, (bytes, bytearray)):
            ok = bytes(v) == exp
        else:
            ok = v == exp if not f["bytes"] else v.encode() == exp
        names_ok = k == f["name"] or unquote(k) == f["name"]
        if not (ok and names_ok):
            hard = f["name"] + (f.get("filename") or "")
            if ";" in hard:
                sig = "C19/roundtrip/disposition-param-with-semicolon"
            elif f["name"][:1] in "/\\" or (f.get("filename") or "")[:1] in ("/", "\\"):
                sig = "C19/roundtrip/name-leading-slash-stripped"
            else:
                sig = "C19/roundtrip/post-field-differs"
            ctx.violation(sig, case, f"field {f['name']!r} filename={f.get('filename')!r}: read back as {k!r} / {str(v)[:60]!r}")


def check_posts(ctx, loop):
    rng = ctx.rng
    for i in range(120 if ctx.quick else 2500):
        fields = []
        for _ in range(rng.randint(1, 4)):
            isb = rng.random() < 0.5
            n = rng.choice([0, 1, 5, 100, 8191, 8192, 8193, 20000])
            f = {"name": gen_name(rng, hard=rng.random() < 0.1), "bytes": isb}
            if isb:
                f["hex"] = gen_content(rng, "zzzzzzzzzzzzzzzzzzzzzzzzzzzzzzzzzzzzzzzz", n).hex()
                if rng.random() < 0.7:
                    f["filename"] = gen_name(rng, hard=rng.random() < 0.1)
                f["ctype"] = rng.choice([None, "application/octet-stream", "image/png"])
            else:
                f["text"] = "".join(rng.choice("ab \r\n-é€=&%+") for _ in range(min(n, 300))).replace("\r", "").replace("\n", "\r\n")
                f["ctype"] = rng.choice([None, None, "text/plain; charset=utf-8"])
            fields.append(f)
        case = {"kind": "post", "fields": fields, "quote_fields": rng.random() < 0.7, "seg": rng.choice([1000, 4096, 8192, 100000]),
                "client_max_size": rng.choice([0, 2 ** 30, 2 ** 30, 1000, 10000])}
        one_post(ctx, loop, case)
        ctx.case(("post", json.dumps(case, sort_keys=True)))


# ------------------------------------------------------------------------------ single mechanisms
def check_mechanisms(ctx, loop):
    from aiohttp.multipart import BodyPartReader
    from aiohttp.http_parser import HeadersParser
    from aiohttp.http_exceptions import BadHttpMessage
    from aiohttp.helpers import parse_mimetype
    from multidict import CIMultiDictProxy
    rng = ctx.rng
    lines = []
    n = 400 if ctx.quick else 8000
    sr = io19.make_stream(loop, 2 ** 16, 10 ** 9)
    for i in range(n):
        # _align_base64_chunk
        k = rng.choice([0, 1, 2, 3, 4, 5, 7, 8, 9, 30, 100])
        chunk = b"".join(rng.choice([b"A", b"b", b"9", b"+", b"/", b"=", b"\r\n", b"\r", b" ", b"-", b"\x00", b"\xff", b"QUJD"]) for _ in range(k))
        size = rng.choice([0, 1, 2, 3, 4, 5, 8, len(chunk), max(0, len(chunk) - 1), len(chunk) + 1, 8192])
        at_end = rng.random() < 0.25
        part = BodyPartReader(b"--b", CIMultiDictProxy(CIMultiDict({"Content-Transfer-Encoding": "base64"})), sr)
        part._at_eof = at_end
        out = part._align_base64_chunk(chunk, size)
        lines.append((f"al {hx(chunk)} {size} {'1' if at_end else '0'}", f"{hx(out)} {hx(part._b64_carry)}",
                      {"kind": "al", "chunk": chunk.hex(), "size": size, "at_end": at_end}, "_align_base64_chunk vs Aio.C19.alignB64"))
        if out + part._b64_carry != chunk:
            ctx.violation("C19/b64/alignment-loses-bytes", {"kind": "al", "chunk": chunk.hex(), "size": size, "at_end": at_end}, "chunk + carry != input")
        ctx.hit("al:" + ("cut" if part._b64_carry else "whole"))
        # base64 encoder
        d = bytes(rng.randrange(256) for _ in range(rng.choice([0, 1, 2, 3, 4, 5, 6, 30, 31, 32])))
        lines.append((f"b64 {hx(d)}", hx(base64.b64encode(d)), {"kind": "b64", "d": d.hex()}, "b64encode vs Aio.C19.b64enc"))
        # strict header parser on byte lines
        hl = []
        for _ in range(rng.randint(0, 4)):
            name = rng.choice([b"Content-Type", b"content-type", b"X-A", b"x a", b"", b" X", b"X ", b"Content-Length", b"CONTENT-LENGTH", b"Et\xc3\xa9", b"a:b", b"x\t", b"!#$%&'*+-.^_`|~"])
            val = rng.choice([b"v", b" v ", b"\tv\t", b"", b"a\x00b", b"a\x0bb", b"a\x7fb", b"caf\xc3\xa9", b"\xff", b"a\tb", b"x: y", b"1"])
            hl.append(name + rng.choice([b":", b": ", b":", b""]) + val)
        try:
            h, _ = HeadersParser().parse_headers(hl + [b""])
            impl = "ok " + io19.show_hdrs(h)
        except BadHttpMessage:
            impl = "E_BADMSG"
        lines.append(("hdr" + "".join(" " + hx(l) for l in hl if l) if all(hl) else "hdr", impl if all(hl) else "ok ~", {"kind": "hdr", "lines": [l.hex() for l in hl]},
                      "HeadersParser.parse_headers vs Aio.C19.parseHeaders"))
        ctx.hit("hdr:" + impl[:2])
        # parse_mimetype on ASCII values
        v = "".join(rng.choice(["multipart", "/", "mixed", ";", " ", "boundary", "=", '"', "b", "+", "x", "*", "\t", "Form-Data", "charset", "MULTIPART"]) for _ in range(rng.randint(0, 9)))
        m = parse_mimetype(v)
        params = "&".join(f"{hx(k.encode())}={hx(val.encode())}" for k, val in m.parameters.items()) or "~"
        lines.append((f"mime {hx(v.encode())}", f"{hx(m.type.encode())} {hx(m.subtype.encode())} {params}", {"kind": "mime", "v": v},
                      "parse_mimetype vs Aio.C19.parseMimetype"))
        ctx.case(("mech", chunk.hex(), size, at_end, d.hex(), [l.hex() for l in hl], v))
    flush_compare(ctx, lines)


# ------------------------------------------------------------------------------ decoded-size limit (compression bombs)
DECODE_SLACK = 2 ** 18    # one decode chunk: helpers.DEFAULT_CHUNK_SIZE = BodyPartReader max_decompress_size (asserted at run time)


def bomb_content(api, n, ratio_class, seed):
    """about `n` bytes (never more) that deflate by roughly the wanted ratio: a tiled unit with a random byte every `gap` bytes"""
    import random
    r = random.Random(seed)
    unit = {"read": b"\x00", "text": b"a", "json": b"0,", "form": b"a=1&"}[api]
    m = (n - 3) // len(unit) if api == "json" else n // len(unit)
    body = bytearray(unit * m)
    gap = {"1000": 0, "300": 1500, "100": 400}[ratio_class]
    if gap:
        for i in range(gap, len(body), gap):
            if api == "read":
                body[i] = r.randrange(1, 256)
            elif api == "text":
                body[i] = r.choice(b"bcdefghij")
            elif body[i:i + 1] in (b"0", b"1"):
                body[i] = r.choice(b"23456789")
    if api == "json":
        body = bytearray(b"[" + bytes(body) + b"0]")
    return bytes(body)


def one_bomb(ctx, loop, case):
    """a gzip/deflate part of a non-form-data multipart whose wire size is below client_max_size but which inflates far
    beyond it, read through an API that decodes: the size error must fire after at most limit + one decode chunk has
    been inflated (counted at decode_iter, the single place decoded bytes come from) - not after inflating everything"""
    from aiohttp import MultipartWriter, payload, helpers
    from aiohttp.multipart import MultipartReader, BodyPartReader
    if helpers.DEFAULT_CHUNK_SIZE != DECODE_SLACK:
        ctx.notes.append(f"DEFAULT_CHUNK_SIZE is {helpers.DEFAULT_CHUNK_SIZE}, the decoded-size oracle assumes {DECODE_SLACK}")
    slack = max(DECODE_SLACK, helpers.DEFAULT_CHUNK_SIZE)
    api, enc, limit = case["api"], case["enc"], case["limit"]
    content = bomb_content(api, case["n"], case["ratio_class"], case["seed"])
    n = len(content)
    mw = MultipartWriter("mixed", boundary="bomb")
    ctype = {"read": "application/octet-stream", "text": "text/plain; charset=utf-8", "json": "application/json",
             "form": "application/x-www-form-urlencoded"}[api]
    mw.append_payload(payload.BytesPayload(content, headers=CIMultiDict({"Content-Encoding": enc}), content_type=ctype))
    wire = write_all(loop, mw)
    ratio = len(content) / max(1, len(wire))
    ctx.hit(f"bomb:ratio~{'1000+' if ratio >= 600 else '200-600' if ratio >= 200 else '50-200' if ratio >= 50 else '<50'}")
    if len(wire) >= limit and n > limit:
        ctx.hit("bomb:skipped-wire-not-below-limit"); return
    seg = case["seg"]
    segs = [wire[i:i + seg] for i in range(0, len(wire), seg)]
    sr = io19.make_stream(loop, 2 ** 16, 16 * len(wire) + 4096)
    rd = MultipartReader({"Content-Type": 'multipart/mixed; boundary="bomb"'}, sr, client_max_size=limit, max_size_error_cls=io19.SizeErr)
    out = {"inflated": 0, "peak_piece": 0}

    async def main():
        part = await rd.next()
        assert isinstance(part, BodyPartReader)
        orig = part.decode_iter

        async def counting(data):
            async for d in orig(data):
                out["inflated"] += len(d); out["peak_piece"] = max(out["peak_piece"], len(d))
                yield d
        part.decode_iter = counting
        try:
            if api == "read":
                out["value"] = bytes(await part.read(decode=True))
            elif api == "text":
                out["value"] = (await part.text()).encode()
            elif api == "json":
                out["value"] = json.dumps(await part.json(), separators=(",", ":")).encode()
            else:
                out["value"] = "&".join(f"{k}={v}" for k, v in await part.form()).encode() + b"&"
            out["res"] = "ok"
        except io19.SizeErr:
            out["res"] = "E_SIZE"
        except io19.StepLimit:
            out["res"] = "LOOP"
        except Exception as e:
            out["res"] = f"E_OTHER({type(e).__name__})"

    loop.run_until_complete(io19.lazily_fed(sr, segs, 0, False, main()))
    ctx.hit(f"bomb:{api}:{enc}:{out['res']}")
    info = f"{enc} part, {len(wire)} bytes on the wire, {n} decoded (ratio {ratio:.0f}), client_max_size={limit}, api={api}"
    if n > limit:
        if out["res"] != "E_SIZE":
            ctx.violation(f"C19/limits/decoded-size/not-enforced/{api}", case, f"{info}: ended with {out['res']}")
        elif out["inflated"] > limit + slack:
            ctx.violation("C19/limits/decoded-size/enforced-only-after-inflating", case,
                          f"{info}: {out['inflated']} bytes had been inflated when the size error was raised; "
                          f"allowed limit + one decode chunk = {limit + slack}")
    else:
        exp = content if api != "form" else content
        if out["res"] != "ok":
            ctx.violation(f"C19/limits/decoded-size/false-positive/{api}", case, f"{info}: ended with {out['res']}")
        elif out["value"] != content:
            # read/text: the bytes; json: the re-serialised list; form: the re-joined pairs ("a=1&" units) - all equal the content
            ctx.violation(f"C19/roundtrip/content-differs/decode=True/{api}/{enc}", case,
                          f"{info}: the value {api}() returns ({len(out['value'])} bytes re-serialised) differs from what was written")
    if out["peak_piece"] > slack:
        ctx.violation("C19/limits/decoded-size/decode-chunk-exceeds-max_decompress_size", case,
                      f"{info}: decode_iter yielded a piece of {out['peak_piece']} bytes (> {slack})")


def check_bombs(ctx, loop):
    rng = ctx.rng
    k = 0
    for api in ("read", "text", "json", "form"):
        for enc in ("gzip", "deflate"):
            for ratio_class in (("1000", "100") if ctx.quick else ("1000", "300", "100")):
                for limit in ((2 ** 19,) if ctx.quick else (2 ** 20, 2 ** 16 * 5)):
                    k += 1
                    # far over the limit (a late check would inflate all of it), and one control just under the limit
                    n_over = limit + (5 if ctx.quick else rng.choice([6, 8, 12, 40])) * DECODE_SLACK + rng.randrange(1000)
                    for n in (n_over, limit - rng.randrange(1, 5000)):
                        case = {"kind": "bomb", "api": api, "enc": enc, "ratio_class": ratio_class, "limit": limit, "n": n,
                                "seg": rng.choice([4096, 8192, 100000]), "seed": rng.randrange(2 ** 32)}
                        one_bomb(ctx, loop, case)
                        ctx.case(("bomb", api, enc, ratio_class, limit, n, case["seg"]),
                                 sample={"bomb": [api, enc, ratio_class, limit, n]} if k % 7 == 0 else None)


# ------------------------------------------------------------------------------ header-value letter case x per-chunk decode paths
TE_VARIANTS = {"base64": ["base64", "Base64", "BASE64", "bAsE64"],
               "quoted-printable": ["quoted-printable", "Quoted-Printable", "QUOTED-PRINTABLE"],
               "binary": ["binary", "BINARY", "Binary"]}


def one_tecase(ctx, loop, case):
    """one part whose Content-Transfer-Encoding value is written in some letter case, consumed chunk by chunk with every
    chunk decoded on its own: (manual) read_chunk(size) + part.decode(chunk); (payload) BodyPartReaderPayload.write, which is
    what a proxy re-sending the part uses.  The decoded bytes must be the content written, for every case variant, chunk
    size and segmentation.  (7bit/8bit are refused by the writer; form-data/post() cannot carry the header: writer asserts.)"""
    from aiohttp import MultipartWriter, payload
    from aiohttp.multipart import MultipartReader, BodyPartReaderPayload
    kind, te, path = case["te_kind"], case["te"], case["path"]
    content = bytes.fromhex(case["content"])
    mw = MultipartWriter("mixed", boundary=case["boundary"])
    mw.append_payload(payload.BytesPayload(content, headers=CIMultiDict({"Content-Transfer-Encoding": te})))
    mw.append_payload(payload.BytesPayload(b"tail"))
    wire = write_all(loop, mw)
    seg = case["seg"]
    segs = [wire[i:i + seg] for i in range(0, len(wire), seg)] if seg else [wire]
    sr = io19.make_stream(loop, 2 ** 16, 16 * len(wire) + 4096)
    rd = MultipartReader({"Content-Type": f'multipart/mixed; boundary="{case["boundary"]}"'}, sr)
    out = {"chunks": []}

    async def main():
        part = await rd.next()
        orig = part.read_chunk

        async def rec(size=8192):
            c = await orig(size); out["chunks"].append(bytes(c)); return c
        part.read_chunk = rec
        try:
            if path == "manual":
                dec, i, sizes = bytearray(), 0, case["sizes"]
                raw = bytearray()
                while not part.at_eof():
                    c = await part.read_chunk(sizes[i % len(sizes)]); i += 1
                    raw += c
                    if kind != "quoted-printable":
                        dec += part.decode(c)
                if kind == "quoted-printable":      # soft line breaks / escapes may straddle chunks: decode the joined text
                    dec = part.decode(bytes(raw))
                out["dec"] = bytes(dec)
            else:
                sink = Sink()
                await BodyPartReaderPayload(part).write(sink)
                out["dec"] = bytes(sink.buf)
            nxt = await rd.next()
            out["tail"] = bytes(await nxt.read()) if nxt is not None else None
            out["res"] = "ok"
        except io19.StepLimit:
            out["res"] = "LOOP"
        except Exception as e:
            out["res"] = f"{type(e).__name__}: {str(e)[:100]}"

    loop.run_until_complete(io19.lazily_fed(sr, segs, 0, False, main()))
    ctx.hit(f"te:{kind}:{path}:{out['res'].split(':')[0]}")
    info = f"Content-Transfer-Encoding: {te}, {len(content)} bytes, segments of {seg or 'all'}, path={path}, sizes={case.get('sizes')}"
    bad = None
    if out["res"] != "ok":
        bad = f"ended with {out['res']}"
    elif out["dec"] != content:
        a, b = out["dec"], content
        k = next((j for j in range(min(len(a), len(b))) if a[j] != b[j]), min(len(a), len(b)))
        bad = f"wrote {len(b)} bytes, decoded {len(a)}; first difference at {k}"
    elif out.get("tail") != b"tail":
        bad = f"the following part reads as {out.get('tail')!r}"
    if bad is None:
        return
    if kind == "base64":
        un = b64_unaligned(out["chunks"], complete=out["res"] == "ok")
        if un is not None and un[1] < 4:
            ctx.violation("C19/b64/chunk-not-quartet-aligned", case, f"{info}: {bad} (chunk {un[0]} holds only {un[1]} base64 characters)")
        else:
            ctx.violation(f"C19/roundtrip/te-letter-case/base64/{path}", case,
                          f"{info}: {bad}" + (f"; chunk {un[0]} holds {un[1]} base64 characters, not whole quartets" if un else ""))
    elif (kind == "quoted-printable" and path == "payload" and out["res"] == "ok" and out.get("tail") == b"tail"
          and binascii.a2b_qp(b"".join(out["chunks"])) == content
          and b"".join(binascii.a2b_qp(c) for c in out["chunks"]) == out["dec"]):
        # (narrow: every raw chunk was delivered, and what came out is exactly the chunk-by-chunk decoding of them)
        ctx.violation("C19/roundtrip/qp-decoded-per-chunk", case, f"{info}: {bad}")
    else:
        ctx.violation(f"C19/roundtrip/te-letter-case/{kind}/{path}", case, f"{info}: {bad}")


def check_tecases(ctx, loop):
    rng = ctx.rng
    n = 0
    reps = 1 if ctx.quick else 12
    for _ in range(reps):
        for kind, variants in TE_VARIANTS.items():
            for te in variants:
                for path in ("manual", "payload"):
                    for seg in (0, 1, 2, 3, 5, 7, 64, 1000):
                        boundary = rng.choice(["b", "bnd", "x" * 10])
                        bl = len(boundary) + 4
                        size = rng.choice([1, 2, 3, 4, 5, 7, 9, 10, 11, 13, 57, 100, 1000, 9000 if not ctx.quick else 300])
                        if seg in (1, 2, 3) and size > 400:
                            size = 100
                        content = bytes(rng.randrange(256) for _ in range(size))
                        if kind == "quoted-printable":
                            content = qp_text(rng, gen_content(rng, boundary, size, ascii_only=True))
                        if (b"\r\n--" + boundary.encode()) in b"\r\n" + encoded_body(content, None, kind):
                            continue
                        sizes = [bl + rng.choice([0, 1, 2, 3, 5, 7, 9, 11, 60, 8192 - bl]) for _ in range(rng.randint(1, 3))]
                        case = {"kind": "tecase", "te_kind": kind, "te": te, "path": path, "seg": seg, "boundary": boundary,
                                "content": content.hex(), "sizes": sizes}
                        one_tecase(ctx, loop, case)
                        n += 1
                        ctx.case(("tecase", te, path, seg, boundary, case["content"], sizes),
                                 sample={"tecase": [te, path, seg, sizes, len(content)]} if n % 61 == 0 else None)


# ------------------------------------------------------------------------------ limits do not depend on nesting depth
def one_nestlim(ctx, loop, case, lines):
    """the same part (same header block) read at top level, nested once and nested twice, with configured
    max_field_size / max_headers: the accept/reject verdict must be the same at every depth, a header block within the
    configured limits must read back (also when the limit is raised above the default), one beyond them must be refused"""
    from aiohttp import MultipartWriter, payload
    which, L, m = case["which"], case["limit_value"], case["m"]
    hdrs = [("X-Long", "a" * m)] if which == "field" else [(f"X-H{i}", "v") for i in range(m)]
    content = b"payload-bytes"
    kw = dict(script=[("R",)], descend=True, max_field=L if which == "field" else 8190,
              max_headers=L if which == "headers" else 128, limit=2 ** 16)
    seg = case["seg"]
    verdicts = []
    for depth in (0, 1, 2):
        mw = MultipartWriter("mixed", boundary="d0")
        cur = mw
        for d in range(depth):
            inner = MultipartWriter("mixed", boundary=f"d{d + 1}")
            cur.append_payload(inner)
            cur = inner
        cur.append_payload(payload.BytesPayload(content, headers=CIMultiDict(hdrs)))
        wire = write_all(loop, mw)
        segs = [wire[i:i + seg] for i in range(0, len(wire), seg)]
        ev, parts, steps, err, rd = run_reader(loop, segs, "d0", "mixed", **kw)
        got = None
        node = parts
        for d in range(depth):
            node = node[0][2] if node and node[0][0] == "N" and node[0][2] is not None else []
        if err is None and node and node[0][0] == "B":
            got = node[0][3][0]
        verdicts.append("ok" if err is None and got == content else (err or "content-lost").split("@")[0])
        lines.append((rd_line(segs, "d0", "mixed", **kw), ev, case, f"nested limits (depth {depth}) vs Aio.C19.drive"))
    ctx.hit(f"nestlim:{which}:{case['mode']}:{'/'.join(verdicts)}")
    # what the configured limit says about this header block (line = name + ': ' + value + CRLF; count = part headers incl.
    # the Content-Type and Content-Length the writer adds)
    if which == "field":
        within = len("X-Long: ") + m + 2 <= L
    else:
        within = m + 2 <= L
    info = f"{which} limit {L} ({case['mode']}), header block of {m} ({'within' if within else 'beyond'} the limit): verdicts at depth 0/1/2 = {verdicts}"
    if len(set(verdicts)) != 1:
        ctx.violation(f"C19/limits/nested/{which}-{case['mode']}-verdict-depends-on-depth", case, info)
    elif within and verdicts[0] != "ok":
        ctx.violation(f"C19/limits/nested/{which}-{case['mode']}-valid-part-refused", case, info)
    elif not within and verdicts[0] == "ok":
        ctx.violation(f"C19/limits/{which}/not-enforced", case, info)


def check_nestlims(ctx, loop):
    rng = ctx.rng
    lines = []
    for rep in range(1 if ctx.quick else 10):
        for which in ("field", "headers"):
            for mode in ("tightened", "raised"):
                if which == "field":
                    L = rng.choice([60, 100, 1000]) if mode == "tightened" else rng.choice([12000, 20000, 50000])
                    lo, hi = (L, 8190) if mode == "tightened" else (8190, L)
                else:
                    L = rng.choice([3, 4, 10]) if mode == "tightened" else rng.choice([200, 300])
                    lo, hi = (L, 128) if mode == "tightened" else (128, L)
                # between the configured limit and the default (where a default-limited nested reader errs), and both sides
                ms = [rng.randint(lo + 1, hi - 12), max(1, min(lo, hi) // 2), hi + rng.randint(10, 200) if which == "field" else hi + 5,
                      (lo + hi) // 2]
                for m in ms:
                    if which == "headers":
                        m = max(1, m)
                    case = {"kind": "nestlim", "which": which, "mode": mode, "limit_value": L, "m": m, "seg": rng.choice([64, 1000, 100000])}
                    one_nestlim(ctx, loop, case, lines)
                    ctx.case(("nestlim", which, mode, L, m, case["seg"]))
    flush_compare(ctx, lines)


# ------------------------------------------------------------------------------ writer histories: size is a function of the current parts
def _hist_writer_at(root, path):
    w = root
    for i in path:
        w = w._parts[i][0]
    return w


def _wz_line(w, loop):
    """model line for the writer as it is *now*: size and bytes written are pure functions of the current parts (their
    current header blocks); a nested writer enters as a plain part whose content is what it writes now.  None when the
    model has no say (a nested writer without a size)."""
    from aiohttp import MultipartWriter
    toks = ["wz", hx(w._boundary), "1" if w._is_form_data else "0"]
    for part, enc, te in w._parts:
        h = "&".join(f"{hx(k.encode())}={hx(v.encode())}" for k, v in part.headers.items()) or "~"
        if isinstance(part, MultipartWriter):
            if part.size is None or enc or te:
                return None
            toks.append("|".join([h, hx(write_all(loop, part)), "0", "n", "-", "-", "~"]))
        else:
            content = getattr(part, "_c19_expected", None)
            if content is None:
                content = bytes(part._value)
            cz1, czf, qps = compress_pieces(content, enc or None, te or None)
            toks.append("|".join([h, hx(content), "1" if enc else "0", {"base64": "b", "quoted-printable": "q"}.get(te, "n"),
                                  hx(cz1), hx(czf), show_list(qps)]))
    return " ".join(toks)


IO_SOURCES = ("bytesio", "file", "filerb", "textfile", "stringio")


def _io_source(src, prefix, content, opened):
    """a file-like object holding prefix + content, positioned just after the prefix (as after a caller consumed a header)"""
    import tempfile
    if src == "bytesio":
        f = io.BytesIO(prefix + content); f.seek(len(prefix)); return f
    if src == "stringio":
        f = io.StringIO((prefix + content).decode("ascii")); f.read(len(prefix)); return f
    if src == "file":
        f = tempfile.TemporaryFile("w+b"); f.write(prefix + content); f.flush(); f.seek(len(prefix)); opened.append(f); return f
    t = tempfile.NamedTemporaryFile("wb", delete=False, prefix="c19-", suffix=".bin")
    t.write(prefix + content); t.close()
    if src == "filerb":
        f = open(t.name, "rb"); f.seek(len(prefix))
    else:
        f = open(t.name, "r", encoding="utf-8", newline=""); f.read(len(prefix))
    os.unlink(t.name)
    opened.append(f)
    return f


def _hist_expected(w):
    from aiohttp import MultipartWriter
    return [_hist_expected(p) if isinstance(p, MultipartWriter) else p._c19_expected for p, _, _ in w._parts]


def _hist_readback(loop, w, wire):
    """parts (nested lists of decoded contents) the real reader yields for the bytes the writer just produced"""
    from aiohttp.multipart import MultipartReader
    sr = io19.make_stream(loop, 2 ** 16, 16 * len(wire) + 4096)
    sr.feed_data(wire); sr.feed_eof()

    async def walk(rd):
        out = []
        while True:
            part = await rd.next()
            if part is None:
                return out
            if isinstance(part, MultipartReader):
                out.append(await walk(part))
            else:
                out.append(bytes(await part.read(decode=True)))

    async def main():
        return await walk(MultipartReader({"Content-Type": w.headers["Content-Type"]}, sr))
    try:
        return loop.run_until_complete(main())
    except Exception as e:
        return f"{type(e).__name__}: {str(e)[:80]}"


def _has_empty_nested_tree(t):
    return any(isinstance(x, list) and (not x or _has_empty_nested_tree(x)) for x in t)


def one_history(ctx, loop, case, lines):
    opened = []
    try:
        return _one_history(ctx, loop, case, lines, opened)
    finally:
        for f in opened:
            try: f.close()
            except Exception: pass


def _one_history(ctx, loop, case, lines, opened):
    """a writer is built step by step; sizes are queried in between and parts already appended (and nested writers already
    appended) keep changing.  At every query the declared size must be the number of bytes write() produces *now*, a size
    must be declared iff no part is encoded, and model and implementation must agree on size and bytes."""
    from aiohttp import MultipartWriter, payload
    root = MultipartWriter(case["subtype"], boundary=case["boundary"])
    last = {}                               # id(writer) -> kind of the last change below it since its last size query
    def touch(path, kind):
        for k in range(len(path) + 1):
            w = _hist_writer_at(root, path[:k])
            last[id(w)] = kind if k == len(path) else "nested-" + kind.replace("nested-", "")
    nq = 0
    for op in case["ops"]:
        w = _hist_writer_at(root, op[1])
        if op[0] == "A":
            hdrs = CIMultiDict([tuple(h) for h in op[3]])
            if op[4]: hdrs["Content-Encoding"] = op[4]
            if op[5]: hdrs["Content-Transfer-Encoding"] = op[5]
            src = op[7] if len(op) > 7 else "bytes"
            if src == "bytes":
                p = payload.BytesPayload(bytes.fromhex(op[2]), headers=hdrs, content_type=op[6])
                if w._is_form_data:
                    p.set_content_disposition("form-data", name=f"f{len(w._parts)}")
                w.append_payload(p)
            else:
                # a file-like value positioned past a prefix, through the payload registry (what FormData.add_field uses too)
                if w._is_form_data:
                    hdrs["Content-Disposition"] = f'form-data; name="f{len(w._parts)}"'
                p = w.append(_io_source(src, bytes.fromhex(op[8]), bytes.fromhex(op[2]), opened), hdrs)
            p._c19_expected = bytes.fromhex(op[2])
            p._c19_src = src
            ctx.hit("hist:src:" + src)
            touch(op[1], "append")
        elif op[0] == "N":
            w.append_payload(MultipartWriter(op[3], boundary=op[2]))
            touch(op[1], "append")
        elif op[0] == "H":
            part = w._parts[op[2]][0]
            if op[3] == "set":
                part.headers[op[4]] = op[5]
            elif op[3] == "del":
                part.headers.popall(op[4], None)
            else:
                part.set_content_disposition(op[4], **op[5])
            touch(op[1], "header")
        elif op[0] == "Q":
            nq += 1
            order = op[2] if len(op) > 2 else "size-first"
            try:
                if order == "size-first":
                    declared = w.size
                    wire = write_all(loop, w)
                else:                       # the body is sent before anyone asked for its size
                    wire = write_all(loop, w)
                    declared = w.size
            except (AssertionError, ValueError) as e:
                ctx.hit("hist:writer-refuses"); return
            kind = last.pop(id(w), "none")
            ctx.hit(f"hist:query-after-{kind}:{'sized' if declared is not None else 'unsized'}")
            plain = all(not e and not t for _, e, t in w._parts) and all(p.size is not None for p, _, _ in w._parts)
            if declared is not None and declared != len(wire):
                ctx.violation(f"C19/size/declared-differs-from-written/after-{kind}", case,
                              f"query {nq} (writer at {op[1]}, last change: {kind}): size={declared} but write() produces {len(wire)} bytes")
            elif declared is None and plain:
                ctx.violation("C19/size/undeclared-for-plain-parts", case, f"query {nq}: size is None although no part is encoded")
            elif declared is not None and not plain:
                ctx.violation("C19/size/declared-for-encoded-parts", case, f"query {nq}: size={declared} although a part is encoded")
            # what was written must read back as what was added - on the first write and on every later one
            exp = _hist_expected(w)
            got = _hist_readback(loop, w, wire)
            if got != exp:
                srcs = sorted({getattr(p, "_c19_src", "nested") for p, _, _ in w._parts})
                if _has_empty_nested_tree(exp) and isinstance(got, str) and got.startswith("ValueError: Invalid boundary b''"):
                    ctx.violation("C19/roundtrip/empty-nested-multipart", case, f"query {nq}: a body with an empty nested multipart reads back as {str(got)[:80]}")
                elif isinstance(got, str):
                    ctx.violation("C19/roundtrip/history/reader-error", case,
                                  f"query {nq} (write #{nq} of this history, part sources {srcs}): the bytes written do not parse: {got}")
                else:
                    flat = lambda t: [y for x in t for y in (flat(x) if isinstance(x, list) else [x])]
                    fe, fg = flat(exp), flat(got)
                    i = next((j for j in range(min(len(fe), len(fg))) if fe[j] != fg[j]), min(len(fe), len(fg)))
                    ctx.violation("C19/roundtrip/history/content-differs", case,
                                  f"query {nq} (part sources {srcs}): {len(fe)} parts added, {len(fg)} read; part {i} added as "
                                  f"{fe[i][:24] if i < len(fe) else None!r}… reads back as {fg[i][:24] if i < len(fg) else None!r}…")
            line = _wz_line(w, loop)
            if line is not None:
                lines.append((line, f"ok {hx(wire)} size={'none' if declared is None else declared}", case,
                              f"MultipartWriter after a history (last change: {kind}) vs Aio.C19.writeParts/sizeOf"))
    return root


def gen_history(rng):
    boundary = gen_boundary(rng)
    subtype = rng.choice(["mixed", "mixed", "related", "form-data"])
    ops = []
    tree = {(): []}                         # path -> list of "B" / "N"
    def writers():
        return list(tree.keys())
    for _ in range(rng.randint(3, 12)):
        path = rng.choice(writers())
        kids = tree[path]
        r = rng.random()
        form = subtype == "form-data" and path == ()
        if r < 0.35 or not kids:
            if not form and len(path) < 2 and rng.random() < 0.3:
                ib = gen_boundary(rng)[:60] + "n"
                ops.append(["N", list(path), ib, rng.choice(["mixed", "related"])])
                tree[path + (len(kids),)] = []
                kids.append("N")
            else:
                enc = te = None
                if not form and rng.random() < 0.2:
                    enc, te = rng.choice([("gzip", None), (None, "base64"), ("deflate", "base64"), (None, "quoted-printable")])
                n = rng.choice([0, 1, 5, 100, 300])
                for _try in range(12):
                    content = gen_content(rng, boundary, n, ascii_only=(te == "quoted-printable"))
                    if te == "quoted-printable":
                        content = qp_text(rng, content)
                    # precondition of reading back: no delimiter of this writer or of an enclosing one in the encoded body
                    if b"\r\n--" not in b"\r\n" + encoded_body(content, enc, te) and b"\n--" not in b"\n" + encoded_body(content, enc, te):
                        break
                else:
                    content = b"x" * n
                hd = [["X-Note", rng.choice(["v", "a b", "x" * 40])]] if rng.random() < 0.3 else []
                op = ["A", list(path), content.hex(), hd, enc, te, rng.choice(["application/octet-stream", "text/plain"])]
                if rng.random() < 0.45:
                    src = rng.choice(IO_SOURCES)
                    if not enc and not te and rng.random() < 0.3:
                        content = gen_content(rng, boundary, rng.choice([8192, 12000, 70000]), ascii_only=src in ("textfile", "stringio"))
                    if src in ("textfile", "stringio"):
                        content = bytes(c if 32 <= c < 127 or c in (13, 10) else 46 for c in content)
                    if b"\n--" in b"\n" + content:
                        content = content.replace(b"--", b"-.")
                    if src == "textfile":
                        # (TextIOWrapper.tell() is an opaque cookie; with a CR pending in the newline decoder it is not a byte
                        #  offset and TextIOPayload.size goes wrong - a text-mode quirk outside this section: no bare CR at the end)
                        content = content.replace(b"\r", b"") or b"t"
                    prefix = rng.choice([b"", b"HDR\n", b"skip-this-header\r\n" * 3, bytes(range(48, 122)) * rng.randint(1, 40)])
                    op[2] = content.hex()
                    op += [src, prefix.hex()]
                ops.append(op)
                kids.append("B")
        else:
            idx = rng.randrange(len(kids))
            k = rng.random()
            if k < 0.4:
                params = {"name": rng.choice(["n", "field", "a b"])}
                if rng.random() < 0.6:
                    params["filename"] = rng.choice(["f.bin", "report-2024.bin", "x" * 30, "é.txt"])
                ops.append(["H", list(path), idx, "disp", "form-data" if form else rng.choice(["attachment", "inline"]), params])
            elif k < 0.8:
                ops.append(["H", list(path), idx, "set", rng.choice(["X-Custom", "X-Trace", "Content-Location"]),
                            rng.choice(["", "v", "w" * rng.randint(1, 200), "tab\there"])])
            elif k < 0.9 and kids[idx] == "B" and not form:
                ops.append(["H", list(path), idx, "set", "Content-Type", rng.choice(["text/html", "application/x-long-type-name"])])
            else:
                ops.append(["H", list(path), idx, "del", rng.choice(["X-Custom", "X-Note", "X-Trace"])])
        # query: the changed writer, an ancestor, or the root
        if rng.random() < 0.75:
            qp = list(path[:rng.randint(0, len(path))])
            ops.append(["Q", qp, rng.choice(["size-first", "size-first", "write-first"])])
    ops.append(["Q", []])
    return {"kind": "hist", "boundary": boundary, "subtype": subtype, "ops": ops}


def check_histories(ctx, loop):
    rng = ctx.rng
    lines = []
    # the two documented idioms first (fixed): header of an appended part changed after a size query; nested writer grown after the outer was sized
    fixed = [
        {"kind": "hist", "boundary": "B", "subtype": "mixed", "ops": [
            ["A", [], (b"x" * 100).hex(), [], None, None, "application/octet-stream"], ["Q", []],
            ["H", [], 0, "disp", "attachment", {"filename": "report-2024.bin"}], ["Q", []]]},
        {"kind": "hist", "boundary": "B", "subtype": "mixed", "ops": [
            ["N", [], "inner", "mixed"], ["A", [0], b"one".hex(), [], None, None, "text/plain"], ["Q", []],
            ["A", [0], b"two-more".hex(), [], None, None, "text/plain"], ["Q", []],
            ["H", [0], 0, "set", "X-Custom", "w" * 50], ["Q", []], ["Q", [0]]]},
        # file-like parts handed over while positioned past a header, written twice (retry / redirect)
        {"kind": "hist", "boundary": "B", "subtype": "mixed", "ops": [
            ["A", [], (b"payload-" * 40).hex(), [], None, None, "application/octet-stream", "filerb", bytes(range(100)).hex()],
            ["A", [], (b"second-" * 30).hex(), [], None, None, "application/octet-stream", "bytesio", (b"H" * 100).hex()],
            ["Q", [], "size-first"], ["Q", [], "write-first"], ["Q", [], "size-first"]]},
        {"kind": "hist", "boundary": "B", "subtype": "form-data", "ops": [
            ["A", [], (b"text line\r\n" * 20).hex(), [], None, None, "text/plain", "textfile", b"header line\n".hex()],
            ["A", [], (b"raw" * 50).hex(), [], None, None, "application/octet-stream", "file", (b"\x00" * 7).hex()],
            ["Q", [], "write-first"], ["Q", [], "size-first"]]},
    ]
    for i in range(len(fixed) + (150 if ctx.quick else 3000)):
        case = fixed[i] if i < len(fixed) else gen_history(rng)
        one_history(ctx, loop, case, lines)
        ctx.case(("hist", json.dumps(case, sort_keys=True)),
                 sample={"history": [o[0] + (":" + o[3] if o[0] == "H" else "") for o in case["ops"]]} if i % 53 == 0 else None)
    flush_compare(ctx, lines)


# ------------------------------------------------------------------------------ file-like payloads: size / write sequences
def one_iopayload(ctx, loop, case, lines):
    """a payload built (through the registry) from a BytesIO or a real file positioned at offset k; then any sequence of
    size queries and writes: every write must emit buf[k:], every size must be len(buf)-k (model: Aio.C19.IOPayload)"""
    from aiohttp import payload
    buf, k, ops, src = bytes.fromhex(case["buf"]), case["k"], case["ops"], case["src"]
    opened = []
    try:
        f = _io_source(src, buf[:k], buf[k:], opened)
        p = payload.get_payload(f)
        outs = []
        for op in ops:
            if op == "S":
                outs.append(f"s{p.size}")
            else:
                sink = Sink()
                loop.run_until_complete(p.write(sink))
                outs.append("w" + hx(sink.buf))
        impl = ",".join(outs)
    finally:
        for f in opened:
            f.close()
    exp = ",".join(f"s{len(buf) - k}" if op == "S" else "w" + hx(buf[k:]) for op in ops)
    ctx.hit(f"io:{src}")
    if impl != exp:
        i = next(j for j, (a, b) in enumerate(zip(impl.split(","), exp.split(","))) if a != b)
        ctx.violation(f"C19/roundtrip/file-like-part/{'size' if ops[i] == 'S' else 'write'}-differs", case,
                      f"{src} of {len(buf)} bytes handed over at offset {k}, operations {ops}: operation {i} gives "
                      f"{impl.split(',')[i][:60]} instead of {exp.split(',')[i][:60]}")
    lines.append((f"io {hx(buf)} {k} {'1' if src == 'bytesio' else '0'} {ops}", impl, case, "IOBasePayload/BytesIOPayload vs Aio.C19.IOPayload.run"))


def check_iopayloads(ctx, loop):
    rng = ctx.rng
    lines = []
    for i in range(60 if ctx.quick else 1200):
        n = rng.choice([0, 1, 10, 100, 300])
        buf = bytes(rng.randrange(256) for _ in range(n))
        case = {"kind": "iop", "buf": buf.hex(), "k": rng.choice([0, 0, 1, n // 2, max(0, n - 1), n]) if n else 0,
                "src": rng.choice(["bytesio", "file", "filerb"]), "ops": "".join(rng.choice("SWW") for _ in range(rng.randint(1, 5)))}
        one_iopayload(ctx, loop, case, lines)
        ctx.case(("iop", case["buf"], case["k"], case["src"], case["ops"]))
    flush_compare(ctx, lines)


# ------------------------------------------------------------------------------ work: reading is linear in the input
WORK_BUDGET_S = 4.0     # CPU seconds (process time) for 128-256 KiB through the reader; the unchanged tree needs < 0.3 s


def _work_run(loop, case, n):
    import time
    from aiohttp import MultipartWriter, payload
    seg, api = case["seg"], case["api"]
    unit = {"plain": b"x" * 63 + b"\n", "crlf": b"\r\n", "dashes": b"-" * 64, "nearly": b"\r\n--wor"}[case["shape"]]
    content = (unit * (n // len(unit) + 1))[:n]
    hdrs = {"Content-Transfer-Encoding": "base64"} if case["b64"] else {}
    mw = MultipartWriter("mixed", boundary="work")
    mw.append_payload(payload.BytesPayload(content, headers=CIMultiDict(hdrs)))
    if not case["b64"]:
        mw._parts[0][0].headers.popall("Content-Length", None)      # stream mode: the boundary search does the work
    wire = write_all(loop, mw)
    segs = [wire[i:i + seg] for i in range(0, len(wire), seg)]
    script = {"read": [("R",)], "chunk": [("C", [case["size"]])], "readline": [("L",)], "release": [("X",)]}[api]
    t0 = time.process_time()
    ev, parts, steps, err, rd = run_reader(loop, segs, "work", "mixed", script=script, bound=40 * len(wire) // min(seg, case["size"]) + 10 ** 5)
    return time.process_time() - t0, err


def one_work(ctx, loop, case):
    """"never loops" also means no super-linear work: a part of n and of 8n bytes delivered in small segments and read through each
    API; CPU time (process time, so a loaded box matters little) must grow about linearly - t(8n) <= 16 t(n) + 0.4 s - and stay
    under an absolute budget; the step bound on stream reads applies as everywhere"""
    n = case["n"]
    t1, err1 = _work_run(loop, case, n)
    t8, err8 = _work_run(loop, case, 8 * n)
    err = err1 or err8
    ctx.hit(f"work:{case['api']}:{case['shape']}:{'ok' if err is None else err}")
    ctx.extra["work_cpu_seconds_max"] = max(ctx.extra.get("work_cpu_seconds_max", 0.0), round(t8, 2))
    info = (f"{n} and {8 * n} bytes ({case['shape']}{', base64' if case['b64'] else ''}) in segments of {case['seg']}, {case['api']}"
            + (f"({case['size']})" if case["api"] == "chunk" else ""))
    if err == "LOOP":
        ctx.violation("C19/termination/step-bound-exceeded", case, f"{info}: more stream reads than the bound")
    elif err is not None and not (case["api"] == "readline" and case["shape"] == "nearly"):
        ctx.violation(f"C19/roundtrip/reader-error/{err}", case, f"{info}: ended with {err}")
    elif t8 > WORK_BUDGET_S or t8 > 16 * t1 + 0.4:
        ctx.violation("C19/work/reading-not-linear", case,
                      f"{info}: {t1:.2f} s and {t8:.2f} s of CPU (allowed: 16 x the first + 0.4 s, and {WORK_BUDGET_S} s in all)")


def check_work(ctx, loop):
    rng = ctx.rng
    cases = [("read", "plain", 64, False), ("chunk", "dashes", 64, False), ("chunk", "nearly", 1000, False), ("readline", "plain", 1000, False),
             ("release", "crlf", 64, False), ("chunk", "plain", 64, True), ("read", "nearly", 4096, False)]
    for api, shape, seg, b64 in cases:
        case = {"kind": "work", "api": api, "shape": shape, "seg": seg, "b64": b64, "n": 2 ** 16,
                "size": rng.choice([10, 64, 8192])}
        one_work(ctx, loop, case)
        ctx.case(("work", api, shape, seg, b64, case["size"]))


def check(ctx):
    import time
    loop = asyncio.new_event_loop()
    asyncio.set_event_loop(loop)
    try:
        for f in (check_probes, check_mechanisms, check_roundtrips, check_mutations, check_limits, check_bombs, check_tecases, check_nestlims, check_histories, check_iopayloads, check_work, check_posts):
            t = time.time()
            f(ctx, loop)
            ctx.extra.setdefault("section_seconds", {})[f.__name__] = round(time.time() - t, 1)
    finally:
        loop.close()


def replay(ctx, case):
    loop = asyncio.new_event_loop()
    asyncio.set_event_loop(loop)
    try:
        run_case(ctx, loop, case, [])
    finally:
        loop.close()
