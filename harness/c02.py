"""C02 — wire round trip: what one aiohttp endpoint sends, the other receives.

Implementation under test: a real ClientSession wired to a real AppRunner(app).server()
through two in-memory transports with a programmable segmenter per direction
(harness/common/c02pipe.py).  Model: lean/AioModel/C02.lean (decision layers of both ends) +
lean/AioModel/Http.lean (receive side) + lean/AioModel/C04.lean (writer);
theorems: lean/AioProps/C02.lean.
"""
import asyncio, io, json, logging, os, re, tempfile, traceback, urllib.parse, zlib
from .common import vloop
from .common.codec import hx, unhx
from .common.c02pipe import make_connector
from .common import c02flow

PROPERTY = "C02"
LEAN_MODULES = ["AioProps.C02", "AioProps.C02Chunked"]
THEOREMS = [
    "Aio.C02.onHeaderBlock_eq_cascade",
    "Aio.C02.resp_framing_agree",
    "Aio.C02.keepalive_agree_partial",
    "Aio.C02.req_framing_agree_partial",
    "Aio.C02.resp_invalid_raise",
    "Aio.C02.req_invalid_raise",
    "Aio.C02.req_keepalive_agree",
    "Aio.C02.keepalive_disagree_head_without_framing_headers",
    "Aio.C02.keepalive_disagree_http10_close_delimited",
    "Aio.C02.resp_framing_disagree_compress_on_bodiless",
    "Aio.C02.req_framing_disagree_chunked_false",
    "Aio.C02.req_framing_disagree_chunked_true_without_body",
    "Aio.C02.length_body_segments",
    "Aio.C02.untilClose_body_segments",
    "Aio.C02.response_roundtrip_length",
    "Aio.C02.response_roundtrip_chunked_partial",
    "Aio.Http.chunkSizeOf_toHex",
    "Aio.Http.chunkedLoop_lastChunk",
    "Aio.Http.chunkedLoop_frame",
    "Aio.Http.payloadFeed_encodeChunks",
    "Aio.C02.response_roundtrip_chunked",
    "Aio.C02.failed_source_no_terminator",
    "Aio.C02.eof_inside_body",
]
RULE = ("(content-coded chunked bodies {raw deflate, zlib, gzip} x both directions x segmentations {whole, cut behind every "
        "chunk-size line, at every chunk edge, k bytes, random, cuts near the start of the body}; Expect: 100-continue x body source "
        "{async generator (unknown size), bytes, BytesIO} x expect handler answer {100, 401, 403, 417, raised 417} x gap x connector "
        "limit, followed by a second request; keep-alive conversations of 45+ exchanges on one connection with request bodies that span "
        "segments / use expect100 / are streamed with gaps.) (early responses: handler returns 401/403/413 without reading the body or after reading a prefix, uploads of 3 KB-300 KB "
        "in many segments, Content-Length and chunked, bytes and async-generator sources, lingering_time default and 0, followed by a "
        "non-idempotent request on the same session; size-limit lines cut between CR and LF.) (flow scenarios, run first: small read buffers on the receiving side x chunked/Content-Length bodies above the high-water "
        "mark x segmentations cutting chunks mid-data (targeted: pause in the middle of a chunk, rest of the message in one read; random "
        "k-byte / cut / random segments) x incremental consumers with sleeps, both directions; sock_read timer with a consumer away "
        "longer than the timeout while aiohttp paused the transport; uploads whose async-generator / file-like source raises part-way, "
        "chunked and Content-Length.) one case = one HTTP exchange through the public APIs followed by a probe request on the same session. "
        "Grammar: session version {1.1,1.0} x connector force_close x method {GET,HEAD,POST,PUT,PATCH,DELETE,OPTIONS} x URL shape "
        "(plain, nested, query, percent-encoded, fragment) x header sets (0-3 X- headers incl. repeated names, obs-text, cookies) x "
        "request body kind {none,bytes,bytearray,str,urlencoded FormData,multipart FormData,async generator,BytesIO,JSON} x size in "
        "{0,1,2,15,100,2047,2048,2049,65535,65536,65537} x chunked {None,True,False} x compress {off,True,deflate,gzip} x expect100 x "
        "user Content-Length/Transfer-Encoding/Content-Encoding/Connection/Expect headers; response kind {Response(None/bytes/text), "
        "json_response, Response(payload sized BytesIO / unsized async generator), StreamResponse, FileResponse} x status "
        "{200,201,204,304,400,404,500} x reason x headers x size x enable_chunked_encoding x enable_compression(None/deflate/gzip/"
        "identity) x user Content-Length x force_close; x segmentation of each direction {whole, k bytes (1,2,3,7,64,1000), random, "
        "single cut at every offset for small messages in thorough}. Each exchange is (a) judged by the direct oracle on the real "
        "objects alone and (b) compared field by field with the Lean model's decision (headers added, writer length/chunked/"
        "compress, keep-alive, wire framing, receiver's framing view and close decision) and with the shared parser model run on "
        "the recorded wire bytes. non-trivial = the exchange put a request on the wire or was refused by the API; distinct by case.")
TRUSTED_BASE = [
    "every exchange runs under a wall-clock budget (C02_CASE_BUDGET_S, default 90 s; virtual time makes the code's own timeouts "
    "instantaneous) and inside an exception guard: an exchange that keeps running, or whose execution/judging raises, is reported as "
    "a violation with its case (exchange-never-completes / *-stalls / exchange-broke-the-observer), never as a crash of the check",
    "flow control, the sock_read timer and failing upload sources (harness/common/c02flow.py) are ORACLE-ONLY scenarios on the real "
    "objects: the StreamReader high/low-water marks, transport pause/resume, HttpPayloadParser's pause/pending-input states and "
    "ResponseHandler's read timer are not in the Lean model (the body parser's pause states belong to C09); only the ending of "
    "ClientRequest._write_bytes (source failed => no write_eof) is modelled as a decision table and compared",
    "the pipe transport honours pause_reading/resume_reading on the reading side; the writing side is always writable (write-side "
    "back-pressure, drain()) is not exercised",
    "two behaviour flags of the model are probed from the source on every run and written to Generated/C02.lean "
    "(writerChunksWhenNotNone: ClientRequest(chunked=False)._create_writer().chunked; closeDelimitedClearsKeepAlive: resp.keep_alive "
    "after StreamResponse.prepare() for an HTTP/1.0 keep-alive request): the theorems are proved for every value of both flags",
    "header transport itself (serialise on one side, parse on the other) is abstracted in the model as the record RecvHdr "
    "(Content-Length value, chunked flag, Connection token): C04 serialize_lines + the shared parser model, run here on the recorded "
    "wire of sampled exchanges, cover it — there is no C02 theorem that parse(serialise(headers)) = headers",
    "response_roundtrip_chunked composes the writer model with the receiver's own chunked parser model (Aio.Http.payloadFeed, strict "
    "and lax) for delivery in ONE feed_data call; other segmentations of a chunked body follow from C03 feed_two_reads under its "
    "stated side condition, and from the correspondence runs",
    "in-memory transport pair + segmenter (harness/common/c02pipe.py) stands in for the socket; flow control is always 'writable'",
    "virtual-time event loop (harness/common/vloop.py); executors run inline",
    "zlib not modelled: compressed length is an oracle column; compressed bodies are judged after real decompression",
    "yarl URL -> raw_path_qs, CIMultiDict ordering/lookup, http.cookies serialisation, multipart/urlencoded encoders are not modelled "
    "(their output is taken as 'what was sent')",
]
ASSUMPTIONS = [
    "trunc scenarios: the sender vanishes (handler raises between writes, or a clean FIN injected after N bytes at every chunk edge "
    "and inside chunks / size lines / trailer section); with chunked or Content-Length framing a receiver whose read completes must "
    "have the whole body; a close-delimited (HTTP/1.0) body may only ever be a prefix",
    "Expect: 100-continue is recognised in any capitalisation by both ends (RFC 9110 10.1.1); user-supplied Expect headers of that "
    "value are admissible",
    "codec scenarios: 'deflate' bodies are sent both zlib-wrapped (RFC 1950) and bare (RFC 1951, which aiohttp's receiver accepts by "
    "sniffing the first byte), gzip via gzip.compress; the outcome for the same wire bytes must not depend on the segmentation",
    "expect scenarios: a route-level expect handler may answer with a final response instead of 100 Continue; the request after it "
    "on the same session must be answered correctly whatever the client decides about the connection",
    "convo scenarios: 45 (thorough: up to 100) sequential exchanges through a limit=1 connector must all complete on one connection",
    "early-response scenarios (handler answers without reading the whole body while the upload is in flight): the client always "
    "finishes sending within lingering_time (virtual time); a response that announces keep-alive (HTTP/1.1, no Connection: close) "
    "which the client accepts must leave the connection usable for the next request; with the non-default lingering_time=0 the "
    "unchanged server closes such a connection after having announced keep-alive (known finding C02-F27a/b)",
    "crlfcut scenarios: a start/field line of exactly the size limit (8190 and a configured 200) cut between its CR and LF must be "
    "accepted exactly like the unsegmented message, both directions",
    "body-never-completes signatures carry where the stream stood at the reader's last pause request (pause-mid-chunk / "
    "pause-at-chunk-boundary): the boundary variant is a known finding of the unchanged tree (C02-F26a/b), the mid-chunk variant is not",
    "flow scenarios: read_bufsize in {256,1024,4096} on the receiving side, bodies 1.5x-12x the high-water mark, consumers reading "
    "incrementally with virtual-time sleeps; timer scenarios count an exchange as healthy when the server had written every byte "
    "before the timeout fired; a failed upload is one whose body source raised before yielding everything",
    "the direct oracle judges only API-admissible exchanges; inadmissible ones (user-supplied framing headers, invalid compress, "
    "untruthful Content-Length) are generated with low probability and only compared with the model",
    "CONNECT and protocol upgrades (101) are outside the generated grammar and excluded by hypothesis in the theorems",
    "API-admissible = the application does not lie about framing: a user Content-Length equals the bytes supplied; no user "
    "Transfer-Encoding on a request whose body aiohttp frames; handlers do not write a body to a response that must be empty",
    "Expect: 100-continue is only generated with HTTP/1.1 (the default expect handler answers only 1.1)",
    "the handler reads the whole request body before answering",
]

SIZES = [0, 1, 2, 15, 100, 2047, 2048, 2049, 65535, 65536, 65537]
SMALL = [0, 1, 2, 15, 100]


def _probe_flags():
    """behaviour probes of the two places where the code was found to deviate (they may be repaired)"""
    import asyncio
    from multidict import CIMultiDict
    from http.cookies import BaseCookie
    from yarl import URL
    import aiohttp
    from aiohttp import web
    from aiohttp.base_protocol import BaseProtocol
    from aiohttp.client_reqrep import ClientRequest, ClientResponse
    from aiohttp.http import HttpVersion10, HttpVersion11
    from aiohttp.test_utils import make_mocked_request
    from aiohttp.helpers import TimerNoop
    out = {}

    async def main():
        loop = asyncio.get_running_loop()
        req = ClientRequest("POST", URL("http://h/"), params={}, headers=CIMultiDict(), skip_auto_headers=None, data=b"abc",
                            cookies=BaseCookie(), version=HttpVersion11, compress=False, chunked=False, expect100=False, loop=loop,
                            response_class=ClientResponse, proxy=None, response_params={}, timer=TimerNoop(),
                            timeout=aiohttp.ClientTimeout(), session=None, ssl=True, proxy_headers=None, traces=[],
                            trust_env=False, server_hostname=None)
        out["writer"] = bool(req._create_writer(BaseProtocol(loop)).chunked)
        r = make_mocked_request("GET", "/", version=HttpVersion10, headers={"Connection": "keep-alive"})
        r._message = r._message._replace(should_close=False)   # the helper forces close for HTTP/1.0
        assert r.keep_alive is True
        resp = web.StreamResponse()
        await resp.prepare(r)
        out["ka"] = resp.keep_alive is False
    loop = asyncio.new_event_loop()
    try:
        loop.run_until_complete(main())
    finally:
        loop.close()
    return out


def generate(repo):
    import aiohttp.web_response as wr
    import aiohttp.client_reqrep as cr
    fl = _probe_flags()
    lb = lambda b: "true" if b else "false"

    def names(xs):
        return "[" + ", ".join("[" + ", ".join(str(b) for b in x.encode()) + "]" for x in xs) + "]"
    return {"AioModel/Generated/C02.lean":
            "-- GENERATED by harness/c02.py from /repo/aiohttp/web_response.py, client_reqrep.py — do not edit\n"
            "namespace Aio.Gen.C02\n"
            "/-- keys of web_response.CONTENT_CODINGS in dictionary order -/\n"
            f"def contentCodings : List (List Nat) := {names(list(wr.CONTENT_CODINGS))}\n"
            "/-- ClientRequest.GET_METHODS (sorted) -/\n"
            f"def getMethods : List (List Nat) := {names(sorted(cr.ClientRequest.GET_METHODS))}\n"
            "/-- ClientRequestBase.POST_METHODS (sorted) -/\n"
            f"def postMethods : List (List Nat) := {names(sorted(cr.ClientRequestBase.POST_METHODS))}\n"
            "/-- probe: ClientRequest(chunked=False)._create_writer() enables chunking (`if self.chunked is not None`) -/\n"
            f"def writerChunksWhenNotNone : Bool := {lb(fl['writer'])}\n"
            "/-- probe: StreamResponse.prepare() for an HTTP/1.0 keep-alive request without Content-Length leaves\n"
            "resp.keep_alive False (i.e. the close-delimited branch clears `self._keep_alive`, not only the local) -/\n"
            f"def closeDelimitedClearsKeepAlive : Bool := {lb(fl['ka'])}\n"
            "end Aio.Gen.C02\n"}


# ------------------------------------------------------------------------------ data
def blob(n, tag):
    """deterministic body: contains CRLF, hex-looking and chunk-terminator-looking bytes"""
    if n == 0:
        return b""
    base = (b"%d\r\n0\r\n\r\nHTTP/1.1 200 OK\r\n" % tag) * (n // 20 + 1)
    return base[:n]


def text_blob(n, tag):
    return (("t%d-abc xyz\n" % tag) * (n // 8 + 1))[:n]


def split_parts(data, k):
    if k <= 1 or len(data) < 2:
        return [data]
    step = max(1, len(data) // k)
    out = [data[i:i + step] for i in range(0, len(data), step)]
    return out


FORM_FIELDS = lambda n: [("a", "1"), ("b c", "d&e=f"), ("z", "q" * n)]
BOUNDARY = "c02boundaryc02"


def build_request_data(rb):
    """-> (data kwarg, json kwarg, expected body bytes | None when the encoder decides, size model info)"""
    import aiohttp
    k, n = rb["kind"], rb.get("n", 0)
    if k == "none":
        return None, None, b""
    if k == "bytes":
        d = blob(n, 1); return d, None, d
    if k == "bytearray":
        d = blob(n, 2); return bytearray(d), None, d
    if k == "str":
        s = text_blob(n, 3); return s, None, s.encode()
    if k == "form":
        f = aiohttp.FormData(FORM_FIELDS(n))
        return f, None, urllib.parse.urlencode(FORM_FIELDS(n), doseq=True).encode()
    if k == "mpart":
        f = aiohttp.FormData(boundary=BOUNDARY)
        f.add_field("f1", "v1")
        f.add_field("file", io.BytesIO(blob(n, 4)), filename="x.bin", content_type="application/octet-stream")
        return f, None, None
    if k == "agen":
        parts = split_parts(blob(n, 5), rb.get("parts", 1))

        async def gen():
            for p in parts:
                yield p
        return gen(), None, b"".join(parts)
    if k == "bytesio":
        d = blob(n, 6); return io.BytesIO(d), None, d
    if k == "json":
        obj = {"k": "j" * n, "n": n}
        return None, obj, json.dumps(obj).encode()
    raise ValueError(k)


async def mpart_expected(n):
    import aiohttp
    f = aiohttp.FormData(boundary=BOUNDARY)
    f.add_field("f1", "v1")
    f.add_field("file", io.BytesIO(blob(n, 4)), filename="x.bin", content_type="application/octet-stream")
    return await f().as_bytes()


# ------------------------------------------------------------------------------ one exchange
class _LogCap(logging.Handler):
    def __init__(self):
        super().__init__()
        self.errs = []

    def emit(self, record):
        ei = record.exc_info
        if ei and ei[1] is not None:
            tb = traceback.extract_tb(ei[2])
            fn = _canon_fn(tb[-1].name) if tb else "?"
            self.errs.append(f"{type(ei[1]).__name__}@{fn}")
        else:
            self.errs.append("log:" + record.levelname)


def _canon_fn(fn):
    # the two guards of the same invariant (chunked xor Content-Length)
    return "chunked-vs-content-length" if fn in ("enable_chunked_encoding", "content_length") else fn


def innermost(exc):
    tb = traceback.extract_tb(exc.__traceback__)
    return f"{type(exc).__name__}@{_canon_fn(tb[-1].name) if tb else '?'}"


def _hdr_list(raw):
    return [[bytes(k).decode("latin-1"), bytes(v).decode("latin-1")] for k, v in raw]


async def _exchange(case, tmpdir, obs):
    import aiohttp
    from aiohttp import web
    from aiohttp.http import HttpVersion
    rq, rs = case["req"], case["resp"]
    loop = asyncio.get_running_loop()
    srv = obs["srv"] = []
    state = {}

    async def on_prepare(request, response):
        w = request._payload_writer
        state.setdefault("prep", []).append({
            "wlen": w.length, "wch": bool(w.chunked), "wz": w._compress is not None,
            "bz": getattr(response, "_compressed_body", None) is not None,
            "zlen": len(response._compressed_body) if getattr(response, "_compressed_body", None) is not None else 0,
            "empty": bool(response._must_be_empty_body)})

    async def handler(request):
        body = await request.read()
        seen = {"method": request.method, "path_qs": request.raw_path, "rel": str(request.rel_url),
                "ver": list(request.version), "hdrs": _hdr_list(request.raw_headers), "body": body,
                "app_hdrs": [[k, v] for k, v in request.headers.items()],
                "ka": bool(request.keep_alive), "query": [[k, v] for k, v in request.query.items()],
                "cookies": dict(request.cookies), "ae": request.headers.get("Accept-Encoding", "")}
        srv.append(seen)
        if request.path == "/__probe":
            return web.Response(text="probe-ok")
        kind = rs["kind"]
        hdrs = [tuple(h) for h in rs.get("hdrs", [])]
        if rs.get("cl") is not None:
            hdrs.append(("Content-Length", str(rs["cl"])))
        kw = dict(status=rs["status"], reason=rs.get("reason"), headers=hdrs or None)
        n = rs.get("n", 0)
        streamed = 0
        try:
            if kind == "response":
                r = web.Response(body=None if rs.get("nobody") else blob(n, 11), **kw)
            elif kind == "text":
                r = web.Response(text=text_blob(n, 12), **kw)
            elif kind == "json":
                r = web.json_response({"v": "r" * n}, **kw)
            elif kind == "payload":
                r = web.Response(body=io.BytesIO(blob(n, 13)), **kw); streamed = n
            elif kind == "agen":
                parts = split_parts(blob(n, 14), rs.get("parts", 1))

                async def gen():
                    for p in parts:
                        yield p
                r = web.Response(body=gen(), **kw); streamed = n
            elif kind == "file":
                r = web.FileResponse(os.path.join(tmpdir, f"f{n}.bin"), **kw)
                streamed = n
            elif kind == "stream":
                r = web.StreamResponse(**kw)
            else:
                raise ValueError(kind)
            if rs.get("chunked"):
                r.enable_chunked_encoding()
            if rs.get("compress"):
                c = rs["compress"]
                r.enable_compression(None if c == "auto" else web.ContentCoding(c))
            if rs.get("force_close"):
                r.force_close()
        except RuntimeError as e:
            state["api_err"] = innermost(e)
            r = web.Response(status=500, text="api-error")
            r.force_close()
            state["resp"] = r
            return r
        state["resp"] = r
        state["streamed"] = streamed
        if kind == "stream":
            try:
                await r.prepare(request)
            except Exception as e:
                state["prep_err"] = innermost(e)
                raise
            parts = split_parts(blob(n, 15), rs.get("parts", 1))
            if not rs.get("obey_empty") or not r._must_be_empty_body:
                for p in parts:
                    if p:
                        await r.write(p)
                        state["streamed"] = state.get("streamed", 0) + len(p)
            await r.write_eof()
        elif rs.get("explicit_prepare"):
            try:
                await r.prepare(request)
            except Exception as e:
                state["prep_err"] = innermost(e)
                raise
        return r

    app = web.Application()
    app.on_response_prepare.append(on_prepare)
    app.router.add_route("*", "/{tail:.*}", handler)
    cap = _LogCap()
    lg = logging.getLogger("aiohttp.server"); lg.addHandler(cap); lg.propagate = False
    lgw = logging.getLogger("aiohttp.web"); lgw.addHandler(cap); lgw.propagate = False
    runner = web.AppRunner(app)
    await runner.setup()
    conn = make_connector(runner.server, case["seg"][0], case["seg"][1], force_close=bool(case.get("fc")))
    obs["conn"] = conn
    ver = HttpVersion(*case["ver"])
    data, js, expected = build_request_data(rq["body"])
    if rq["body"]["kind"] == "mpart":
        expected = await mpart_expected(rq["body"].get("n", 0))
    obs["req_expected_body"] = expected
    hdrs = [tuple(h) for h in rq.get("hdrs", [])]
    kw = {}
    if rq.get("chunked") is not None:
        kw["chunked"] = rq["chunked"]
    if rq.get("compress"):
        kw["compress"] = rq["compress"]
    if rq.get("expect100"):
        kw["expect100"] = True
    cli = obs["cli"] = {}
    jar = aiohttp.DummyCookieJar()
    try:
        async with aiohttp.ClientSession(connector=conn, version=ver, cookie_jar=jar,
                                         cookies=None) as s:
            t0 = loop.time()
            try:
                mth = rq["method"].lower() if rq.get("mcase") == "lower" else rq["method"]
                host = "example.test:80" if rq.get("port80") else "EXAMPLE.test" if rq.get("hostcase") else "example.test"
                async with s.request(mth, "http://" + host + rq["path"], data=data, json=js,
                                     headers=hdrs or None, cookies=rq.get("cookies"), allow_redirects=False, **kw) as resp:
                    cli.update(status=resp.status, reason=resp.reason, ver=list(resp.version),
                               hdrs=_hdr_list(resp.raw_headers), app_hdrs=[[k, v] for k, v in resp.headers.items()],
                               req_hdrs=[[k, v] for k, v in resp.request_info.headers.items()])
                    cli["body"] = await resp.read()
            except ValueError as e:
                obs["client_refused"] = innermost(e)
            except Exception as e:  # noqa
                cli["exc"] = innermost(e) if not isinstance(e, (asyncio.TimeoutError,)) else "TimeoutError"
            for _ in range(12):
                await asyncio.sleep(0)
            cli["vt"] = loop.time() - t0
            ct, stt = conn.pairs[-1] if conn.pairs else (None, None)
            obs["after"] = {
                "nconn": len(conn.pairs),
                "c_closing": bool(ct.closing) if ct else None, "s_closing": bool(stt.closing) if stt else None,
                "c_by": ct.closed_by if ct else None,
                "pooled": sum(len(v) for v in conn._conns.values()),
                "c_wire": bytes(ct.log) if ct else b"", "s_wire": bytes(stt.log) if stt else b"",
            }
            # probe: does the next request on the session reuse the connection, and does it work
            pr = obs["probe"] = {}
            n0 = len(conn.pairs)
            try:
                async with s.get("http://example.test/__probe") as r2:
                    pr["status"] = r2.status
                    pr["body"] = await r2.read()
            except Exception as e:  # noqa
                pr["exc"] = innermost(e) if not isinstance(e, asyncio.TimeoutError) else "TimeoutError"
            pr["new"] = len(conn.pairs) - n0
            for _ in range(6):
                await asyncio.sleep(0)
            obs["wires"] = [(bytes(c.log), bytes(t.log)) for c, t in conn.pairs]
            obs["release_log"] = list(conn.release_log)
    finally:
        lg.removeHandler(cap); lgw.removeHandler(cap)
        await runner.cleanup()
    obs["state"] = state
    obs["srv_errs"] = cap.errs
    r = state.get("resp")
    if r is not None:
        obs["resp_final"] = {"ka": r.keep_alive, "hdrs": [[k, v] for k, v in r.headers.items()],
                             "status": r.status, "reason": r.reason}


def run_case(case, tmpdir):
    obs = {}

    async def main():
        await _exchange(case, tmpdir, obs)
    from .common.c02pipe import run_budgeted
    run_budgeted(main, obs)
    excs = obs.pop("loop_excs_raw", [])
    obs["loop_excs"] = [type(c.get("exception")).__name__ if c.get("exception") else c.get("message", "?")[:40] for c in excs]
    obs.pop("conn", None)
    return obs


# ------------------------------------------------------------------------------ reference reader (spec twin)
def ref_dechunk(body):
    """strict RFC 9112 chunked decoder (twin of Aio.C04.decodeChunked) -> (data, rest) | None"""
    out = bytearray(); i = 0
    while True:
        j = body.find(b"\r\n", i)
        if j < 0:
            return None
        line = body[i:j]
        if not re.fullmatch(rb"[0-9a-fA-F]+", line):
            return None
        n = int(line, 16); i = j + 2
        if n == 0:
            if body[i:i + 2] != b"\r\n":
                return None
            return bytes(out), body[i + 2:]
        if len(body) < i + n + 2 or body[i + n:i + n + 2] != b"\r\n":
            return None
        out += body[i:i + n]; i += n + 2


def ref_split_head(wire):
    """-> (start line, [(name, value)], rest) | None"""
    j = wire.find(b"\r\n\r\n")
    if j < 0:
        return None
    lines = wire[:j].split(b"\r\n")
    hs = []
    for l in lines[1:]:
        k, sep, v = l.partition(b":")
        if not sep:
            return None
        hs.append((k.decode("latin-1"), v.strip(b" \t").decode("latin-1")))
    return lines[0], hs, wire[j + 4:]


def hget(hs, name):
    vs = [v for k, v in hs if k.lower() == name.lower()]
    return vs


def ref_read_message(wire, is_response, req_method=None):
    """Strict reading of ONE message at the start of `wire` (RFC 9112 §6): returns
    dict(start, hs, framing, body, rest) or None if malformed / incomplete.
    framing 'eof' consumes everything."""
    h = ref_split_head(wire)
    if h is None:
        return None
    start, hs, rest = h
    cl, te = hget(hs, "content-length"), hget(hs, "transfer-encoding")
    code = None
    if is_response:
        m = re.fullmatch(rb"HTTP/1\.[01] (\d{3})(?: (.*))?", start)
        if not m:
            return None
        code = int(m.group(1))
        if req_method == "HEAD" or 100 <= code < 200 or code in (204, 304):
            return dict(start=start, hs=hs, framing="none", body=b"", rest=rest, code=code)
    if te:
        if cl or [t.lower() for t in te] != ["chunked"]:
            return None
        d = ref_dechunk(rest)
        if d is None:
            return None
        return dict(start=start, hs=hs, framing="chunked", body=d[0], rest=d[1], code=code)
    if cl:
        if len(cl) != 1 or not re.fullmatch(r"[0-9]+", cl[0]):
            return None
        n = int(cl[0])
        if len(rest) < n:
            return None
        return dict(start=start, hs=hs, framing=f"len:{n}" if n else "none", body=rest[:n], rest=rest[n:], code=code)
    if is_response:
        return dict(start=start, hs=hs, framing="eof" if rest else "eof0", body=rest, rest=b"", code=code)
    return dict(start=start, hs=hs, framing="none", body=b"", rest=rest, code=code)


def decode_ce(body, hs):
    ce = [v.lower() for v in hget(hs, "content-encoding")]
    if not ce:
        return body
    if ce == ["gzip"]:
        return zlib.decompress(body, 16 + zlib.MAX_WBITS)
    if ce == ["deflate"]:
        try:
            return zlib.decompress(body)
        except zlib.error:
            return zlib.decompress(body, -zlib.MAX_WBITS)
    if ce == ["identity"]:
        return body
    raise ValueError(ce)


# ------------------------------------------------------------------------------ expectations from the case
def expected_response_body(case):
    rs = case["resp"]; n = rs.get("n", 0); k = rs["kind"]
    if k == "response":
        return b"" if rs.get("nobody") else blob(n, 11)
    if k == "text":
        return text_blob(n, 12).encode()
    if k == "json":
        return json.dumps({"v": "r" * n}).encode()
    if k == "payload":
        return blob(n, 13)
    if k == "agen":
        return blob(n, 14)
    if k == "file":
        return blob(n, 16)
    if k == "stream":
        return blob(n, 15)
    raise ValueError(k)


EMPTY_STATUS = lambda c: 100 <= c < 200 or c in (204, 304)


def admissible(case):
    """the application does not lie about framing (see ASSUMPTIONS) — outside this set the
    oracle judges only what the property still promises"""
    rq, rs = case["req"], case["resp"]
    for k, v in rq.get("hdrs", []):
        if k.lower() == "expect" and v.lower() == "100-continue" and case["ver"] == [1, 1]:
            continue   # the expectation token is case-insensitive (RFC 9110 10.1.1): same as expect100=True
        if k.lower() in ("content-length", "transfer-encoding", "connection", "expect", "content-encoding", "host"):
            return False
    for k, _ in rs.get("hdrs", []):
        if k.lower() in ("content-length", "transfer-encoding", "connection", "content-encoding"):
            return False
    if rs.get("cl") is not None:
        return False
    if rq.get("compress") not in (None, False, True, "deflate", "gzip"):
        return False
    if rs["kind"] == "stream" and not rs.get("obey_empty") and EMPTY_STATUS(rs["status"]) and rs.get("n", 0) > 0:
        return False  # the handler itself writes a body on a 204/304
    return True




# ------------------------------------------------------------------------------ direct oracle
def direct_oracle(ctx, case, obs):
    """the property, on the real objects alone (only for API-admissible exchanges: see ASSUMPTIONS)"""
    rq, rs = case["req"], case["resp"]
    cli, srv, st = obs.get("cli", {}), obs.get("srv", []), obs.get("state", {})
    V = lambda sig, detail: ctx.violation("C02/" + sig, case, detail)
    if not admissible(case):
        return
    if obs.get("client_refused"):
        V(f"request-refused/{reqclass(case)}", f"the client API refused an admissible request: {obs['client_refused']}")
        return
    method = rq["method"]
    main_seen = [s for s in srv if s["rel"] != "/__probe"]
    wires = obs.get("wires") or []
    pr = obs.get("probe", {})
    probe_ok = not pr.get("exc") and pr.get("status") == 200 and pr.get("body") == b"probe-ok"
    exp_req_body = obs.get("req_expected_body")

    # ---- 0'. chunked=True on a GET-class request without data (known root cause F22b): the terminator is written
    #          without a Transfer-Encoding header — or, with expect100, is never written because the exchange dies first
    if rq.get("chunked") is True and rq["body"]["kind"] == "none" and method in ("GET", "HEAD", "OPTIONS", "TRACE"):
        healthy = (len(main_seen) == 1 and "exc" not in cli and probe_ok
                   and not any(e.startswith("Bad") for e in obs.get("srv_errs", [])))
        if not healthy:
            V("request-wire-desync/chunked-terminator-without-transfer-encoding/chunked-true-without-data",
              f"{method} with chunked=True and no data (expect100={bool(rq.get('expect100'))}): handler saw {len(main_seen)} request(s), "
              f"caller got {cli.get('status', cli.get('exc'))}, probe {pr.get('status', pr.get('exc'))}; client wire ends {wires[0][0][-12:] if wires else b''!r}")
            return
    # ---- 1. the request on the wire: exactly the request (per its own framing headers), then at most the probe
    if wires:
        cw = wires[0][0]
        m = ref_read_message(cw, False)
        bad = None
        if m is None:
            bad = "unreadable"
        elif m["rest"] and not m["rest"].startswith(b"GET /__probe "):
            bad = "surplus"
        if bad:
            h = ref_split_head(cw)
            cause = "other"
            if h is not None:
                _, hs, rest = h
                has_te = bool(hget(hs, "transfer-encoding"))
                d = ref_dechunk(rest)
                if not has_te and d is not None:
                    cause = "chunk-framed-body-without-transfer-encoding"
                    if rq.get("chunked") is True and rq["body"]["kind"] == "none":
                        # a different trigger of the same writer/header split: chunked=True on a request without data
                        cause = "chunked-terminator-without-transfer-encoding/chunked-true-without-data"
            fr = [f"{k}: {v}" for k, v in (h[1] if h else []) if k.lower() in ("content-length", "transfer-encoding")]
            V(f"request-wire-desync/{cause}",
              f"client bytes after the request head do not match its framing headers {fr} ({bad}): ...{cw[-30:]!r}; "
              f"handler saw {len(main_seen)} request(s), caller got {cli.get('status', cli.get('exc'))}")
            return
    # ---- 0. a HEAD request that carries a body: one root cause whatever the symptom
    if method == "HEAD" and rq["body"]["kind"] != "none":
        ok = (len(main_seen) >= 1 and main_seen[0]["body"] == exp_req_body
              and not any(e.startswith("Bad") for e in obs.get("srv_errs", [])))
        if not ok:
            V("request-body-differs/body-of-HEAD-request-ignored-by-server",
              f"HEAD request carrying a body ({rq['body']['kind']}, {len(exp_req_body or b'')} bytes): handler saw {len(main_seen)} request(s)"
              f"{', body of %d bytes' % len(main_seen[0]['body']) if main_seen else ''}; caller got {cli.get('status', cli.get('exc'))}; "
              f"server errors {obs.get('srv_errs')}")
            return
    # ---- 2. what the handler saw
    api_err = st.get("api_err") or st.get("prep_err") or any(
        e.split("@")[0] in ("RuntimeError", "AssertionError") for e in obs.get("srv_errs", []))
    if method == "HEAD" and exp_req_body and (not main_seen or main_seen[0]["body"] != exp_req_body):
        V("request-body-differs/body-of-HEAD-request-ignored-by-server",
          f"HEAD request with a {len(exp_req_body)}-byte body: handler saw {len(main_seen)} request(s)"
          f"{', body of %d bytes' % len(main_seen[0]['body']) if main_seen else ''}; caller got {cli.get('status', cli.get('exc'))}")
        return
    if not main_seen:
        V(f"request-lost/{reqclass(case)}", f"the handler never saw the request; client: {cli.get('exc') or cli.get('status')}")
        return
    seen = main_seen[0]
    if len(main_seen) > 1 and not api_err:
        V(f"request-duplicated/{reqclass(case)}", f"handler invoked {len(main_seen)} times")
    if seen["method"] != method:
        V("request-method-differs", f"sent {method}, handler saw {seen['method']}")
    import yarl
    u = yarl.URL("http://example.test" + rq["path"])
    if seen["path_qs"] != u.raw_path_qs:
        V("request-target-differs", f"sent {u.raw_path_qs!r}, handler saw {seen['path_qs']!r}")
    if seen["query"] != [[k, v] for k, v in u.query.items()]:
        V("request-query-differs", f"sent {list(u.query.items())!r}, handler saw {seen['query']!r}")
    got = [[k, v.encode("latin-1").decode("utf-8", "surrogateescape")] for k, v in seen["hdrs"]]
    if seen.get("app_hdrs") is not None and seen["app_hdrs"] != merged_view(got):
        V("request-headers-differ/request.headers-vs-raw_headers", f"request.headers {seen['app_hdrs']!r} != raw_headers {got!r}")
    sent = cli.get("req_hdrs")
    if sent is not None and sent != got:
        V("request-headers-differ", f"client sent {sent!r}, handler saw {got!r}")
    for k, v in rq.get("hdrs", []):
        if [k, v] not in got:
            V("request-header-missing", f"user header {k}: {v!r} not seen by the handler")
    if rq.get("cookies") and seen["cookies"] != rq["cookies"]:
        V("request-cookies-differ", f"sent {rq['cookies']!r}, handler saw {seen['cookies']!r}")
    if exp_req_body is not None and seen["body"] != exp_req_body:
        cause = "body-of-HEAD-request-ignored-by-server" if method == "HEAD" else reqclass(case)
        V(f"request-body-differs/{cause}",
          f"sent {len(exp_req_body)} bytes, handler read {len(seen['body'])} bytes; first difference at {first_diff(exp_req_body, seen['body'])}")
        return
    # ---- 3. the response
    if api_err:
        return  # the handler's configuration was refused by the API (model side checks which and when)
    fin = obs.get("resp_final")
    if fin is None:
        return
    bodiless = method == "HEAD" or EMPTY_STATUS(rs["status"])
    # 3a. the response on the wire: exactly one response (per its framing headers and the request method), then the probe's
    desync = False
    if wires:
        sw = skip_100(wires[0][1])
        m = ref_read_message(sw, True, method)
        if m is None:
            V(f"response-wire-desync/unreadable/{respclass(case, obs)}", f"server bytes do not read as a response: {sw[:80]!r}")
            desync = True
        elif m["framing"].startswith("eof") and fin["ka"]:
            V("response-never-ends/close-delimited-body-on-kept-alive-connection" + ("/http10" if case["ver"] == [1, 0] else ""),
              f"response has neither Content-Length nor chunked coding (body ends at connection close) but the server keeps the "
              f"connection (resp.keep_alive={fin['ka']}); caller: {cli.get('exc') or cli.get('status')} after {cli.get('vt', 0):.0f}s")
            desync = True
        elif m["rest"] and not m["rest"].startswith(b"HTTP/1."):
            wz = (st.get("prep") or [{}])[0].get("wz")
            handler_wrote = rs["kind"] == "stream" and not rs.get("obey_empty") and rs.get("n", 0)
            # only the two understood causes get their (known) names; anything else is a different defect
            j0 = m["rest"].find(b"HTTP/1.")
            junk0 = m["rest"] if j0 < 0 else m["rest"][:j0]
            who = "body-of-" + rs["kind"] + "-response-written"
            if handler_wrote and not wz:
                # F24: exactly what the handler wrote (raw, or chunk-framed when enable_chunked_encoding was used)
                hw = blob(rs.get("n", 0), 15)
                framed = b"".join(b"%x\r\n%s\r\n" % (len(p_), p_) for p_ in split_parts(hw, rs.get("parts", 1)) if p_) + b"0\r\n\r\n"
                # (the junk is cut where the next response seems to start; the test data contains such text itself)
                if junk0 and (hw.startswith(junk0) or framed.startswith(junk0)):
                    who = "handler-write"
                else:
                    who = "handler-write-but-other-bytes"
            elif wz:
                # F23: nothing but the trailer of an EMPTY compressed stream
                try:
                    d = ref_dechunk(junk0)
                    raw = d[0] if (d is not None and d[1] == b"") else junk0
                    empty = decode_ce(raw, [("Content-Encoding", "gzip" if raw[:2] == b"\x1f\x8b" else "deflate")]) == b""
                except Exception:
                    empty = False
                who = "compressor-flush" if (empty and len(junk0) <= 40 and not handler_wrote) else "compressed-body-written"
                if handler_wrote and who != "compressor-flush":
                    # F24 with a compressing writer: the junk is (a prefix of) the compressed form of what the handler wrote
                    try:
                        dd = ref_dechunk(junk0)
                        raw2 = dd[0] if dd is not None else junk0
                        dec = zlib.decompressobj(16 + zlib.MAX_WBITS if raw2[:2] == b"\x1f\x8b" else zlib.MAX_WBITS).decompress(raw2)
                        if blob(rs.get("n", 0), 15).startswith(dec):
                            who = "handler-write"
                    except Exception:
                        pass
            j = m["rest"].find(b"HTTP/1.")
            junk = m["rest"] if j < 0 else m["rest"][:j]
            V(f"response-wire-desync/body-bytes-after-bodiless-head/{who}" if bodiless else f"response-wire-desync/surplus/{respclass(case, obs)}",
              f"{len(junk)} bytes follow the complete response to {method} (status {rs['status']}): {junk[:24]!r}; probe: "
              f"{pr.get('exc') or pr.get('status')}")
            desync = True
    if desync:
        return
    # 3b. what the caller saw
    if "status" not in cli and "exc" not in cli:
        V(f"exchange-never-completes/{respclass(case, obs)}",
          f"nothing left to run (quiescent={obs.get('quiescent')}): the handler returned {fin['status']} but the caller is still waiting")
        return
    if "exc" in cli:
        V(f"response-lost/{respclass(case, obs)}", f"handler returned {fin['status']}, caller got {cli['exc']} after {cli.get('vt', 0):.0f}s")
        return
    if cli["status"] != fin["status"]:
        V("response-status-differs", f"handler returned {fin['status']}, caller saw {cli['status']}")
    if (cli["reason"] or "") != (fin["reason"] or ""):
        V("response-reason-differs", f"handler returned {fin['reason']!r}, caller saw {cli['reason']!r}")
    got_h = [[k, v.encode("latin-1").decode("utf-8", "surrogateescape")] for k, v in cli["hdrs"]]
    if cli.get("app_hdrs") is not None and cli["app_hdrs"] != merged_view(got_h):
        V("response-headers-differ/resp.headers-vs-raw_headers", f"resp.headers {cli['app_hdrs']!r} != raw_headers {got_h!r}")
    if got_h != fin["hdrs"]:
        V("response-headers-differ", f"server sent {fin['hdrs']!r}, caller saw {got_h!r}")
    for k, v in rs.get("hdrs", []):
        if [k, v] not in got_h:
            V("response-header-missing", f"handler header {k}: {v!r} not seen by the caller")
    exp_b = b"" if bodiless else expected_response_body(case)
    if cli["body"] != exp_b:
        V(f"response-body-differs/{respclass(case, obs)}",
          f"handler sent {len(exp_b)} bytes, caller read {len(cli['body'])}; first difference at {first_diff(exp_b, cli['body'])}")
    if cli.get("vt", 0) > 0:
        V(f"response-delayed/{respclass(case, obs)}", f"the exchange only completed after {cli['vt']:.0f}s of timers")
    # ---- 4. both ends agree on keeping the connection
    rel = obs.get("release_log") or []
    af = obs.get("after")
    if rel and af:
        d = rel[0]
        client_keeps = not (d["force"] or d["arg"] or d["proto"])
        server_keeps = bool(fin["ka"])
        if server_keeps != client_keeps:
            V(f"keepalive-disagree/{kaclass(case, obs)}",
              f"server keeps the connection={server_keeps} (resp.keep_alive), client keeps it={client_keeps} "
              f"(connector force_close={d['force']}, protocol.should_close={d['proto']})")
        if not server_keeps and not af["s_closing"]:
            V("server-did-not-close", "resp.keep_alive is False but the server transport was not closed")
        if client_keeps and server_keeps and pr.get("new") != 0:
            V("pooled-connection-not-reused", f"both ends kept the connection but the probe opened {pr.get('new')} new")
    if not probe_ok:
        V(f"next-request-broken/{respclass(case, obs)}", f"probe after the exchange: {pr!r}")


def merged_view(pairs):
    """what HeadersDictProxy.items() shows: one entry per field name (first spelling, first position), the values of
    repeated fields joined with ', '"""
    order, vals = [], {}
    for k, v in pairs:
        lk = k.lower()
        if lk not in vals:
            vals[lk] = (k, [v]); order.append(lk)
        else:
            vals[lk][1].append(v)
    return [[vals[lk][0], ", ".join(vals[lk][1])] for lk in order]


def first_diff(a, b):
    for i, (x, y) in enumerate(zip(a, b)):
        if x != y:
            return i
    return min(len(a), len(b))


def reqclass(case):
    rq = case["req"]
    parts = [rq["body"]["kind"]]
    if rq.get("chunked") is not None:
        parts.append("chunked-" + str(rq["chunked"]).lower())
    if rq.get("compress"):
        parts.append("compress")
    if rq.get("expect100"):
        parts.append("expect100")
    if case["ver"] == [1, 0]:
        parts.append("http10")
    return "-".join(parts)


def respclass(case, obs):
    rs = case["resp"]
    parts = [rs["kind"]]
    if case["req"]["method"] == "HEAD":
        parts.append("HEAD")
    if EMPTY_STATUS(rs["status"]):
        parts.append(str(rs["status"]))
    if rs.get("chunked"):
        parts.append("chunked")
    if rs.get("compress"):
        parts.append("compress")
    if case["ver"] == [1, 0]:
        parts.append("http10")
    hs = (obs.get("resp_final") or {}).get("hdrs", [])
    names = {k.lower() for k, _ in hs}
    if "content-length" not in names and "transfer-encoding" not in names:
        parts.append("no-framing-headers")
    return "-".join(parts)


def kaclass(case, obs):
    hs = (obs.get("resp_final") or {}).get("hdrs", [])
    names = {k.lower() for k, _ in hs}
    nofr = "content-length" not in names and "transfer-encoding" not in names
    if case["req"]["method"] == "HEAD" and nofr:
        return "head-without-framing-headers"
    if case["ver"] == [1, 0] and nofr:
        return "http10-close-delimited-body"
    return respclass(case, obs)


# ------------------------------------------------------------------------------ model lines
CODING = {None: "none", "deflate": "deflate", "gzip": "gzip", "identity": "identity"}
SRV_ERR = {"chunked-with-cl": "RuntimeError@chunked-vs-content-length", "chunked-not-11": "RuntimeError@_prepare_headers",
           "compress-no-body": "AssertionError@_do_start_compression"}
CLI_ERR = {"compress-with-ce": "ValueError@_update_content_encoding", "compress-bad": "ValueError@_update_content_encoding",
           "chunked-with-te": "ValueError@_update_transfer_encoding", "chunked-with-cl": "ValueError@_update_transfer_encoding",
           "bad-cl": "ValueError@_get_content_length"}


def b01(x):
    return "1" if x else "0"


def optn(x):
    return "none" if x is None else str(x)


def conn_val(hs):
    v = hget([(k, v) for k, v in hs], "connection")
    if not v:
        return "none"
    t = v[0].strip().lower()
    return "1" if t == "close" else "0" if t == "keep-alive" else "?"


def req_payload_size(rq):
    """ClientRequest's payload.size for the data kind"""
    k, n = rq["body"]["kind"], rq["body"].get("n", 0)
    if k == "none":
        return None
    if k in ("bytes", "bytearray", "bytesio"):
        return n
    if k == "str":
        return len(text_blob(n, 3).encode())
    if k == "form":
        return len(urllib.parse.urlencode(FORM_FIELDS(n), doseq=True))
    if k == "json":
        return len(json.dumps({"k": "j" * n, "n": n}))
    if k == "agen":
        return None
    if k == "mpart":
        return "mpart"
    raise ValueError(k)


def req_line(case, obs):
    rq = case["req"]
    hs = rq.get("hdrs", [])
    k = rq["body"]["kind"]; n = rq["body"].get("n", 0)
    size = req_payload_size(rq)
    exp = obs.get("req_expected_body")
    if size == "mpart":
        size = len(exp) if exp is not None else None
    truthy = {"none": False, "bytes": n > 0, "bytearray": n > 0, "str": n > 0}.get(k, True)
    ucl = hget(hs, "content-length")
    ucl = "none" if not ucl else (ucl[0] if re.fullmatch(r"[0-9]+", ucl[0]) else "bad")
    ute = any("chunked" in v.lower() for v in hget(hs, "transfer-encoding"))
    uce = any(v for v in hget(hs, "content-encoding"))
    uexp = any(v.lower() == "100-continue" for v in hget(hs, "expect"))
    comp = rq.get("compress")
    comp = "off" if not comp else "on" if comp is True else comp if comp in ("deflate", "gzip") else "bad"
    actual = len(exp) if exp is not None else 0
    return (f"req ver={case['ver'][0]}.{case['ver'][1]} method={hx(rq['method'].encode())} hasdata={b01(k != 'none')} "
            f"truthy={b01(truthy)} size={optn(size)} chunked={'none' if rq.get('chunked') is None else b01(rq['chunked'])} "
            f"compress={comp} expect={b01(rq.get('expect100'))} ucl={ucl} ute={b01(ute)} uce={b01(uce)} uconn={conn_val(hs)} "
            f"uexpect={b01(uexp)} cfc={b01(case.get('fc'))} limited={b01(k != 'mpart')} actual={actual}")


def impl_req_canon(case, obs):
    """what the real client did, in the model's output format"""
    cli = obs.get("cli", {})
    if obs.get("client_refused"):
        return "err " + obs["client_refused"]
    wires = obs.get("wires") or []
    if not wires:
        return "no-wire"
    cw = wires[0][0]
    h = ref_split_head(cw)
    if h is None:
        return "no-head"
    start, hs, rest = h
    user = {k.lower() for k, _ in case["req"].get("hdrs", [])}
    cl = hget(hs, "content-length")
    te = any("chunked" in v.lower() for v in hget(hs, "transfer-encoding"))
    conn = "none" if "connection" in user else conn_val(hs)
    ce = hget(hs, "content-encoding")
    ce = "none" if ("content-encoding" in user or not ce) else ce[0]
    expect = bool(hget(hs, "expect"))
    # what the writer did, read off the wire by the reference reader under each hypothesis
    seen = [s for s in obs.get("srv", []) if s["rel"] != "/__probe"]
    return dict(cl=cl[0] if cl else "none", te=b01(te), conn=conn, ce=ce, expect=b01(expect), hs=hs, rest=rest, seen=seen)


def resp_line(case, obs, seen, prep):
    rs = case["resp"]
    st = obs["state"]
    hs = list(rs.get("hdrs", []))
    kind = rs["kind"]
    isresp = kind in ("response", "text", "json", "payload", "agen")
    n = rs.get("n", 0)
    if kind == "response":
        body = "none" if rs.get("nobody") else f"bytes:{n}"
    elif kind == "text":
        body = f"bytes:{len(text_blob(n, 12).encode())}"
    elif kind == "json":
        body = f"bytes:{len(json.dumps({'v': 'r' * n}))}"
    elif kind == "payload":
        body = f"payload:{n}"
    elif kind == "agen":
        body = "payload:none"
    else:
        body = "none"
    ucl = rs.get("cl")
    must_empty = seen["method"] == "HEAD" or EMPTY_STATUS(rs["status"])
    if kind == "file":
        ucl = n
    uct = kind in ("text", "json", "payload", "agen", "file") or any(k.lower() == "content-type" for k, _ in hs)
    uce = any(k.lower() == "content-encoding" for k, _ in hs)
    comp = rs.get("compress")
    force = "none" if comp in (None, "auto") else comp
    streamed = st.get("streamed", 0)
    if kind == "file" and (n == 0 or must_empty):
        streamed = 0
    if isresp and must_empty:
        streamed = 0
    if prep and prep.get("wz"):
        # zlib is not modelled: the number of bytes the compressing writer emitted is an oracle column
        streamed = wire_body_len(obs)
    return (f"resp ver={seen['ver'][0]}.{seen['ver'][1]} method={hx(seen['method'].encode())} status={rs['status']} "
            f"isresp={b01(isresp)} body={body} ucl={optn(ucl)} chunked={b01(rs.get('chunked'))} comp={b01(comp)} force={force} "
            f"uce={b01(uce)} ae={hx(seen['ae'].encode())} uconn={conn_val(hs)} uct={b01(uct)} rka={b01(seen['ka'])} "
            f"fc={b01(rs.get('force_close'))} zlen={prep.get('zlen', 0) if prep else 0} streamed={streamed}")


def impl_resp_canon(case, obs, seen, prep):
    """the real server's decision + what is on the wire + the real client's view, in the model's format"""
    st = obs["state"]
    err = st.get("api_err") or st.get("prep_err")
    if err is None:
        errs = [e for e in obs.get("srv_errs", []) if e.split("@")[0] in ("RuntimeError", "AssertionError")]
        if errs:
            err = errs[0]
    if err:
        return "err " + err
    fin = obs["resp_final"]
    hs = [(k, v) for k, v in fin["hdrs"]]
    user = {k.lower() for k, _ in case["resp"].get("hdrs", [])}
    cl = hget(hs, "content-length")
    te = any(v.lower() == "chunked" for v in hget(hs, "transfer-encoding"))
    conn = "none" if "connection" in user else conn_val(hs)
    ce = hget(hs, "content-encoding")
    ce = "none" if ("content-encoding" in user or not ce) else ce[0]
    ct = hget(hs, "content-type")
    uct = case["resp"]["kind"] in ("text", "json", "payload", "agen", "file") or "content-type" in user
    ctd = bool(ct) and not uct
    # wire framing by the reference reader
    sw = obs["wires"][0][1] if obs.get("wires") else b""
    h = ref_split_head(skip_100(sw))
    wire = "?"
    if h is not None:
        _, whs, rest = h
        # only the first response's bytes: cut at the probe response if the connection was reused
        first = rest
        if obs.get("probe", {}).get("new") == 0:
            j = rest.rfind(b"HTTP/1.")
            if j >= 0:
                first = rest[:j]
        if hget(whs, "transfer-encoding") and first[:1] and ref_dechunk(first) is not None and ref_dechunk(first)[1] == b"":
            wire = "chunked"
        elif not first:
            wire = "none"
        elif prep["wlen"] is not None:
            wire = f"len:{len(first)}"     # the writer was given a length: exactly these bytes, raw
        else:
            wire = "eof"
    return (f"ok cl={cl[0] if cl else 'none'} te={b01(te)} conn={conn} ce={ce} ctd={b01(ctd)} wlen={optn(prep['wlen'])} "
            f"wch={b01(prep['wch'])} wz={b01(prep['wz'])} bz={b01(prep['bz'])} ka={b01(fin['ka'])} empty={b01(prep['empty'])} wire={wire}")


def wire_body_len(obs):
    """de-framed length of the first response's body bytes on the wire"""
    sw = skip_100(obs["wires"][0][1]) if obs.get("wires") else b""
    h = ref_split_head(sw)
    if h is None:
        return 0
    _, whs, rest = h
    if obs.get("probe", {}).get("new") == 0:
        j = rest.rfind(b"HTTP/1.")
        if j >= 0:
            rest = rest[:j]
    if hget(whs, "transfer-encoding"):
        d = ref_dechunk(rest)
        if d is not None:
            return len(d[0])
    return len(rest)


def skip_100(sw):
    while sw.startswith(b"HTTP/1.1 100 "):
        j = sw.find(b"\r\n\r\n")
        if j < 0:
            break
        sw = sw[j + 4:]
    return sw


# ------------------------------------------------------------------------------ generators
METHODS = ["GET", "HEAD", "POST", "PUT", "PATCH", "DELETE", "OPTIONS"]
PATHS = ["/", "/a", "/a/b/c", "/a?x=1", "/p%20q/r?x=1&y=two&x=3", "/caf%C3%A9?q=%26%3D", "/a/b?k=v#frag", "/x;y=1/z", "/a?empty=&b"]
XHDRS = [("X-A", "1"), ("X-B", "two words"), ("X-A", "again"), ("X-Tab", "a\tb"), ("X-Long", "v" * 300), ("X-Utf", "café"),
         ("Accept-Encoding", "gzip"), ("Accept-Encoding", "deflate, gzip"), ("Accept-Encoding", "GZip"), ("Accept-Encoding", "DEFLATE"), ("Accept-Encoding", "identity"), ("Accept-Encoding", "br"),
         ("Content-Type", "text/x-c02"), ("X-Colon", "a: b"), ("X-Empty", "")]
RHDRS = [("X-R", "1"), ("X-R", "2"), ("X-S", "spaced value"), ("Content-Type", "application/x-c02"), ("X-Utf", "naïve"),
         ("Set-Cookie", "a=b; Path=/"), ("Set-Cookie", "c=d"), ("X-Empty", ""), ("Cache-Control", "no-cache")]
SEGS = [["whole"], ["k", 1], ["k", 2], ["k", 3], ["k", 7], ["k", 64], ["k", 1000]]


def gen_seg(rng):
    r = rng.random()
    if r < 0.3:
        return ["whole"]
    if r < 0.7:
        return rng.choice(SEGS)
    return ["rand", rng.randrange(1 << 30), rng.choice([8, 64, 700])]


def gen_case(rng, big_ok=True):
    sizes = SIZES if big_ok else SMALL
    size = lambda: rng.choice(sizes) if rng.random() < 0.55 else rng.choice(SMALL)
    ver = [1, 1] if rng.random() < 0.7 else [1, 0]
    method = rng.choice(METHODS) if rng.random() < 0.7 else rng.choice(["GET", "HEAD", "POST"])
    rq = {"method": method, "path": rng.choice(PATHS), "hdrs": [], "body": {"kind": "none"}}
    for _ in range(rng.choice([0, 0, 1, 2, 3])):
        h = list(rng.choice(XHDRS))
        if h[0] == "Content-Type" and any(k == "Content-Type" for k, _ in rq["hdrs"]):
            continue  # a repeated singleton header is the application's own protocol error
        rq["hdrs"].append(h)
    r = rng.random()
    if r < 0.04:
        rq["mcase"] = "lower"          # session.request("post", ...): the method token is upper-cased by the client
    elif r < 0.08:
        rq["port80"] = True            # explicit default port
    elif r < 0.11:
        rq["hostcase"] = True          # host spelled in upper case
    if rng.random() < 0.15:
        rq["cookies"] = {"sid": "abc123", "t": "x-y"} if rng.random() < 0.5 else {"one": "1"}
    if method in ("POST", "PUT", "PATCH", "DELETE") or rng.random() < 0.15:
        if rng.random() < 0.9:
            kind = rng.choice(["bytes", "bytes", "bytearray", "str", "form", "mpart", "agen", "agen", "bytesio", "json"])
            rq["body"] = {"kind": kind, "n": size()}
            if kind == "agen":
                rq["body"]["parts"] = rng.choice([1, 2, 3, 5])
    r = rng.random()
    if r < 0.12:
        rq["chunked"] = True
    elif r < 0.17:
        rq["chunked"] = False
    if rng.random() < 0.15:
        rq["compress"] = rng.choice([True, "deflate", "gzip"])
    if rng.random() < 0.12 and ver == [1, 1]:
        rq["expect100"] = True
    elif rng.random() < 0.05 and ver == [1, 1]:
        rq["hdrs"].append(["Expect", rng.choice(["100-Continue", "100-CONTINUE", "100-continue"])])
    # inadmissible / error-path ingredients (kept rare; judged by the model comparison)
    r = rng.random()
    if r < 0.03:
        rq["hdrs"].append(["Content-Length", str(rng.choice([0, 1, 5, 100]))])
    elif r < 0.05:
        rq["hdrs"].append(["Transfer-Encoding", "chunked"])
    elif r < 0.07:
        rq["hdrs"].append(["Content-Encoding", "gzip"])
    elif r < 0.10:
        rq["hdrs"].append(["Connection", rng.choice(["close", "keep-alive"])])
    elif r < 0.11:
        rq["compress"] = "br"
    # response
    kind = rng.choice(["response", "response", "text", "json", "payload", "agen", "stream", "stream", "file"])
    status = rng.choice([200, 200, 200, 201, 204, 304, 400, 404, 500])
    rs = {"kind": kind, "status": status, "n": size(), "hdrs": []}
    if kind == "file":
        rs["n"] = rng.choice([0, 1, 100, 2049, 65537])
        rs["status"] = 200
    if kind == "response" and rng.random() < 0.25:
        rs["nobody"] = True; rs["n"] = 0
    if kind in ("agen", "stream"):
        rs["parts"] = rng.choice([1, 2, 3, 5])
    if kind == "stream":
        rs["obey_empty"] = rng.random() < 0.8
    if rng.random() < 0.15:
        rs["reason"] = rng.choice(["Fine", "Custom Reason Phrase", "OK"])
    for _ in range(rng.choice([0, 0, 1, 2])):
        h = list(rng.choice(RHDRS))
        if h[0] == "Content-Type" and (kind in ("text", "json") or any(k == "Content-Type" for k, _ in rs["hdrs"])):
            continue  # Response(text=..., headers={Content-Type}) is refused by the constructor (ValueError)
        rs["hdrs"].append(h)
    if rng.random() < 0.15:
        rs["chunked"] = True
    if rng.random() < 0.2:
        rs["compress"] = rng.choice(["auto", "auto", "deflate", "gzip", "identity"])
    if rng.random() < 0.1:
        rs["force_close"] = True
    if kind not in ("stream", "file") and rng.random() < 0.2:
        rs["explicit_prepare"] = True     # (FileResponse.prepare is not idempotent: a second call sends the file again)
    r = rng.random()
    if r < 0.04 and kind == "stream":
        rs["cl"] = rs["n"]            # truthful explicit Content-Length on a stream
    elif r < 0.06:
        rs["hdrs"].append(["Connection", rng.choice(["close", "keep-alive"])])
    elif r < 0.07 and kind in ("response", "stream"):
        rs["cl"] = rng.choice([0, 3, rs["n"]])
    case = {"ver": ver, "fc": rng.random() < 0.1, "seg": [gen_seg(rng), gen_seg(rng)], "req": rq, "resp": rs}
    return case


# ------------------------------------------------------------------------------ check one case
def judge(ctx, case, tmpdir, lines, pending):
    """run, direct oracle, and queue the model comparisons"""
    try:
        obs = run_case(case, tmpdir)
    except ValueError as e:
        obs = {"client_refused": innermost(e), "cli": {}, "srv": [], "state": {}}
    except Exception as e:  # noqa: anything else escaping the client API is outside the model's error enum
        obs = {"client_refused": "E_OTHER(" + type(e).__name__ + ")", "cli": {}, "srv": [], "state": {}}
    obs.setdefault("state", {}); obs.setdefault("cli", {}); obs.setdefault("srv", [])
    if obs.get("quiescent"):
        ctx.hit("exchange-quiescent")
    direct_oracle(ctx, case, obs)
    ctx.hit("req:" + case["req"]["body"]["kind"], "resp:" + case["resp"]["kind"], "ver:%d.%d" % tuple(case["ver"]),
            "status:%d" % case["resp"]["status"], "method:" + case["req"]["method"], "seg:" + case["seg"][0][0] + "/" + case["seg"][1][0])
    if obs.get("cli", {}).get("exc"):
        ctx.hit("client-exc:" + obs["cli"]["exc"])
    for e in obs.get("srv_errs", []):
        ctx.hit("server-log:" + e)
    if obs.get("quiescent"):
        return obs   # the exchange never finished (judged by the oracle): no complete observation to compare
    # ---- request direction vs model
    rl = req_line(case, obs)
    ir = impl_req_canon(case, obs)
    pending.append(("req", case, obs, len(lines), ir))
    lines.append(rl)
    # ---- response direction vs model
    seen = [s for s in obs.get("srv", []) if s["rel"] != "/__probe"]
    preps = obs.get("state", {}).get("prep", [])
    other_errs = [e for e in obs.get("srv_errs", []) if e.split("@")[0] not in ("RuntimeError", "AssertionError")]
    if other_errs:
        ctx.hit("resp-compare-skipped:server-side-parse-error")
    if seen and not other_errs and (obs["state"].get("resp") is not None or obs["state"].get("api_err")):
        prep = preps[0] if preps else None
        if obs["state"].get("api_err"):
            # the API refused the configuration before any prepare: model the refused configuration
            pending.append(("resp", case, obs, len(lines), "err " + obs["state"]["api_err"]))
            lines.append(resp_line(case, obs, seen[0], None))
        elif prep is not None or obs["state"].get("prep_err") or obs.get("srv_errs"):
            pending.append(("resp", case, obs, len(lines), impl_resp_canon(case, obs, seen[0], prep)))
            lines.append(resp_line(case, obs, seen[0], prep))
    return obs


def compare_all(ctx, lines, pending):
    outs = ctx.model(lines)
    if outs is None:
        return
    for kind, case, obs, idx, impl in pending:
        mo = outs[idx]
        if kind == "req":
            compare_req(ctx, case, obs, mo, impl)
        else:
            compare_resp(ctx, case, obs, mo, impl)


def parse_kv(s):
    return dict(t.split("=", 1) for t in s.split(" ")[1:] if "=" in t)


def compare_req(ctx, case, obs, mo, impl):
    where = "ClientRequest vs Aio.C02.reqVerdict"
    if isinstance(impl, str):
        if impl.startswith("err "):
            m = mo if not mo.startswith("err ") else "err " + CLI_ERR.get(mo[4:], mo[4:])
            ctx.compare(case, impl, m, where)
        else:
            ctx.compare(case, impl, mo, where)
        return
    if mo.startswith("err "):
        ctx.compare(case, f"sent cl={impl['cl']} te={impl['te']}", mo, where)
        return
    m = parse_kv(mo)
    hs, rest = impl["hs"], impl["rest"]
    # sender's header decisions
    canon_i = f"cl={impl['cl']} te={impl['te']} conn={impl['conn']} ce={impl['ce']} expect={impl['expect']}"
    canon_m = f"cl={m['cl']} te={m['te']} conn={m['conn']} ce={m['ce']} expect={m['expect']}"
    ctx.compare(case, canon_i, canon_m, where + " (headers)")
    # writer framing on the wire: decode the first request's body bytes under the model's framing
    wire = m["wire"]
    view = m["view"].split(",")[0]
    nn = lambda t: re.sub(r"len:\d+", "len:n", t)
    ctx.hit("req-wire:" + nn(wire) + ("" if view == wire else "/view:" + nn(view)))
    if m["cl"] != "none" and m["te"] == "1":
        return  # both Content-Length and Transfer-Encoding (user supplied one): the server rejects the head
    if view != wire:
        return  # the model predicts a framing desync (judged by the oracle); nothing further is well defined
    exp = obs.get("req_expected_body") or b""
    limit = m["limit"]
    sent = exp if (limit == "none" or case["req"]["body"]["kind"] == "mpart") else exp[:int(limit)]
    if m["writes"] == "0":
        sent = b""
    ok = None
    if wire == "chunked":
        d = ref_dechunk(rest)
        if d is None:
            ok = "wire-not-chunked"
        else:
            body = d[0]
            if m["wz"] == "1" and m["writes"] == "1":
                try:
                    body = decode_ce(body, [("Content-Encoding", m["ce"] if m["ce"] != "none" else "deflate")])
                except Exception:
                    ok = "wire-not-compressed"
            if ok is None and body != sent:
                ok = f"wire-body-differs({len(body)} vs {len(sent)})"
            if ok is None and d[1] and not d[1].startswith(b"GET /__probe"):
                ok = "wire-surplus"
    elif wire == "none":
        if rest and not rest.startswith(b"GET /__probe"):
            ok = "wire-has-body"
    elif wire.startswith("len:"):
        n = int(wire[4:])
        if rest[:n] != sent or (rest[n:] and not rest[n:].startswith(b"GET /__probe")):
            ok = "wire-body-differs"
    else:
        ok = "wire-framing-" + wire
    ctx.compare(case, ok or "wire-ok", "wire-ok", where + " (body on the wire)")
    # receiver's view: what the real server parser announced
    seen = impl["seen"]
    if seen:
        s0 = seen[0]
        view_i = f"sclose={b01(not s0['ka'])}"
        ctx.compare(case, view_i, f"sclose={m['sclose']}", where + " (request.keep_alive)")


def compare_resp(ctx, case, obs, mo, impl):
    where = "StreamResponse.prepare vs Aio.C02.respVerdict"
    if impl.startswith("err ") or mo.startswith("err "):
        m = mo if not mo.startswith("err ") else "err " + SRV_ERR.get(mo[4:], mo[4:])
        ctx.compare(case, impl, m, where)
        ctx.hit("resp-err:" + m[:40])
        return
    m = parse_kv(mo)
    keys = ["cl", "te", "conn", "ce", "ctd", "wlen", "wch", "wz", "bz", "ka", "empty", "wire"]
    canon_m = "ok " + " ".join(f"{k}={m[k]}" for k in keys)
    ctx.compare(case, impl, canon_m, where)
    nn = lambda t: re.sub(r"len:\d+", "len:n", t)
    ctx.hit("resp-wire:" + nn(m["wire"]), "resp-view:" + nn(m["view"].split(",")[0]))
    # client's view: real parser's message.should_close -> pool decision
    rel = obs.get("release_log") or []
    cli = obs.get("cli", {})
    # (a request whose user-supplied framing headers lie about its body leaves bytes behind: not modelled here)
    user_req_framing = any(k.lower() in ("content-length", "transfer-encoding") for k, _ in case["req"].get("hdrs", []))
    if rel and "exc" not in cli and not user_req_framing:
        if rel[0].get("lost"):
            # connection_lost reached the client before it released the connection (e.g. a 100 Continue in front of the
            # final response costs the caller one more loop iteration): protocol.should_close then only restates the
            # server's close, it is not the client's own decision.  That is legitimate only if the server decided to close.
            ctx.compare(case, "server-closed-before-client-release ka=0", f"server-closed-before-client-release ka={m['ka']}",
                        "server closed first vs Aio.C02.respPrep keepAlive")
            ctx.hit("client-release:after-connection-lost")
            return
        client_closes = rel[0]["force"] or rel[0]["arg"] or rel[0]["proto"]
        model_closes = m["cclose"] == "1" or bool(case.get("fc"))
        # bytes left over on the connection also force a close (ResponseHandler.should_close)
        if m["wire"] == m["view"].split(",")[0]:
            ctx.compare(case, f"client-closes={b01(client_closes)}", f"client-closes={b01(model_closes)}",
                        "ResponseHandler.should_close vs Aio.C02.clientView")


# ------------------------------------------------------------------------------ parser model on the recorded wire
def feed_lines(ctx, samples):
    """the shared parser model (Aio.Http.feed) against the real stand-alone parser on recorded real
    traffic, re-segmented: request direction always, response direction when the connection carried
    exactly one response"""
    from .common import httpparse as H
    lines, meta = [], []
    rng = ctx.rng
    for case, obs in samples:
        wires = obs.get("wires") or []
        if not wires:
            continue
        cw, sw = wires[0]
        jobs = []
        if cw:
            jobs.append((H.Cfg(), cw, "request"))
        if sw and obs.get("probe", {}).get("new") == 1 and not sw.startswith(b"HTTP/1.1 100 "):
            m = case["req"]["method"]
            jobs.append((H.Cfg(response=True, lax=True, read_until_eof=True, with_body=(m != "HEAD"),
                               resp_method=m.encode()), sw, "response"))
        for cfg, data, what in jobs:
            if len(data) > 6000:
                continue
            segs = [data] if rng.random() < 0.3 else H.cuts_random(rng, data, rng.randint(1, 4))
            eof = what == "response"
            impl, _ = H.run_impl(cfg, segs, eof)
            lines.append(H.model_line(cfg, segs, eof))
            meta.append((case, impl, what))
            # the same message cut off by the end of the connection (every kind of position: chunk edges included)
            j = data.find(b"\r\n\r\n")
            if j > 0 and len(data) > j + 5:
                edges = [m.end() + j + 4 for m in re.finditer(rb"\r\n", data[j + 4:])]
                cut = rng.choice(edges) if edges and rng.random() < 0.6 else rng.randrange(j + 4, len(data))
                tsegs = [data[:cut]]
                impl2, _ = H.run_impl(cfg, tsegs, True)
                lines.append(H.model_line(cfg, tsegs, True))
                meta.append((case, impl2, what + "-truncated+eof"))
    outs = ctx.model(lines)
    if outs is None:
        return
    for (case, impl, what), o in zip(meta, outs):
        ctx.hit("wire-parse:" + what)
        ctx.compare(case, impl, o, f"real parser on the recorded {what} wire vs Aio.Http.feed")


# ------------------------------------------------------------------------------ entry points
def make_files(tmpdir):
    for n in [0, 1, 100, 2049, 65537]:
        with open(os.path.join(tmpdir, f"f{n}.bin"), "wb") as f:
            f.write(blob(n, 16))


def corpus_cases():
    d = os.path.join(os.path.dirname(os.path.dirname(os.path.abspath(__file__))), "corpus", "C02")
    out = []
    if os.path.isdir(d):
        for fn in sorted(os.listdir(d)):
            if fn.endswith(".json"):
                with open(os.path.join(d, fn)) as f:
                    j = json.load(f)
                if "findings" in j:
                    continue  # proposed_known_findings.json
                out.append(j.get("case", j))
    return out


class _Logging:
    """server-side exceptions are observed through the `aiohttp.server` logger: make sure logging is
    enabled while exchanges run (the runner disables it globally) and that nothing is printed"""

    def __enter__(self):
        self.prev = logging.root.manager.disable
        logging.disable(logging.NOTSET)
        logging.getLogger("aiohttp.access").disabled = True
        logging.getLogger("asyncio").disabled = True
        lg = logging.getLogger("aiohttp")
        if not any(isinstance(h, logging.NullHandler) for h in lg.handlers):
            lg.addHandler(logging.NullHandler())
        lg.propagate = False
        return self

    def __exit__(self, *a):
        logging.disable(self.prev)


def _guarded(ctx, step, fn):
    """post-processing of observations must not crash the check either: an exception there means the observations of
    this tree have a shape the comparison never met — reported as a correspondence failure, not as exit 2"""
    from .common.guard import MachineryError
    try:
        fn()
    except MachineryError:
        raise
    except Exception as e:  # noqa
        tb = traceback.extract_tb(e.__traceback__)
        where = "; ".join(f"{os.path.basename(f.filename)}:{f.lineno} {f.name}" for f in tb[-3:])
        ctx.mismatch({"step": step}, f"{type(e).__name__}: {e!s:.200} ({where})", "comparison completed", f"observer exception in {step}")


def check(ctx):
    with _Logging():
        _check(ctx)


def _check(ctx):
    rng = ctx.rng
    with tempfile.TemporaryDirectory(prefix="c02-") as tmpdir:
        make_files(tmpdir)
        # flow control / sock_read timer / failing upload sources (oracle + the `_write_bytes` decision table)
        fcases = c02flow.check(ctx, lambda: ctx.time_left() is not None and ctx.time_left() < 30,
                               extra=[c for c in corpus_cases() if c.get("kind") in c02flow.KINDS])
        _guarded(ctx, "compare_upfail", lambda: compare_upfail(ctx, fcases))
        cases = [c for c in corpus_cases() if c.get("kind") not in c02flow.KINDS]
        cases += systematic_cases(ctx)
        n = 700 if ctx.quick else 12000
        for i in range(n):
            cases.append(gen_case(rng, big_ok=(i % 3 != 0)))
        cases += single_cut_cases(ctx, tmpdir)
        lines, pending, samples = [], [], []
        for i, case in enumerate(cases):
            if ctx.time_left() is not None and ctx.time_left() < 8:
                ctx.notes.append(f"stopped after {i} of {len(cases)} cases: time budget")
                break
            mark = (len(lines), len(pending))
            try:
                obs = judge(ctx, case, tmpdir, lines, pending)
            except Exception as e:  # noqa: a verdict, never a crash (see c02flow.check)
                from .common.guard import MachineryError
                if isinstance(e, MachineryError):
                    raise
                del lines[mark[0]:]; del pending[mark[1]:]
                tb = traceback.extract_tb(e.__traceback__)
                where = "; ".join(f"{os.path.basename(f.filename)}:{f.lineno} {f.name}" for f in tb[-3:])
                ctx.violation(f"C02/exchange-broke-the-observer/main/{type(e).__name__}", case,
                              f"running or judging this exchange raised {type(e).__name__}: {e!s:.200} ({where})")
                ctx.hit("observer-exception:" + type(e).__name__)
                continue
            nontriv = bool(obs.get("wires")) or bool(obs.get("client_refused"))
            ctx.case(("x", case), nontrivial=nontriv,
                     sample={"case": case, "caller": {k: (v if not isinstance(v, bytes) else len(v)) for k, v in obs.get("cli", {}).items() if k in ("status", "exc", "body")}} if i % 211 == 0 else None)
            if i % 9 == 0:
                samples.append((case, obs))
        for step, fn in (("compare_all", lambda: compare_all(ctx, lines, pending)), ("feed_lines", lambda: feed_lines(ctx, samples))):
            _guarded(ctx, step, fn)


def systematic_cases(ctx):
    """small exhaustive grid over the decision inputs (both tiers): version x method x status x response kind x
    chunked x compress x force_close, each with a tiny body, whole and 1-byte segmentation"""
    out = []
    segs = [[["whole"], ["whole"]], [["k", 1], ["k", 1]]] if not ctx.quick else [[["k", 3], ["k", 2]]]
    kinds = [("response", {}), ("response", {"nobody": True}), ("text", {}), ("payload", {}), ("agen", {"parts": 2}),
             ("stream", {"parts": 2, "obey_empty": True}), ("file", {})]
    for ver in ([1, 1], [1, 0]):
        for method in ("GET", "HEAD", "POST"):
            for status in (200, 204, 304):
                for kind, extra in kinds:
                    for chunked in (False, True):
                        for comp in (None, "deflate") if not ctx.quick else (None,):
                            for fc in (False, True) if not ctx.quick else (False,):
                                for seg in segs:
                                    if kind == "file" and status != 200:
                                        continue
                                    rs = {"kind": kind, "status": status, "n": 100 if kind == "file" else 5, "hdrs": []}
                                    rs.update(extra)
                                    if extra.get("nobody"):
                                        rs["n"] = 0
                                    if chunked:
                                        rs["chunked"] = True
                                    if comp:
                                        rs["compress"] = comp
                                    if fc:
                                        rs["force_close"] = True
                                    rq = {"method": method, "path": "/s", "hdrs": [],
                                          "body": {"kind": "bytes", "n": 3} if method == "POST" else {"kind": "none"}}
                                    out.append({"ver": ver, "fc": False, "seg": seg, "req": rq, "resp": rs})
    # request side grid
    for ver in ([1, 1], [1, 0]):
        for method in ("GET", "POST", "DELETE"):
            for kind in ("none", "bytes", "agen", "bytesio", "form"):
                for n in (0, 3):
                    for chunked in (None, True, False):
                        for comp in (None, "deflate") if not ctx.quick else (None,):
                            for exp100 in (False, True):
                                if exp100 and ver == [1, 0]:
                                    continue
                                rq = {"method": method, "path": "/q?x=1", "hdrs": [], "body": {"kind": kind, "n": n}}
                                if kind == "agen":
                                    rq["body"]["parts"] = 2
                                if chunked is not None:
                                    rq["chunked"] = chunked
                                if comp:
                                    rq["compress"] = comp
                                if exp100:
                                    rq["expect100"] = True
                                out.append({"ver": ver, "fc": False, "seg": [["k", 2], ["k", 5]], "req": rq,
                                            "resp": {"kind": "text", "status": 200, "n": 4, "hdrs": []}})
    return out


CUT_BASES = [
    # (request, response) pairs that exercise every framing on both directions with small messages
    ({"method": "GET", "path": "/c?x=1", "hdrs": [["X-A", "1"]], "body": {"kind": "none"}}, {"kind": "text", "status": 200, "n": 15, "hdrs": []}),
    ({"method": "POST", "path": "/c", "hdrs": [], "body": {"kind": "bytes", "n": 15}}, {"kind": "stream", "status": 200, "n": 15, "parts": 3, "obey_empty": True, "hdrs": []}),
    ({"method": "POST", "path": "/c", "hdrs": [], "body": {"kind": "agen", "n": 15, "parts": 3}}, {"kind": "agen", "status": 201, "n": 15, "parts": 2, "hdrs": [["X-R", "1"]]}),
    ({"method": "PUT", "path": "/c", "hdrs": [], "body": {"kind": "bytes", "n": 15}, "expect100": True}, {"kind": "response", "status": 204, "n": 0, "nobody": True, "hdrs": []}),
    ({"method": "HEAD", "path": "/c", "hdrs": [], "body": {"kind": "none"}}, {"kind": "text", "status": 200, "n": 15, "hdrs": []}),
    ({"method": "POST", "path": "/c", "hdrs": [], "body": {"kind": "str", "n": 15}, "compress": "deflate"}, {"kind": "text", "status": 200, "n": 100, "hdrs": [], "compress": "gzip"}),
    ({"method": "GET", "path": "/c", "hdrs": [], "body": {"kind": "none"}}, {"kind": "response", "status": 304, "n": 0, "nobody": True, "hdrs": [["Etag", "\"x\""]]}),
    ({"method": "POST", "path": "/c", "hdrs": [], "body": {"kind": "form", "n": 2}}, {"kind": "file", "status": 200, "n": 100, "hdrs": []}),
]


def single_cut_cases(ctx, tmpdir):
    """every single cut of the request bytes and of the response bytes of small exchanges (thorough: all
    offsets; quick: a sample), HTTP/1.1 and 1.0"""
    out = []
    for ver in ([1, 1], [1, 0]):
        for rq, rs in CUT_BASES:
            if rq.get("expect100") and ver == [1, 0]:
                continue
            base = {"ver": ver, "fc": False, "seg": [["whole"], ["whole"]], "req": rq, "resp": rs}
            try:
                obs = run_case(base, tmpdir)
            except Exception:  # noqa: the base exchange is judged when it runs as a case of its own
                obs = {}
            w = (obs.get("wires") or [(b"", b"")])[0]
            l1, l2 = len(w[0]), len(w[1])
            offs1, offs2 = list(range(1, l1)), list(range(1, l2))
            if ctx.quick:
                offs1 = ctx.rng.sample(offs1, min(3, len(offs1))); offs2 = ctx.rng.sample(offs2, min(3, len(offs2)))
            for i in offs1:
                out.append(dict(base, seg=[["cuts", [i]], ["whole"]]))
            for j in offs2:
                out.append(dict(base, seg=[["whole"], ["cuts", [j]]]))
    if not ctx.quick:
        ctx.extra["single_cuts"] = f"{len(out)} exchanges: every single cut offset of both directions of {len(CUT_BASES)} small exchanges x 2 versions"
    return out


def compare_upfail(ctx, fcases):
    """`ClientRequest._write_bytes` ending vs Aio.C02.writeBytesEnd on the chunked uploads with a failing source"""
    lines, impl = [], []
    for case, obs in fcases:
        if case["kind"] != "upfail" or case.get("framing") != "chunked" or not obs.get("wires"):
            continue
        exc = case.get("exc") if case.get("fail_after") is not None else None
        oc = "ok" if exc is None else "oserror" if exc in ("OSError", "TimeoutError") else "exception"
        h = ref_split_head(obs["wires"][0][0])
        d = ref_dechunk(h[2]) if h else None
        eof = d is not None and (d[1] == b"" or d[1].startswith(b"POST /after "))
        fails = bool(obs.get("cli", {}).get("exc"))
        lines.append("wend " + oc)
        impl.append((case, f"eof={b01(eof)} fails={b01(fails)}"))
    outs = ctx.model(lines)
    if outs is None:
        return
    for (case, i), o in zip(impl, outs):
        ctx.compare(case, i, " ".join(o.split(" ")[:2]), "ClientRequest._write_bytes ending vs Aio.C02.writeBytesEnd")


def replay(ctx, case):
    try:
        _replay(ctx, case)
    except Exception as e:  # noqa: a verdict, never a crash
        from .common.guard import MachineryError
        if isinstance(e, MachineryError):
            raise
        ctx.violation(f"C02/exchange-broke-the-observer/replay/{type(e).__name__}", case, f"replaying this exchange raised {type(e).__name__}: {e!s:.200}")


def _replay(ctx, case):
    if case.get("kind") in c02flow.KINDS:
        with _Logging():
            c02flow.oracle(ctx, case, c02flow.run_case(case))
        return
    with tempfile.TemporaryDirectory(prefix="c02-") as tmpdir, _Logging():
        make_files(tmpdir)
        try:
            obs = run_case(case, tmpdir)
        except ValueError as e:
            obs = {"client_refused": innermost(e), "cli": {}, "srv": [], "state": {}}
        direct_oracle(ctx, case, obs)
