"""C01 — request framing is unambiguous: one wire message, one parsed request.

Implementation: aiohttp.http_parser.HttpRequestParserPy (+ web_protocol.RequestHandler for the
"answered with a client error" clause).  Model: lean/AioModel/Http.lean.  Specification:
lean/AioProps/HttpSpec.lean, Python twin harness/common/rfc9112.py.
"""
import asyncio
from .common import httpparse as H
from .common import rfc9112
from .common.httpgen import generate as _gen
from .common.codec import hx, unhx

PROPERTY = "C01"
LEAN_MODULES = ["AioProps.C01", "AioProps.C01Run", "AioProps.C01Complete", "AioProps.C01Body", "AioProps.C01Length", "AioProps.C01Closed"]
THEOREMS = [
    "Aio.Http.accepted_request_is_strict",
    "Aio.Http.cl_with_te_rejected",
    "Aio.Http.content_length_decimal",
    "Aio.Http.te_single_final_chunked",
    "Aio.Http.obs_fold_rejected",
    "Aio.Http.field_bytes_clean",
    "Aio.Http.bare_lf_request_line_rejected",
    "Aio.Http.host_required_http11",
    "Aio.Http.stream_messages_strict",
    "Aio.Http.feedEof_messages_strict",
    "Aio.Http.run_messages_strict",
    "Aio.Http.chunk_size_line_strict",
    "Aio.Http.parseHeaders_complete",
    "Aio.Http.strict_request_is_accepted",
    "Aio.Http.chunkedLoop_body",
    "Aio.Http.chunked_body_is_strict",
    "Aio.Http.content_length_body_exact",
    "Aio.Http.content_length_body_events",
    "Aio.Http.closed_feedLoop",
    "Aio.Http.closed_emits_nothing",
    "Aio.Http.swallowed_error_closes",
]
RULE = ("request streams from the grammar (1-3 pipelined requests: origin/absolute/asterisk/authority targets, CL and "
        f"chunked bodies with extensions and trailers) and each of the {len(H.MUTATIONS)} mutation classes (duplicate/sign/"
        "space/underscore/non-ASCII-digit/empty CL, CL+TE, TE lists, LF for CRLF at every line, obs-fold, CTLs in name/value/"
        "target, whitespace around names, chunk-size/extension/CRLF/trailer damage, Host absent/twice/empty, byte flips/inserts/"
        "deletes, ...); fed whole and with two random segmentations, limits default or drawn near the line lengths. Compared: "
        "real parser vs Lean model (all tokens), real parser vs independent strict RFC 9112 reader (messages, fields, body "
        "bytes, accept/reject), real server (AppRunner + in-memory transport) status codes vs parser verdict. non-trivial = "
        "at least one message or an error; distinct by (config, stream, cuts).")
TRUSTED_BASE = [
    "yarl accept/reject of a request-target is an oracle column",
    "the strict reference reader harness/common/rfc9112.py / lean/AioProps/HttpSpec.lean is my reading of RFC 9112 §2-7, RFC 9110 §5",
    "the method is compared after upper-casing (aiohttp normalises the method to upper case by design)",
]
ASSUMPTIONS = [
    "a request with Transfer-Encoding 'x, chunked' is framed as chunked (the unsupported inner coding is not a framing question)",
]


def generate(repo):
    return _gen(repo)


def impl_messages(o):
    """[(struct, body bytes, complete?)] from the structured events of run_impl"""
    out = []
    for e in o["events"]:
        if e[0] == "M":
            out.append([e[2], bytearray(), False, False])
        elif out and e[0] == "D":
            out[-1][1] += e[1]
        elif out and e[0] == "F":
            out[-1][2] = True
        elif out and e[0] == "X":
            out[-1][3] = True
    return out


def oracle_parser(ctx, cfg, data, segs, o, default_limits):
    case = {"cfg": cfg.spec(), "stream": hx(data), "cuts": [len(s) for s in segs]}
    if o["err"] and o["err"].startswith("E_OTHER"):
        ctx.violation(f"C10/escaped-exception/{o['err']}", case, f"non-HTTP exception left feed_data: {o['err']}")
        return
    if o.get("hdr_view"):
        i, got_, want_ = o["hdr_view"]
        ctx.violation("C01/message-differs/headers-view-is-not-the-message-s-own-fields", case,
                      f"message #{i}: at the end of the run message.headers shows {got_!r} but its field lines are {want_!r}")
        return
    ref, status, pos = rfc9112.read_requests(data)
    got = impl_messages(o)
    # (1) everything the implementation delivered must be the strict reading
    for i, (st, body, complete, bad) in enumerate(got):
        if i >= len(ref):
            # the strict reader stopped earlier: the implementation gave an interpretation to bytes the
            # strict reading rejects / has not completed / that follow a close or protocol switch
            if status.startswith("bad"):
                ctx.violation("C01/accepted-nonstrict/" + status[4:].replace(" ", "-"), case,
                              f"message #{i} delivered ({st[0]!r} {st[1][:40]!r}) but the strict reading fails: {status}")
            elif status == "close" and not o["err"]:
                ctx.violation("C01/accepted-after-close", case, f"message #{i} delivered after a closing request")
            # status == "switch": a CONNECT / Upgrade request only *asks* for a protocol switch; the server may
            # decline and go on with HTTP/1, so later messages are not judged here
            elif status == "incomplete":
                # head delivered before its body is complete: fine as long as it is the head the strict reader is inside of
                pass
            break
        r = ref[i]
        if r.get("bad_body"):
            # head is fine, the body framing is not: the message must not complete successfully
            if (st[0].upper(), st[1], st[2], list(st[3])) != (r["method"].upper(), r["target"], r["version"], r["fields"]):
                ctx.violation("C01/message-differs", case, f"message #{i}: parsed {st!r} but strict head is {r['method']!r} {r['target']!r}")
            elif complete and not bad and not o["err"]:
                ctx.violation("C01/accepted-nonstrict/" + status[4:].replace(" ", "-").replace("/", "-"), case,
                              f"message #{i} completed although the strict reading of its body fails: {status}")
            break
        if (st[0].upper(), st[1], st[2], list(st[3])) != (r["method"].upper(), r["target"], r["version"], r["fields"]):
            ctx.violation("C01/message-differs", case, f"message #{i}: parsed {st!r} but strict reading is {r['method']!r} {r['target']!r} {r['fields']!r}")
            break
        if complete and bytes(body) != r["body"] and not (r["method"].upper() == b"CONNECT"):
            ctx.violation("C01/body-differs", case, f"message #{i}: body {bytes(body)[:40]!r} vs strict {r['body'][:40]!r}")
            break
        if not complete and not bad and not r["body"].startswith(bytes(body)) and r["method"].upper() != b"CONNECT":
            ctx.violation("C01/body-not-prefix", case, f"message #{i}: partial body is not a prefix of the strict body")
            break
    # (2) what the strict reading accepts (within limits, target accepted by yarl) must be accepted
    lines_ = data.split(b"\r\n")
    if max(len(l) for l in lines_) > 8000 or any(blk.count(b"\r\n") > 120 for blk in data.split(b"\r\n\r\n")):
        default_limits = False   # the strict reader knows no limits
    import re as _re
    if _re.search(rb"(?i)content-length:[ \t]*[0-9]{4301}", data):
        default_limits = False   # int() conversion limit: treated like a size limit (safe rejection)
    if default_limits and H.rejected(o) and len(segs) == 1:
        # each strictly valid complete request, fed on its own to a fresh parser, must be accepted
        for k, r in enumerate(ref):
            if r.get("bad_body") or "span" not in r:
                continue
            tgt = r["target"].decode("utf-8", "surrogateescape")
            is_connect = r["method"].upper() == b"CONNECT"
            star = r["target"] == b"*" and r["method"].upper() == b"OPTIONS"
            if not (star or H.url_ok(is_connect, tgt)):
                continue
            one = data[r["span"][0]:r["span"][1]]
            _, o1 = H.run_impl(H.Cfg(), [one], False)
            if H.rejected(o1):
                ctx.violation("C01/rejected-strict-valid", {"cfg": H.Cfg().spec(), "stream": hx(one), "cuts": [len(one)]},
                              f"strictly valid request rejected with {o1['err']}: {one[:80]!r}")
                break


# ------------------------------------------------------------------ server level
_srv = {}


def server_run(streams):
    """feed each stream to a fresh connection of a real aiohttp server; → [(out bytes, closed, loop exceptions)]"""
    from aiohttp import web
    from .common.vloop import run
    from .common.memtransport import MemTransport
    res = []

    async def main():
        async def handler(request):
            await request.read()
            return web.Response()
        app = web.Application()
        app.router.add_route("*", "/{tail:.*}", handler)
        # auto_decompress off: this oracle is about framing; a garbage body under Content-Encoding: gzip is C09's subject
        runner = web.AppRunner(app, auto_decompress=False)
        await runner.setup()
        loop = asyncio.get_running_loop()
        for s in streams:
            proto = runner.server()
            tr = MemTransport(loop, proto)
            proto.connection_made(tr)
            escaped = None
            try:
                proto.data_received(s)
            except BaseException as e:  # noqa
                escaped = type(e).__name__
            await asyncio.sleep(30)      # virtual: lingering + keep-alive decisions settle
            res.append((bytes(tr.out), tr.closing or tr.closed, escaped))
            if not tr.closing:
                tr.peer_close()
            await asyncio.sleep(0)
        await runner.cleanup()
    excs = []
    run(main, excs=excs)
    return res, excs


def split_responses(out, methods=()):
    """status codes of the responses in `out` (responses here always carry Content-Length).
    `methods`: the request methods in order — the j-th final (non-1xx) response answers the j-th
    request, and a response to HEAD carries Content-Length but no body."""
    codes, pos, j = [], 0, 0
    while pos < len(out):
        i = out.find(b"\r\n\r\n", pos)
        if i < 0 or not out.startswith(b"HTTP/", pos):
            codes.append(-1); break
        head = out[pos:i]
        try:
            code = int(head.split(b" ", 2)[1])
        except Exception:
            codes.append(-1); break
        n = 0
        for l in head.split(b"\r\n")[1:]:
            if l.lower().startswith(b"content-length:"):
                n = int(l.split(b":", 1)[1])
        if code >= 200:
            if j < len(methods) and methods[j].upper() == b"HEAD":
                n = 0
            j += 1
        codes.append(code); pos = i + 4 + n
    return codes


def oracle_server(ctx, data, o_parser, out, closed, escaped):
    case = {"cfg": H.Cfg().spec(), "stream": hx(data), "cuts": [len(data)], "server": True}
    if escaped:
        ctx.violation(f"C05/exception-escaped-data_received/{escaped}", case, f"{escaped} left RequestHandler.data_received")
        return
    codes = split_responses(out, [e[2][0] for e in o_parser["events"] if e[0] == "M"])
    if -1 in codes:
        ctx.violation("C01/server/garbled-response-stream", case, f"response stream does not split into responses: {out[:80]!r}")
        return
    if o_parser["err"] is None and not closed:
        # every complete request must have been answered while the connection stays open
        n_complete, cur = 0, None
        for e in o_parser["events"]:
            if e[0] == "M":
                if cur == "nopayload":
                    n_complete += 1
                cur = "nopayload" if e[1].split(";")[0].endswith(",0") else "payload"
                if e[2][0].upper() == b"CONNECT":
                    cur = "nopayload"   # the head alone must be answered (tunnel request)
            elif e[0] == "F" and cur == "payload":
                n_complete += 1; cur = None
        if cur == "nopayload":
            n_complete += 1
        finals = [c for c in codes if c >= 200]
        if len(finals) < n_complete:
            ctx.violation("C05/server/request-unanswered-connection-open", case,
                          f"{n_complete} complete requests parsed, {len(finals)} final responses, connection left open")
    # independent of what the parser says: a stream (delivered in one read) whose strict reading fails is answered
    # with a client error — "instead of being given some interpretation"
    _, status, _ = rfc9112.read_requests(data)
    # (not while the parser is still waiting for the rest of a line / header block: it may notice later than the strict reader)
    if status.startswith("bad") and not o_parser["pending"] and (not codes or not (400 <= codes[-1] < 500)):
        ctx.violation("C01/server/strict-malformed-not-answered-4xx/" + status[4:].replace(" ", "-").replace("/", "-"), case,
                      f"the strict reading fails ({status}) but the responses are {codes} (closed={closed})")
        return
    if o_parser["err"] is not None:
        # parse error ⇒ a client error is sent and the connection is closed
        if not codes or not (400 <= codes[-1] < 500):
            ctx.violation("C01/server/malformed-not-answered-4xx", case, f"parser rejects with {o_parser['err']} but responses are {codes}")
        elif not closed:
            ctx.violation("C01/server/malformed-connection-left-open", case, f"4xx sent but connection still open; responses {codes}")


# ------------------------------------------------------------------ server level: what the handler sees
def gen_pipeline(rng):
    """2-5 strictly valid requests with unique targets; some ask for an Upgrade (which this server declines), some carry
    a body whose *content* cannot be processed although its framing is fine (undecodable Content-Encoding, a chunk
    extension / trailer line longer than the limits, too many trailers) and whose bytes spell further requests.
    → (stream, [(start, end)] spans, cut candidates)"""
    import gzip
    k = rng.choice([2, 2, 3, 3, 4, 5])
    out, spans = b"", []
    for i in range(k):
        smug = b"GET /smuggled%d HTTP/1.1\r\nHost: h\r\n\r\n" % i
        m = rng.choice([b"GET", b"POST", b"POST", b"PUT"])
        hs = [(b"Host", b"h")]
        if rng.random() < 0.35:
            hs += [(b"Connection", rng.choice([b"Upgrade", b"upgrade", b"keep-alive, Upgrade"])), (b"Upgrade", rng.choice([b"websocket", b"h2c", b"foo/2"]))]
        body = b""
        r = rng.random()
        if rng.random() < 0.4:
            hs.append((b"X-Read", b"0"))
        if m != b"GET" or r < 0.2:
            kind = rng.choice(["cl", "cl", "chunked", "chunked", "gzip-bad", "gzip-ok", "deflate-bad", "long-ext", "long-trailer", "many-trailers", "cl0"])
            plain = rng.choice([b"a=1", b"x" * rng.randint(1, 40), smug, b"0\r\n\r\n" + smug])
            if kind == "cl":
                hs.append((b"Content-Length", b"%d" % len(plain))); body = plain
            elif kind == "cl0":
                hs.append((b"Content-Length", b"0"))
            elif kind == "chunked":
                hs.append((b"Transfer-Encoding", b"chunked"))
                cut = rng.randint(0, len(plain))
                body = H.chunked_body(rng, [plain[:cut], plain[cut:]], ext=True, trailers=[(b"X-T", b"v")] if rng.random() < 0.3 else None)
            elif kind in ("gzip-bad", "deflate-bad"):
                garbage = bytes(rng.randrange(256) for _ in range(rng.randint(1, 12))) + smug * rng.choice([1, 2])
                hs += [(b"Content-Encoding", b"gzip" if kind == "gzip-bad" else b"deflate"), (b"Content-Length", b"%d" % len(garbage))]
                body = garbage
            elif kind == "gzip-ok":
                z = gzip.compress(plain)
                hs += [(b"Content-Encoding", b"gzip"), (b"Content-Length", b"%d" % len(z))]; body = z
            elif kind == "long-ext":
                hs.append((b"Transfer-Encoding", b"chunked"))
                data = smug + b"y" * 3
                body = b"%x;" % len(data) + b"e" * rng.choice([8185, 8190, 8200, 9000]) + b"\r\n" + data + b"\r\n0\r\n\r\n"
            elif kind == "long-trailer":
                hs.append((b"Transfer-Encoding", b"chunked"))
                body = b"3\r\nabc\r\n0\r\nX-T: " + b"t" * rng.choice([8185, 8190, 8200, 9000]) + b"\r\n\r\n"
            elif kind == "many-trailers":
                hs.append((b"Transfer-Encoding", b"chunked"))
                body = b"3\r\nabc\r\n0\r\n" + b"".join(b"X-%d: v\r\n" % j for j in range(rng.choice([100, 127, 128, 129, 200]))) + b"\r\n"
        if rng.random() < 0.08:
            hs.append((b"Connection", b"close")) if not any(k_ == b"Connection" for k_, _ in hs) else None
        rng.shuffle(hs)
        head = m + b" /r%d HTTP/1.1\r\n" % i + b"".join(k_ + b": " + v + b"\r\n" for k_, v in hs) + b"\r\n"
        spans.append((len(out), len(out) + len(head), len(out) + len(head) + len(body)))
        out += head + body
    cands = set()
    for a, b, c in spans:
        for q in (a, b, c, b + 1, b + 5, b + 13, c - 1, c - 20, (b + c) // 2, a + 7):
            if 0 < q < len(out):
                cands.add(q)
    return out, spans, sorted(cands)


def server_seen(cases):
    """each case (stream, cuts, gaps): feed the segments with virtual-time gaps to a fresh connection of a real server whose
    handler records what it is given → [(seen, out bytes, closed, escaped)]; seen = [(method, raw_path, body | None)]"""
    from aiohttp import web
    from .common.vloop import run
    from .common.memtransport import MemTransport
    res = []

    async def main():
        cur = {}

        async def handler(request):
            rec = [request.method.encode(), request.raw_path.encode("utf-8", "surrogateescape"), None]
            cur["seen"].append(rec)
            if len(cur["seen"]) > 40:
                request.transport.close()          # a connection that keeps producing requests: stop it
                raise web.HTTPBadRequest()
            if request.headers.get("X-Slow") == "1":     # a handler that is still running when more input arrives
                await asyncio.sleep(1)
            if request.headers.get("X-Read") != "0":     # a handler may ignore the body
                rec[2] = await request.read()
            return web.Response(text="ok")
        app = web.Application()
        app.router.add_route("*", "/{tail:.*}", handler)
        runner = web.AppRunner(app)
        await runner.setup()
        loop = asyncio.get_running_loop()
        for data, cuts, gaps in cases:
            cur["seen"] = []
            proto = runner.server()
            tr = MemTransport(loop, proto)
            proto.connection_made(tr)
            escaped, pos = None, 0
            for n, gap in zip(cuts, gaps):
                if tr.closing:
                    break
                try:
                    proto.data_received(data[pos:pos + n])
                except BaseException as e:  # noqa
                    escaped = type(e).__name__; break
                pos += n
                await asyncio.sleep(gap)
            await asyncio.sleep(30)
            res.append(([tuple(r) for r in cur["seen"]], bytes(tr.out), tr.closing or tr.closed, escaped))
            if not tr.closing:
                tr.peer_close()
            await asyncio.sleep(0)
        await runner.cleanup()
    excs = []
    run(main, excs=excs)
    return res, excs


def oracle_seen(ctx, data, cuts, gaps, seen, escaped):
    import gzip, zlib
    case = {"kind": "pipeline", "stream": hx(data), "cuts": cuts, "gaps": gaps}
    if escaped:
        ctx.violation(f"C05/exception-escaped-data_received/{escaped}", case, f"{escaped} left RequestHandler.data_received")
        return
    ref, status, pos = rfc9112.read_requests(data, through_upgrade=True)
    for i, (m, path, body) in enumerate(seen):
        if i >= len(ref):
            if status == "incomplete" and i == len(ref) and data[pos:].lstrip(b"\r\n").startswith(m + b" " + path + b" "):
                continue     # the head of the message the strict reader is still inside of
            ctx.violation("C01/server/handler-saw-request-not-on-the-wire", case,
                          f"request #{i} given to the handler ({m!r} {path[:40]!r}) but the strict reading of the stream has {len(ref)} requests (status {status}): "
                          f"seen {[s[1][:16] for s in seen][:8]}")
            return
        r = ref[i]
        if (m.upper(), path) != (r["method"].upper(), r["target"]):
            ctx.violation("C01/server/handler-request-differs", case, f"request #{i}: handler got {m!r} {path[:40]!r}, strict reading has {r['method']!r} {r['target'][:40]!r}")
            return
        if body is not None and not r.get("bad_body"):
            want = r["body"]
            enc = b",".join(v for k_, v in r["fields"] if k_.lower() == b"content-encoding").lower()
            try:
                if enc == b"gzip":
                    want = gzip.decompress(want)
                elif enc == b"deflate":
                    want = zlib.decompress(want)
            except Exception:
                ctx.violation("C01/server/undecodable-body-read-succeeded", case, f"request #{i}: read() returned {body[:30]!r} for an undecodable {enc!r} body")
                return
            if body != want:
                ctx.violation("C01/server/handler-body-differs", case, f"request #{i}: handler read {body[:40]!r}, strict body is {want[:40]!r}")
                return


def check_server_pipelines(ctx):
    rng = ctx.rng
    cases = []
    corpus = [
        # a declined Upgrade with a pipelined tail, then another declined Upgrade: every request once
        (b"GET /r0 HTTP/1.1\r\nHost: h\r\nConnection: Upgrade\r\nUpgrade: foo\r\n\r\nPOST /r1 HTTP/1.1\r\nHost: h\r\nContent-Length: 3\r\n\r\nabc"
         b"GET /r2 HTTP/1.1\r\nHost: h\r\nConnection: Upgrade\r\nUpgrade: foo\r\n\r\nGET /r3 HTTP/1.1\r\nHost: h\r\n\r\n", None),
        # an undecodable body whose remaining bytes spell a request, cut inside the body
        (b"POST /r0 HTTP/1.1\r\nHost: h\r\nX-Read: 0\r\nContent-Encoding: gzip\r\nContent-Length: 47\r\n\r\n\x00\x01garbage!!" + b"GET /smuggled0 HTTP/1.1\r\nHost: h\r\n\r\n", 86),
    ]
    for data, cut in corpus:
        cases.append((data, [len(data)], [0]))
        for c in ([cut] if cut else range(1, len(data), 7)):
            cases.append((data, [c, len(data) - c], [1, 0]))
    n = 500 if ctx.quick else 6000
    for _ in range(n):
        data, spans, cands = gen_pipeline(rng)
        ctx.hit("pipeline-streams")
        for _ in range(3):
            kcuts = rng.choice([0, 1, 1, 2, 3])
            pts = sorted(set(rng.choice(cands) if rng.random() < 0.7 else rng.randrange(1, len(data)) for _ in range(kcuts)))
            cuts = [b - a for a, b in zip([0] + pts, pts + [len(data)])]
            gaps = [rng.choice([0, 0, 0.01, 1, 5]) for _ in cuts]
            cases.append((data, cuts, gaps))
    res, excs = server_seen(cases)
    for (data, cuts, gaps), (seen, out, closed, escaped) in zip(cases, res):
        ctx.case(("pipe", data, tuple(cuts), tuple(gaps)), nontrivial=bool(seen))
        ctx.hit(f"pipeline-seen:{min(len(seen), 6)}")
        oracle_seen(ctx, data, cuts, gaps, seen, escaped)
    if excs:
        ctx.violation("C05/loop-exception-handler-called", {"n": len(excs), "first": repr(excs[0])[:300]}, f"{len(excs)} exceptions reached the event loop (pipelines)")
    ctx.extra["server_pipeline_runs"] = len(cases)


def _check(ctx):
    rng = ctx.rng
    lines, pending, server_cases = [], [], []
    n = 6000 if ctx.quick else 60000
    corpus = [b"GET /a\nb HTTP/1.1\r\nHost: x\r\n\r\n", b"GET http://[::1 HTTP/1.1\r\nHost: x\r\n\r\n",
              b"GET / HTTP/1.1\r\nHost: x\r\nContent-Length: 3\r\nTransfer-Encoding: chunked\r\n\r\n0\r\n\r\n",
              b"POST / HTTP/1.1\r\nHost: x\r\nContent-Length: +3\r\n\r\nabc", b"GET / HTTP/1.1\r\n\r\n",
              b"GET / HTTP/1.0\r\n\r\nGET /smuggled HTTP/1.1\r\nHost: x\r\n\r\n"]
    corpus = corpus + [d for d, k, r in H.deterministic_mutants(16) if not r]     # fixed stream: first on every seed
    for i in range(n + len(corpus)):
        if i < len(corpus):
            data, kind = corpus[i], "corpus"
        else:
            k = rng.choice([1, 1, 2, 3])
            data = b"".join(H.gen_request(rng) for _ in range(k))
            kind = "valid"
            if rng.random() < 0.7:
                data, kind = H.mutate(rng, data)
                if rng.random() < 0.15:
                    data, k2 = H.mutate(rng, data); kind += "+" + k2
        cfg = H.Cfg()
        default_limits = True
        if rng.random() < 0.25:
            cfg = H.near_limits(rng, data, cfg); default_limits = False
        segss = [[data]]
        if len(data) >= 3:
            segss.append(H.cuts_random(rng, data, 1)); segss.append(H.cuts_random(rng, data, rng.randint(2, 5)))
        for segs in segss:
            canon, o = H.run_impl(cfg, segs, False)
            ctx.case((cfg.key(), data, tuple(len(s) for s in segs)), nontrivial=bool(o["events"]) or o["err"] is not None,
                     sample={"stream": data[:140].decode("latin1"), "kind": kind, "impl": canon[:140]} if ctx.evaluations % 997 == 0 else None)
            lines.append(H.model_line(cfg, segs, False))
            pending.append(({"cfg": cfg.spec(), "stream": hx(data), "cuts": [len(s) for s in segs]}, canon))
            oracle_parser(ctx, cfg, data, segs, o, default_limits)
            if len(segs) == 1 and default_limits and (i < len(corpus) or i % (3 if ctx.quick else 2) == 0):
                server_cases.append((data, o))
        ctx.hit("kind:" + kind.split("+")[0])
        ctx.hit("verdict:" + (o["err"] or ("accepted" if H.accepted(o) else "incomplete")))
    outs = ctx.model(lines)
    if outs is not None:
        for (case, canon), m in zip(pending, outs):
            ctx.compare(case, canon, m, "HttpRequestParser vs Aio.Http.feed")
    # server level
    res, excs = server_run([d for d, _ in server_cases])
    for (data, o), (out, closed, escaped) in zip(server_cases, res):
        oracle_server(ctx, data, o, out, closed, escaped)
        ctx.case(("srv", data), nontrivial=bool(out))
    if excs:
        ctx.violation("C05/loop-exception-handler-called", {"n": len(excs), "first": repr(excs[0])[:300]}, f"{len(excs)} exceptions reached the event loop")
    ctx.extra["server_level_streams"] = len(server_cases)
    check_server_pipelines(ctx)


def _replay(ctx, case):
    if "stream" not in case:
        return
    data = unhx(case["stream"])
    if case.get("kind") == "pipeline":
        res, excs = server_seen([(data, case["cuts"], case["gaps"])])
        oracle_seen(ctx, data, case["cuts"], case["gaps"], res[0][0], res[0][3])
        return
    if case.get("server"):
        canon, o = H.run_impl(H.Cfg(), [data], False)
        res, excs = server_run([data])
        oracle_server(ctx, data, o, *res[0])
        return
    spec = case["cfg"].split(",")
    cfg = H.Cfg(int(spec[0]), int(spec[1]), int(spec[2]), spec[3] == "1", spec[4] == "1", spec[5] == "1", spec[6] == "1", unhx(spec[7]))
    segs, pos = [], 0
    for n in case["cuts"]:
        segs.append(data[pos:pos + n]); pos += n
    canon, o = H.run_impl(cfg, segs, False)
    oracle_parser(ctx, cfg, data, segs, o, cfg.max_line == 8190 and cfg.max_field == 8190 and cfg.max_headers == 128)


def check(ctx):
    try:
        _check(ctx)
    finally:
        H.hang_report(ctx)     # inputs on which the parser did not return


def replay(ctx, case):
    try:
        _replay(ctx, case)
    finally:
        H.hang_report(ctx)
