"""C17 — redirects confine credentials and terminate.

Implementation under test: the redirect loop of aiohttp.client.ClientSession._request with the
real ClientRequest / ClientResponse / CookieJar / connector pool; only sockets are replaced
(harness/common/c17pipe.py: every origin resolves to an in-memory aiohttp.web.Server) and time
(harness/common/vloop.py).
Model: lean/AioModel/C17.lean; theorems: lean/AioProps/C17.lean.
"""
import ast, asyncio, base64, inspect, io, json, os, textwrap, urllib.parse
from multidict import CIMultiDict
from .common.codec import hx, st
from .common import vloop
from .common.c17pipe import PipeConnector, make_server, make_proxy_connector

PROPERTY = "C17"
LEAN_MODULES = ["AioProps.C17"]
THEOREMS = [
    "Aio.C17.secrets_confined",
    "Aio.C17.cookie_pairs_confined",
    "Aio.C17.caller_secret_never_leaves_first_origin",
    "Aio.C17.no_resurrection",
    "Aio.C17.jar_reselected_each_hop",
    "Aio.C17.method_body_table_partial",
    "Aio.C17.at_most_max_redirects_requests",
    "Aio.C17.zero_max_redirects_is_unlimited",
    "Aio.C17.only_http_redirects_followed",
    "Aio.C17.non_http_refused",
    "Aio.C17.history_in_order_and_released_partial",
    "Aio.C17.f18_self_in_history",
    "Aio.C17.responses_all_disposed",
    "Aio.C17.faultfree_runF_is_run",
    "Aio.C17.secrets_confined_under_faults",
    "Aio.C17.at_most_max_redirects_plus_one_resend",
    "Aio.C17.one_resend_per_call",
    "Aio.C17.single_resend_exceeds_max_by_one",
    "Aio.C17.netrc_credential_is_for_this_host",
    "Aio.C17.redirect_statuses_are_the_documented_five",
]
RULE = ("a case = (method, start URL over 7 origins [same host other port / other scheme / other host / sub-domain / IP] "
        "with or without embedded credentials, caller headers incl. Authorization / Cookie / Proxy-Authorization / Host / "
        "Content-Length / Content-Type with duplicates, per-request cookies, initial jar cookies, params, body kind "
        "{none, bytes, empty bytes, str, async generator, BytesIO, urlencoded FormData, multipart FormData}, max_redirects, "
        "allow_redirects, trust_env+netrc) x a scripted chain of <= 5 responses: status {301,302,303,307,308 + non-redirect}, "
        "Location form {absolute, upper-case absolute, scheme-relative, absolute path, relative, query-only, fragment, URI header, "
        "missing, empty, invalid, non-HTTP, host-less}, Set-Cookie headers. Generator classes: origin walks (A-B-A), URL "
        "credentials per hop, the status x method x body table (systematic), the counter (max around the chain length), "
        "Location forms, jar walks (hop 0 sets host-only / Domain / Path-limited / Secure cookies, 0-2 hops to the setting host warm the "
        "real CookieJar's caches, then a hop to a sub-domain / sibling / parent / other host / other scheme / other path and back), "
        "fault chains (the peer closes a connection without answering: first attempt of hop k, every hop, twice in a row; "
        "301/302/303/307/308 x GET/POST/PUT/DELETE x max_redirects around the chain length x default session and retry switched off), "
        "re-issue walks (the same (name, domain, path) cookie is set twice along the chain with Secure added / removed and the same or "
        "a new value, later hops alternating http / https of the host), DummyCookieJar sessions with cookies= / Cookie header over "
        "same-origin, cross-origin and A-B-A chains followed by a second plain call on the same session, environment-proxy tables "
        "(http_proxy / https_proxy in both environment orders, with / without userinfo, same or different proxy, no netrc or an empty "
        "one; chains that switch scheme and thereby proxy; CONNECT answered 502), "
        "secure-origin walks (CookieJar(treat_as_secure_origin=[plain-http origins]) with Secure cookies over every other port / "
        "scheme / sub-domain of the host), session-state cases (header-less calls in which the client installs Authorization itself "
        "- URL / Location userinfo, netrc - followed by header-less calls on the same session to the same and to other origins; "
        "with and without a raise_for_status callback that reads resp.history), explicit proxy= with userinfo followed by plain "
        "scripted deterministic cases run first on every seed (one per claimed mechanism: origin changes by port / scheme / host / "
        "sub-domain with duplicated secret headers, default port spelled out, non-redirect statuses 300/304/305/306/399/201 with a "
        "Location, every table row, documented defaults unpassed with 9/10/11 redirects, every refusal form, URL credentials "
        "user-only / password-only / overriding, params and Host on the first hop only, Set-Cookie mid-chain, bodies in flight, "
        "netrc, Location needing requoting with requote_redirect_url on and off), "
        "calls, random mixes (15 % with random faults, 10 % DummyCookieJar, 15 % with follow-up calls to two origins, 6 % "
        "treat_as_secure_origin, 6 % raise_for_status callback). A case is non-trivial when at least one request reached a server; distinct by content.")
TRUSTED_BASE = [
    "yarl is not modelled: each redirect target reaches the model already classified (missing / URL() raised / non-HTTP scheme / "
    "origin() raised / absolute URL with origin, Host value, request-target, userinfo-derived Authorization value) - the harness "
    "derives these by construction of the Location string, not from the code under test",
    "CookieJar (property C16) is a parameter of the theorems; in the correspondence run its per-hop selections come from a "
    "twin CookieJar fed with the same Set-Cookie headers; the DIRECT ORACLE does not trust any CookieJar: per hop it compares the "
    "Cookie header sent with the selection of an independent RFC 6265 reference store (RefJar: domain-match, host-only flag, "
    "path-match, Secure, default-path; session cookies only) that has no caches and no memory of earlier selections",
    "environment proxies are NOT in the Lean model: those scenarios run the real TCPConnector proxy code (only name resolution, the "
    "socket and the TLS upgrade are replaced) and are judged by the direct oracle alone: a credential configured for one proxy "
    "(userinfo of its *_proxy URL) may reach that proxy only, and each hop goes through the proxy of its scheme; netrc_from_env is "
    "replaced by 'no file' / 'empty file'",
    "connection faults are injected by the in-memory server closing the pipe after reading the request; only 'closed before any "
    "response byte' is modelled (Reply.drop), not partial responses",
    "netrc is a real file (harness/data/c17.netrc via NETRC) parsed by the real netrc_from_env / _auth_header_from_netrc; "
    "get_env_proxy_for_url runs unpatched on an environment cleared of *_proxy variables; "
    "yarl's origin() equality is taken as it is: a URL that spells out its default port (http://a.test:80/) has an origin that "
    "compares UNEQUAL to that of http://a.test/, so the unchanged loop strips credentials on such a same-origin hop (safe direction; "
    "modelled through Origin.spelled, reported as an observation, not a property violation)",
    "netrc, parse_cookie_header, base64, payload classes (size / consumed / Content-Type of each body kind) are oracle columns",
    "CIMultiDict semantics (pop removes the first occurrence, popall all, item assignment replaces in place) are transcribed and "
    "exercised by the correspondence run (duplicate headers), not verified",
    "provenance tags are ghost data of the model; that no model function branches on them is by inspection of AioModel/C17.lean",
    "explicit/env proxies, middlewares, traces, raise_for_status, connection-error retries are outside the model (kept off)",
    "header names and cookie names/values are ASCII tokens; header values printable ASCII",
]
ASSUMPTIONS = [
    "the resend allowance: the unchanged code allows ONE transparent resend per call (idempotent first method, default session) and "
    "does not count it against max_redirects, so max_redirects + 1 requests can reach the wire - adopted narrowly as known finding "
    "C17-K2 (signature .../single-resend-exceeds-max-redirects-by-one: exactly one resend, exactly max_redirects + 1 requests); "
    "any second resend or any further request is a violation",
    "max_redirects = 0 means *unlimited* in the code (`if max_redirects and redirects >= max_redirects`); the bound "
    "'at most max_redirects requests' is stated and checked for max_redirects >= 1 only",
    "the caller's Content-Length, when supplied, equals the body length",
    "the caller never supplies a Transfer-Encoding header: with it every first request of the unchanged tree is already malformed "
    "(Content-Length and Transfer-Encoding together, body unframed - C04's domain), and the header would survive the 303 / POST "
    "rewrite to GET, whose chunked body then never arrives (seeder's observation, reproduced; outside this property's quantifier)",
    "C17-K3: a callable raise_for_status that reads resp.history freezes the reify-cached property at () before the loop assigns "
    "it (known finding; fix: assign resp._history before calling raise_for_status, or make history a plain property)",
    "HEAD requests are generated without a (non-empty) body: the in-memory aiohttp *server* does not consume the body of a HEAD "
    "request (it is parsed as the next request), so such requests cannot be observed faithfully",
    "F18 (3xx without Location is the last element of its own history) is a genuine deviation of the unchanged code: the check "
    "reports it under signature C17/history/self-in-history-no-location until it is fixed or listed in known_findings.json",
]

ORIGINS = [("http", "a.test", 80), ("http", "a.test", 8080), ("https", "a.test", 443), ("http", "b.test", 80),
           ("https", "b.test", 8443), ("http", "sub.a.test", 80), ("http", "127.0.0.1", 80),
           ("http", "sib.a.test", 80), ("http", "x.sub.a.test", 80), ("https", "sub.a.test", 443),
           ("http", "a.test", 9090),
           # same host and the same *explicit* port as origin 1, other scheme: an origin change that neither the host nor the
           # port shows
           ("https", "a.test", 8080)]
DEFAULT_PORT = {"http": 80, "https": 443}
NETRC = {"a.test": ("na", "", "npa"), "b.test": ("nb", "", "npb")}
REDIRECTS = (301, 302, 303, 307, 308)
METHODS = ["GET", "HEAD", "POST", "PUT", "PATCH", "DELETE", "OPTIONS", "QUERY"]
BODY_KINDS = ["none", "bytes", "empty", "str", "agen", "bytesio", "form", "multipart"]
INVALID_LOCS = ["http://:80/", "http://[::1/", "http://b.test:99999999/"]
NONHTTP_LOCS = ["ftp://b.test/x", "mailto:x@y", "javascript:alert(1)", "ws://a.test/", "file:///etc/passwd"]
BADORIGIN_LOCS = ["http:///path", "http:/path"]
SECRET_NAMES = ("authorization", "cookie", "proxy-authorization")


# ------------------------------------------------------------------------------ tables
def _strlit(s):
    return "[" + ", ".join(str(ord(c)) for c in s) + "]"


def generate(repo):
    import aiohttp.client as c
    from aiohttp.client_reqrep import ClientRequest, ClientRequestBase
    from aiohttp.http import SERVER_SOFTWARE
    tree = ast.parse(textwrap.dedent(inspect.getsource(c.ClientSession._request)))
    ins, eqs = [], []
    for n in ast.walk(tree):
        if isinstance(n, ast.Compare) and isinstance(n.left, ast.Attribute) and n.left.attr == "status" \
                and isinstance(n.left.value, ast.Name) and n.left.value.id == "resp" and len(n.ops) == 1:
            comp = n.comparators[0]
            if isinstance(n.ops[0], ast.In) and isinstance(comp, (ast.Tuple, ast.List, ast.Set)):
                ins.append([int(e.value) for e in comp.elts])
            elif isinstance(n.ops[0], ast.Eq) and isinstance(comp, ast.Constant):
                eqs.append([int(comp.value)])
    if len(ins) != 2 or len(eqs) != 1:
        raise RuntimeError(f"redirect branch of _request no longer has the shape status-in/==/in: {ins} {eqs}")
    redirect, post_to_get = (ins[0], ins[1]) if len(ins[0]) >= len(ins[1]) else (ins[1], ins[0])
    strs = lambda names: "[" + ", ".join(_strlit(s) for s in sorted(names)) + "]"
    dh = ", ".join(f"({_strlit(k)}, {_strlit(v)})" for k, v in ClientRequest.DEFAULT_HEADERS.items())
    ct = ClientRequest._EMPTY_BODY.headers["Content-Type"]
    return {"AioModel/Generated/C17.lean":
            "-- GENERATED by harness/c17.py from /repo/aiohttp/client.py, client_reqrep.py, http.py — do not edit\n"
            "namespace Aio.Gen.C17\n"
            "/-- `resp.status in (…)` guarding the redirect branch of `ClientSession._request` -/\n"
            f"def redirectStatuses : List Nat := {redirect}\n"
            "/-- `resp.status == …` (always rewritten to GET unless HEAD) -/\n"
            f"def seeOtherStatuses : List Nat := {eqs[0]}\n"
            "/-- `resp.status in (…) and resp.method == POST` (rewritten to GET) -/\n"
            f"def postToGetStatuses : List Nat := {post_to_get}\n"
            "/-- `ClientRequest.GET_METHODS` (sorted) -/\n"
            f"def getMethods : List (List Nat) := {strs(ClientRequest.GET_METHODS)}\n"
            "/-- `ClientRequestBase.POST_METHODS` (sorted) -/\n"
            f"def postMethods : List (List Nat) := {strs(ClientRequestBase.POST_METHODS)}\n"
            "/-- `aiohttp.client.IDEMPOTENT_METHODS` (sorted) -/\n"
            f"def idempotentMethods : List (List Nat) := {strs(c.IDEMPOTENT_METHODS)}\n"
            "/-- `ClientRequest.DEFAULT_HEADERS` in dict order -/\n"
            f"def defaultHeaders : List (List Nat × List Nat) := [{dh}]\n"
            "/-- `aiohttp.http.SERVER_SOFTWARE` -/\n"
            f"def userAgent : List Nat := {_strlit(SERVER_SOFTWARE)}\n"
            "/-- Content-Type of `ClientRequest._EMPTY_BODY` -/\n"
            f"def emptyBodyCtype : List Nat := {_strlit(ct)}\n"
            "end Aio.Gen.C17\n"}


# ------------------------------------------------------------------------------ URLs by construction
def basic(cred):
    return "Basic " + base64.b64encode(f"{cred[0]}:{cred[1]}".encode()).decode()


def authority(o, cred=None, upper=False):
    sch, host, port = ORIGINS[o]
    ui = ""
    if cred:
        ui = (cred[0] if cred[1] == "" else f"{cred[0]}:{cred[1]}") + "@"
    a = ui + (host.upper() if upper else host)
    if port != DEFAULT_PORT[sch]:
        a += f":{port}"
    return a


def url_str(o, path, cred=None, upper=False):
    sch = ORIGINS[o][0]
    return f"{sch.upper() if upper else sch}://{authority(o, cred, upper)}{path}"


def host_hdr(o):
    sch, host, port = ORIGINS[o]
    return host if port == DEFAULT_PORT[sch] else f"{host}:{port}"


def murl(o, path, cred=None, has_host=True, spelled=0):
    """model-side Url fields; `spelled` = 1 when the default port is written out (yarl's origin() of such a URL compares
    unequal to the origin of the same URL without the port - the loop then treats the hop as cross-origin)"""
    sch, host, port = ORIGINS[o]
    return ",".join([str(0 if sch == "http" else 1), st(host), str(port), "1" if has_host else "0",
                     st(basic(cred)) if cred else "~", st(host_hdr(o)), st(path), str(spelled)])


def resolve(cur, loc):
    """(location header pairs, model Loc token, next (o, path, cred) | None) for a scripted Location, by construction.
    cur = (o, path_qs)"""
    o, path = cur
    form = loc["form"]
    base = path.split("?")[0]
    if form == "none":
        return [], "N", None
    if form == "empty":
        return [("Location", "")], "N", None
    if form == "invalid":
        return [("Location", loc["raw"])], "I", None
    if form == "nonhttp":
        return [("Location", loc["raw"])], "H", None
    if form == "badorigin":
        return [("Location", loc["raw"])], "B", None
    cred = tuple(loc["cred"]) if loc.get("cred") else None
    p = loc.get("path")
    if form == "absport":
        # the default port spelled out: http://a.test:80/x is the SAME origin as http://a.test/x
        sch, host, port = ORIGINS[loc["o"]]
        ui = ((cred[0] if cred[1] == "" else f"{cred[0]}:{cred[1]}") + "@") if cred else ""
        return [("Location", f"{sch}://{ui}{host}:{port}{p}")], None, (loc["o"], p, cred)
    if form == "quoted":
        # loc["raw"] is what the server sends, loc["path"] what must reach the wire (requote on / off)
        return [("Location", loc["raw"])], None, (o, p, None)
    if form in ("abs", "absupper", "uri"):
        t = (loc["o"], p, cred)
        s = url_str(loc["o"], p, cred, upper=(form == "absupper"))
        name = "URI" if form == "uri" else "Location"
        return [(name, s)], None, t
    if form == "schemerel":
        # generator guarantees same scheme as the current URL
        t = (loc["o"], p, cred)
        return [("Location", "//" + authority(loc["o"], cred) + p)], None, t
    if form == "relpath":
        return [("Location", p)], None, (o, p, None)
    if form == "relfrag":
        return [("Location", p + "#frag")], None, (o, p, None)
    if form == "rel":
        seg = p.rsplit("/", 1)[1]
        return [("Location", seg)], None, (o, base.rsplit("/", 1)[0] + "/" + seg, None)
    if form == "query":
        return [("Location", "?" + loc["q"])], None, (o, base + "?" + loc["q"], None)
    raise ValueError(form)


# ------------------------------------------------------------------------------ bodies
def body_spec(case):
    """(factory for the `data=` argument, expected bytes, content type, sized, one_shot)"""
    b = case["body"]
    kind, text = b["kind"], b.get("data", "")
    raw = text.encode()
    octet = "application/octet-stream"
    if kind == "none":
        return None
    if kind == "bytes":
        return (lambda: raw), raw, octet, True, False
    if kind == "empty":
        return (lambda: b""), b"", octet, True, False
    if kind == "str":
        return (lambda: text), raw, "text/plain; charset=utf-8", True, False
    if kind == "agen":
        async def gen():
            yield raw[: len(raw) // 2]
            yield raw[len(raw) // 2:]
        return (lambda: gen()), raw, octet, False, True
    if kind == "bytesio":
        return (lambda: io.BytesIO(raw)), raw, octet, True, False
    if kind == "form":
        from aiohttp import FormData
        return (lambda: FormData({"k": text})), urllib.parse.urlencode({"k": text}).encode(), "application/x-www-form-urlencoded", True, False
    if kind == "multipart":
        from aiohttp import FormData
        def mk():
            fd = FormData(boundary="c17bnd")
            fd.add_field("f", raw, filename="x.bin", content_type="application/octet-stream")
            return fd
        exp = (b"--c17bnd\r\nContent-Type: application/octet-stream\r\n"
               b'Content-Disposition: form-data; name="f"; filename="x.bin"\r\n\r\n' + raw + b"\r\n--c17bnd--\r\n")
        return mk, exp, "multipart/form-data; boundary=c17bnd", True, False
    raise ValueError(kind)


# ------------------------------------------------------------------------------ RFC 6265 reference store
def _is_ip(host):
    r = host.replace(".", "")
    return ":" in host or (r != "" and r.isdigit())


def _domain_match(host, d):
    return host == d or (not _is_ip(host) and host.endswith("." + d))


def _path_match(req, cp):
    return req == cp or (req.startswith(cp) and (cp.endswith("/") or req[len(cp):len(cp) + 1] == "/"))


def _default_path(p):
    if not p.startswith("/"):
        return "/"
    pre = p[:p.rfind("/")]
    return pre if pre else "/"


class RefJar:
    """Independent reading of RFC 6265 §5.3/§5.4 for session cookies (no Max-Age/Expires are generated): what the
    jar holds after the Set-Cookie headers seen so far, and which cookies may be attached to a request URL.
    It shares no code and no state (caches!) with aiohttp.CookieJar: a selection depends on the store contents and the
    request URL only, never on what was selected before."""

    def __init__(self, dummy=False):
        self.dummy = dummy  # DummyCookieJar: nothing is ever stored
        self.store = {}     # (name, domain, path) -> dict(value, host_only, secure)

    def receive(self, host, upath, set_cookie_values):
        if self.dummy or _is_ip(host):
            return          # aiohttp's default jar (unsafe=False) takes no cookies from IP hosts
        for raw in set_cookie_values:
            parts = [x.strip() for x in raw.split(";")]
            name, _, value = parts[0].partition("=")
            domain, path, secure = "", "", False
            for a in parts[1:]:
                k, _, v = a.partition("=")
                k = k.strip().lower()
                if k == "domain":
                    domain = v.strip().lstrip(".").lower()
                elif k == "path":
                    path = v.strip()
                elif k == "secure":
                    secure = True
            if domain == "":
                host_only, domain = True, host
            elif not _domain_match(host, domain):
                continue
            else:
                host_only = False
            if not path.startswith("/"):
                path = _default_path(upath)
            self.store[(name, domain, path)] = {"value": value, "host_only": host_only, "secure": secure}

    def select(self, host, rpath, secure):
        """name -> set of admissible values (several cookies of one name may be attachable; the header carries one)"""
        out = {}
        if _is_ip(host):
            return out
        for (name, domain, path), c in self.store.items():
            ok = (host == domain) if c["host_only"] else _domain_match(host, domain)
            if ok and _path_match(rpath, path) and (secure or not c["secure"]):
                out.setdefault(name, set()).add(c["value"])
        return out


# ------------------------------------------------------------------------------ running one case
def pairs_tok(ps):
    return ";".join(f"{st(a)},{st(b)}" for a, b in ps) if ps else "~"


def parse_cookie_simple(raw):
    out = []
    for part in raw.split(";"):
        part = part.strip()
        if "=" in part:
            n, v = part.split("=", 1)
            out.append((n, v))
    return out


DATA_DIR = os.path.join(os.path.dirname(os.path.abspath(__file__)), "data")
NETRC_FILE = os.path.join(DATA_DIR, "c17.netrc")              # same entries as NETRC above
NETRC_EMPTY = os.path.join(DATA_DIR, "c17-empty.netrc")
NETRC_MISSING = os.path.join(DATA_DIR, "no-such-file.netrc")


class FakeNetrc:
    def authenticators(self, host):
        return NETRC.get(host)


def headers_of(case, body):
    hs = []
    for n, v in case["headers"]:
        if v == "@len":
            v = str(len(body[1])) if body else "0"
        hs.append((n, v))
    return hs


async def run_case(case, obs):
    """fills `obs` (model line, requests as received, release/close events, outcome, …) progressively, so that
    a scenario that never finishes still leaves what was observed"""
    import aiohttp
    import aiohttp.client as client_mod
    from aiohttp import web, CookieJar
    from aiohttp.client_reqrep import ClientResponse
    from aiohttp import client_exceptions as ce
    from yarl import URL

    chain = case["chain"]
    body = body_spec(case)
    hdrs = headers_of(case, body)
    start = case["start"]
    scred = tuple(start["cred"]) if start.get("cred") else None
    start_url = url_str(start["o"], start["path"], scred) if not start.get("nohost") else "http:///" + start["path"].lstrip("/")

    # ---- by-construction walk: the URL of every hop and the scripted responses
    hops = []          # (o, path_qs, cred) of hop k as the loop *should* see it, while the chain is followed
    script = []        # per response: (status, header pairs)
    loc_tok = []
    cur = (start["o"], start["path"], scred)
    first_target = start["path"]
    if case.get("params"):
        first_target = start["path"] + "?" + urllib.parse.urlencode(case["params"])
    nxt = cur
    spelled = [0]       # per hop: is the default port written out in the URL the loop holds (relative targets inherit it)
    for k, r in enumerate(chain):
        hops.append(nxt)
        cur_path = first_target if k == 0 else nxt[1]
        lh, tok, t = resolve((nxt[0], cur_path), r["loc"])
        fm = r["loc"]["form"]
        spelled.append(1 if fm == "absport" else spelled[-1] if fm in ("relpath", "rel", "query", "relfrag", "quoted") else 0)
        script.append((r["status"], lh + [("Set-Cookie", c) for c in r.get("set_cookie", [])], r.get("body", 0)))
        loc_tok.append((tok, t))
        if t is None:
            # the walk cannot continue by construction; remaining hops (if the code continues anyway) reuse the last URL
            t = nxt
        nxt = t
    hops.append(nxt)
    valid_hops = next((k + 1 for k, (tok, t) in enumerate(loc_tok) if t is None), len(hops))

    seen, resps, events = [], [], []
    recording = [True]
    faults = set(case.get("faults") or [])      # attempt numbers at which the peer closes without answering

    class RecResponse(ClientResponse):
        _c17_i = None

        async def start(self, connection):
            r = await super().start(connection)
            # numbered when the response head has arrived: a request the peer never answered has no response
            self._c17_i = len(resps)
            resps.append(self)
            return r

        def release(self):
            if recording[0] and self._c17_i is not None:
                events.append(f"r{self._c17_i}")
            return super().release()

        def close(self):
            if recording[0] and self._c17_i is not None:
                events.append(f"c{self._c17_i}")
            return super().close()

    followup_seen = []
    phase = ["call"]

    async def handler(request):
        if phase[0] == "followup":
            # a later, independent call on the same session (no cookies=, no headers=)
            followup_seen.append({"origin": request.transport.get_extra_info("c17_origin"),
                                  "headers": [(k.decode("latin-1"), v.decode("latin-1")) for k, v in request.raw_headers]})
            await request.read()
            return web.Response(body=b"later")
        # record the request as soon as its head is parsed: a body that never arrives must still be visible
        entry = {"origin": request.transport.get_extra_info("c17_origin"), "method": request.method,
                 "target": request.raw_path,
                 "headers": [(k.decode("latin-1"), v.decode("latin-1")) for k, v in request.raw_headers], "body": None,
                 "hop": sum(1 for x in seen if not x["dropped"]), "dropped": False}
        attempt = len(seen)
        seen.append(entry)
        entry["body"] = await request.read()
        if attempt in faults:
            # the peer closes the connection without answering (dead keep-alive connection, crashed / hostile server)
            entry["dropped"] = True
            request.transport.close()
            return web.Response()
        i = entry["hop"]
        if i < len(script):
            status, hp, blen = script[i]
            if request.method == "HEAD":
                blen = 0        # no body bytes may follow the head of a response to HEAD
            if blen < 0:
                # body arrives in two instalments: the redirect is handled while the response is still open
                resp = web.StreamResponse(status=status, headers=CIMultiDict(hp + [("Content-Length", str(-blen))]))
                try:
                    await resp.prepare(request)
                    await resp.write(b"m" * (-blen // 2))
                    await asyncio.sleep(0.5)
                    await resp.write(b"m" * (-blen - (-blen // 2)))
                except (ConnectionError, RuntimeError):
                    pass
                return resp
            return web.Response(status=status, headers=CIMultiDict(hp), body=b"m" * blen if blen else None)
        fin = case.get("final", {})
        return web.Response(status=fin.get("status", 200),
                            headers=CIMultiDict([("Set-Cookie", c) for c in fin.get("set_cookie", [])]), body=b"end")

    srv = make_server(handler)
    conn = PipeConnector(srv)
    dummy = case.get("jar_kind") == "dummy"
    if dummy:
        from aiohttp import DummyCookieJar
        jar, twin = DummyCookieJar(), DummyCookieJar()      # a session that must never send or keep any jar cookie
    else:
        so = [URL(url_str(o, "/")) for o in case.get("secure_origins") or []]
        jar, twin = CookieJar(treat_as_secure_origin=so), CookieJar(treat_as_secure_origin=so)
    ref = RefJar(dummy)
    for o, n, v in case.get("jar0", []):
        for j in (jar, twin):
            j.update_cookies({n: v}, URL(url_str(o, "/")))
        ref.receive(ORIGINS[o][1], "/", [f"{n}={v}"])

    # ---- oracle columns from the twin jar, by construction of the hop URLs
    def sel(j, url):
        return [(k, m.value) for k, m in j.filter_cookies(url).items()]

    oracles, twin_sel, ref_sel = [], [], []
    for k, (o, path, cred) in enumerate(hops):
        u = URL(url_str(o, first_target if k == 0 else path))
        jsel = sel(twin, u)
        twin_sel.append(jsel)
        # a request is "secure" over https, or when exactly its origin (scheme, host AND port) was declared trustworthy
        ref_sel.append(ref.select(ORIGINS[o][1], u.path, ORIGINS[o][0] == "https" or o in (case.get("secure_origins") or [])))
        rsel = []
        if case.get("cookies") is not None:
            tmp = CookieJar()
            tmp.update_cookies(case["cookies"])
            rsel = sel(tmp, u)
        oracles.append(pairs_tok(jsel) + "@" + pairs_tok(rsel))
        sc = [v for n, v in script[k][1] if n == "Set-Cookie"] if k < len(script) else case.get("final", {}).get("set_cookie", [])
        if sc:
            twin.update_cookies_from_headers(sc, u)
            ref.receive(ORIGINS[o][1], u.path, sc)

    # ---- model line
    cfg = f"{10 if case['max'] is None else case['max']},{'1' if case['allow'] else '0'},{'1' if case.get('trust') else '0'},{'1' if case.get('retry', True) else '0'}"
    if start.get("nohost"):
        murl0 = ",".join(["0", "-", "80", "0", "~", "-", st(start["path"])])
    else:
        murl0 = murl(start["o"], start["path"], scred)
    body_tok = "~" if body is None else f"{hx(body[1])},{st(body[2])},{'1' if body[3] else '0'},{'1' if body[4] else '0'}"
    cookies_tok = "~" if case.get("cookies") is None else ("!" if not case["cookies"] else pairs_tok(list(case["cookies"].items())))
    netrc_tok = pairs_tok([(h, basic((l, p))) for h, (l, _, p) in NETRC.items()]) if case.get("trust") else "~"
    cparse = [f"{st(v)}:{pairs_tok(parse_cookie_simple(v))}" for n, v in hdrs + [tuple(x) for x in (case.get("session_headers") or [])]
              if n.lower() == "cookie"]
    chain_toks = []
    attempt = [0]

    def emit(tok):
        while attempt[0] in faults:
            chain_toks.append("D")
            attempt[0] += 1
        chain_toks.append(tok)
        attempt[0] += 1
    for k, r in enumerate(chain):
        tok, t = loc_tok[k]
        if tok is None:
            tok = "U:" + murl(t[0], t[1], t[2], spelled=spelled[k + 1])
        emit(f"{r['status']}:{k}:{tok}")
    fin = case.get("final", {})
    emit(f"{fin.get('status', 200)}:{len(chain)}:N")
    model_line = " ".join(["run", cfg, st(case["method"].upper()), murl0,
                           st(first_target) if case.get("params") else "~",
                           pairs_tok(case.get("session_headers") or []), pairs_tok(hdrs), cookies_tok, body_tok, netrc_tok,
                           "/".join(cparse) if cparse else "~", "/".join(oracles), "/".join(chain_toks)])

    obs.update({"model_line": model_line, "seen": seen, "events": events, "out": None, "final": None,
                "leak_before": None, "leak_after": None, "hist": [], "hops": hops,
                "twin_sel": twin_sel, "ref_sel": ref_sel, "first_target": first_target, "body": body, "hdrs": hdrs,
                "valid_hops": valid_hops})

    # ---- the real thing
    # nothing is stubbed: netrc_from_env parses a real file (NETRC), get_env_proxy_for_url reads the real (emptied) environment
    saved_env = {k: os.environ.get(k) for k in ("NETRC",)}
    os.environ["NETRC"] = NETRC_FILE
    out, final, leak_before, leak_after, hist_obs = None, None, None, None, []
    try:
        skw = {}
        if case.get("requote") is False:
            skw["requote_redirect_url"] = False
        async with aiohttp.ClientSession(connector=conn, cookie_jar=jar, response_class=RecResponse, **skw,
                                         headers=CIMultiDict(case["session_headers"]) if case.get("session_headers") else None,
                                         trust_env=bool(case.get("trust"))) as s:
            # the default session allows one transparent resend per call; aiohttp's TestClient switches that off
            if not case.get("retry", True):
                s._retry_connection = False
            kw = {}
            if body is not None:
                kw["data"] = body[0]()
            if hdrs:
                kw["headers"] = CIMultiDict(hdrs)
            if case.get("cookies") is not None:
                kw["cookies"] = dict(case["cookies"])
            if case.get("params"):
                kw["params"] = dict(case["params"])
            if case.get("rfs") == "reads-history":
                async def rfs_cb(resp):
                    resp.history        # an application-level status check that looks at the chain
                kw["raise_for_status"] = rfs_cb
            try:
                if case["max"] is not None:
                    kw["max_redirects"] = case["max"]
                if not (case["allow"] and case.get("allow_default")):
                    kw["allow_redirects"] = case["allow"]        # else: rely on the documented default (True)
                r = await s.request(case["method"], start_url, **kw)
                recording[0] = False
                final = r._c17_i
                # what the loop recorded (r._history) is compared with the model; what the caller sees (r.history) is judged by the oracle
                hist = [h._c17_i for h in r._history]
                out = f"ok,{final}," + (".".join(map(str, hist)) if hist else "~")
                hist_obs = [{"i": h._c17_i, "status": h.status, "released": h._connection is None and h.closed} for h in r._history]
                obs["hist_public"] = [h._c17_i for h in r.history]
                obs["urls_public"] = [str(h.url) for h in r._history] + [str(r.url)]
                obs["methods_public"] = [h.method for h in r._history] + [r.method]
                leak_before = len(conn._acquired)
                r.release()
                await asyncio.sleep(0)
                leak_after = len(conn._acquired)
            except ce.TooManyRedirects as e:
                out = "err,tooManyRedirects"
                hist_obs = [{"i": h._c17_i, "status": h.status, "released": h._connection is None and h.closed} for h in e.history]
            except ce.ClientPayloadError:
                out = "err,payloadConsumed"
            except (ce.ServerDisconnectedError, ce.ClientOSError):
                out = "err,disconnected"
            except ce.NonHttpUrlRedirectClientError:
                out = "err,nonHttpRedirect"
            except ce.InvalidUrlRedirectClientError:
                out = "err,invalidRedirectUrl"
            except ce.InvalidUrlClientError:
                out = "err,invalidUrl"
            except asyncio.TimeoutError:
                out = "err,TIMEOUT"
            except ce.ClientError as e:
                out = f"err,E_OTHER({type(e).__name__})"
            except ValueError:
                out = "err,valueError"
            except Exception as e:  # noqa
                out = f"err,E_OTHER({type(e).__name__})"
            recording[0] = False
            if leak_after is None:
                await asyncio.sleep(0)
                leak_after = len(conn._acquired)
            if case.get("followup") and not start.get("nohost"):
                phase[0] = "followup"
                fo = case["followup"]
                for o2 in ([start["o"]] if fo is True else fo):
                    try:
                        r2 = await s.get(url_str(o2, "/d/later"), allow_redirects=False)
                        r2.release()
                    except Exception as e:  # noqa
                        followup_seen.append({"error": type(e).__name__, "headers": [], "origin": None})
        await srv.shutdown(0)
    finally:
        for k, v in saved_env.items():
            if v is None:
                os.environ.pop(k, None)
            else:
                os.environ[k] = v
    obs.update({"out": out, "final": final, "leak_before": leak_before, "leak_after": leak_after, "hist": hist_obs,
                "followup": followup_seen})
    return obs


# ------------------------------------------------------------------------------ environment proxies (trust_env)
PROXIES = {"p1": ("p1.test", 3128), "p2": ("p2.test", 8080), "p3": ("p3.test", 3128)}


def proxy_url(spec):
    """spec = [proxy id, user | None, password | None]"""
    pid, user, pw = spec
    host, port = PROXIES[pid]
    ui = ""
    if user is not None:
        ui = (user if pw is None else f"{user}:{pw}") + "@"
    return f"http://{ui}{host}:{port}"


class EmptyNetrc:
    def authenticators(self, host):
        return None


async def run_proxy_case(case, obs):
    """trust_env session behind per-scheme environment proxies; the chain switches schemes, hence proxies.
    Every request is recorded together with the endpoint (proxy or origin) its connection was opened to."""
    import aiohttp
    import aiohttp.client as client_mod
    import aiohttp.helpers as helpers_mod
    from aiohttp import web
    from aiohttp import client_exceptions as ce
    seen = []
    obs.update({"seen": seen, "out": None})
    chain = case["chain"]

    later = []
    phase = ["call"]

    async def handler(request):
        if phase[0] == "later":
            later.append({"endpoint": request.transport.get_extra_info("c17_endpoint"), "method": request.method,
                          "target": request._message.path,
                          "headers": [(k.decode("latin-1"), v.decode("latin-1")) for k, v in request.raw_headers]})
            if request.method != "CONNECT":
                await request.read()
            return web.Response(status=502 if request.method == "CONNECT" else 200)
        entry = {"endpoint": request.transport.get_extra_info("c17_endpoint"), "method": request.method,
                 "target": request._message.path,
                 "headers": [(k.decode("latin-1"), v.decode("latin-1")) for k, v in request.raw_headers]}
        seen.append(entry)
        if request.method == "CONNECT":
            # the "body" of a CONNECT is the tunnel itself: answer at once
            return web.Response(status=200 if case.get("tunnel", True) else 502)
        await request.read()
        i = sum(1 for x in seen if x["method"] != "CONNECT") - 1
        if i < len(chain):
            r = chain[i]
            return web.Response(status=r["status"], headers={"Location": url_str(r["loc"]["o"], r["loc"]["path"])})
        return web.Response(body=b"end")

    srv = make_server(handler)
    conn = make_proxy_connector(srv)
    saved_env = dict(os.environ)
    saved = (client_mod.netrc_from_env, helpers_mod.netrc_from_env)
    import logging
    quiet = logging.getLogger("aiohttp.client")
    saved_level = quiet.level
    quiet.setLevel(logging.ERROR)               # "Could not read .netrc file" is expected for the missing-file variant
    for v in list(os.environ):
        if v.lower().endswith("_proxy") or v == "NETRC":
            del os.environ[v]
    for name, spec in case["env"]:            # insertion order = environment order
        os.environ[name] = proxy_url(spec)
    os.environ["NETRC"] = {"none": NETRC_MISSING, "empty": NETRC_EMPTY}[case.get("netrc", "none")]    # real files, real parser
    out = None
    try:
        async with aiohttp.ClientSession(connector=conn, trust_env=True) as s:
            try:
                pkw = {}
                if case.get("explicit"):
                    pkw["proxy"] = proxy_url(case["explicit"])          # proxy= argument of the call, no proxy_headers=
                r = await s.request(case["method"], url_str(case["start"]["o"], case["start"]["path"]),
                                    headers=CIMultiDict(case.get("headers") or []) or None, **pkw)
                out = f"ok,{r.status}"
                r.release()
            except ce.ClientHttpProxyError:
                out = "err,proxy"
            except Exception as e:  # noqa
                out = f"err,{type(e).__name__}"
            # later plain calls on the same session (no proxy=, no headers=)
            phase[0] = "later"
            for o2 in case.get("later") or []:
                try:
                    r2 = await s.get(url_str(o2, "/d/later"), allow_redirects=False)
                    r2.release()
                except Exception:  # noqa
                    pass
        await srv.shutdown(0)
    finally:
        quiet.setLevel(saved_level)
        os.environ.clear()
        os.environ.update(saved_env)
    obs["out"] = out
    obs["later"] = later
    return obs


def oracle_proxy(ctx, case, res, hang):
    """credentials configured for one environment proxy reach that proxy only (and no origin)"""
    if res is None or hang:
        ctx.violation("C17/proxy/request-never-completes", case, "the proxied call neither returned nor raised")
        return
    cred_of = {}       # endpoint -> its own credential (None = none configured)
    for name, spec in case["env"]:
        pid, user, pw = spec
        cred_of[PROXIES[pid]] = basic((user, pw or "")) if user is not None else None
    if case.get("explicit"):
        pid, user, pw = case["explicit"]
        cred_of[PROXIES[pid]] = basic((user, pw or "")) if user is not None else None
    env_creds = {c for c in cred_of.values() if c}
    for k, s in enumerate(list(res["seen"]) + list(res.get("later") or [])):
        pa = [v for n, v in s["headers"] if n.lower() == "proxy-authorization"]
        ep = tuple(s["endpoint"]) if s["endpoint"] else None
        for v in pa:
            if v not in env_creds:
                continue
            if ep not in cred_of:
                ctx.violation("C17/confine/proxy-credential-sent-to-an-origin", case,
                              f"request {k} ({s['method']} {s['target']}) went directly to {ep} with the Proxy-Authorization that belongs to a proxy")
            elif cred_of[ep] != v:
                owner = [e for e, c in cred_of.items() if c == v]
                ctx.violation("C17/confine/env-proxy-credential-sent-to-another-proxy", case,
                              f"request {k} ({s['method']} {s['target']}) to proxy {ep} carries the Proxy-Authorization configured for proxy {owner}")
    # each hop must go through the proxy configured for its scheme (a redirect that changes scheme changes proxy)
    table = {name.lower()[:-6]: PROXIES[spec[0]] for name, spec in case["env"]}
    if case.get("explicit"):
        table = {"http": PROXIES[case["explicit"][0]], "https": PROXIES[case["explicit"][0]]}
    hop_urls = [(case["start"]["o"], case["start"]["path"])] + [(r["loc"]["o"], r["loc"]["path"]) for r in case["chain"]]
    reqs = [s for s in res["seen"]]
    i = 0
    for o, path in hop_urls:
        if i >= len(reqs):
            break
        sch, host, port = ORIGINS[o]
        want = table.get(sch)
        s = reqs[i]
        ep = tuple(s["endpoint"])
        if want is not None and ep != want or want is None and ep != (host, port):
            ctx.violation("C17/proxy/hop-sent-through-the-wrong-endpoint", case,
                          f"hop to {sch}://{host}:{port}{path} was sent to {ep}, environment says {want or 'direct'}")
            break
        i += 1
        if want is not None and sch == "https":
            if s["method"] != "CONNECT":
                break
            if not case.get("tunnel", True):
                break
            i += 1      # the tunnelled request itself


def proxy_cases():
    import itertools
    specs = [["p1", "user1", "pw1"], ["p1", None, None], ["p2", "user2", "pw2"], ["p2", None, None], ["p3", "u3", None]]
    for hs, ss in itertools.product(specs + [None], repeat=2):
        if hs is None and ss is None:
            continue
        if hs is not None and ss is not None and hs[0] == ss[0] and hs[1:] != ss[1:]:
            continue        # one proxy, two different credentials: whose they are is not well defined
        for order in (0, 1):
            env = [e for e in ([("http_proxy", hs), ("https_proxy", ss)] if order == 0 else [("https_proxy", ss), ("http_proxy", hs)])
                   if e[1] is not None]
            for walk in ((0, 2), (2, 0), (0, 4, 3), (2, 3), (0, 3), (4, 2)):
                for netrc in ("none", "empty"):
                    yield {"kind": "proxy", "env": [[n, sp] for n, sp in env], "netrc": netrc, "method": "GET", "tunnel": False,
                           "start": {"o": walk[0], "path": "/d/x0"},
                           "chain": [{"status": (302, 307, 303)[k % 3], "loc": {"o": o, "path": f"/d/x{k + 1}"}} for k, o in enumerate(walk[1:])],
                           "class": "env-proxy"}


def explicit_proxy_cases():
    """proxy= argument with / without userinfo and no proxy_headers=, then plain calls on the same session"""
    for spec in (["p1", "user1", "pw1"], ["p2", "user2", None], ["p1", None, None]):
        for walk in ((0,), (0, 3), (2,), (0, 2), (3, 0)):
            yield {"kind": "proxy", "env": [], "explicit": spec, "netrc": "none", "method": "GET", "tunnel": False,
                   "start": {"o": walk[0], "path": "/d/x0"},
                   "chain": [{"status": 302, "loc": {"o": o, "path": f"/d/x{k + 1}"}} for k, o in enumerate(walk[1:])],
                   "later": [0, 3], "class": "explicit-proxy"}


def norm_events(line):
    """release()/close() are idempotent: collapse consecutive repeats so that a second, redundant call is not a difference"""
    head, sep, tail = line.partition(" # E ")
    if not sep:
        return line
    evs, sep2, out = tail.partition(" # O ")
    toks = evs.split(",")
    ded = [t for i, t in enumerate(toks) if i == 0 or toks[i - 1] != t]
    return head + sep + ",".join(ded) + sep2 + out


def canon(res, hang):
    groups = []
    for s in res["seen"]:
        sch, host, port = s["origin"]
        groups.append(f"{0 if sch == 'http' else 1},{st(host)},{port} {st(s['method'])} {st(s['target'])} "
                      f"{pairs_tok(s['headers'])} {hx(s['body']) if s['body'] is not None else 'BODY-NEVER-ARRIVED'}")
    groups.append("E " + (",".join(res["events"]) if res["events"] else "~"))
    groups.append("O " + ("HANG" if hang else str(res["out"])))
    return " # ".join(groups)


def execute(case):
    obs = {}
    if case.get("kind") == "proxy":
        res, excs, quiescent = vloop.run(lambda: run_proxy_case(case, obs))
        if quiescent:
            res = obs if "seen" in obs else None
        return res, quiescent, excs
    res, excs, quiescent = vloop.run(lambda: run_case(case, obs))
    if quiescent:
        res = obs if "model_line" in obs else None
    return res, quiescent, excs


# ------------------------------------------------------------------------------ direct oracle
def cookie_pairs(value):
    return parse_cookie_simple(value)


def oracle(ctx, case, res, hang):
    """The property, judged on what the in-memory servers received and what the caller got back."""
    if res is None:
        if hang:
            ctx.violation("C17/table/request-never-completes", case,
                          "the request neither returned nor raised: a server is still waiting for a request body/headers")
        return
    seen, chain = res["seen"], case["chain"]
    start = case["start"]
    if not seen:
        return
    o0 = ORIGINS[start["o"]]
    hdrs = res["hdrs"] + [tuple(x) for x in (case.get("session_headers") or [])]
    caller_auth = [v for n, v in hdrs if n.lower() == "authorization"]
    caller_pauth = [v for n, v in hdrs if n.lower() == "proxy-authorization"]
    caller_hcookies = [p for n, v in hdrs if n.lower() == "cookie" for p in cookie_pairs(v)]
    caller_rcookies = list((case.get("cookies") or {}).items())
    # credentials embedded in URLs: (first hop they belong to, value)
    url_creds = []
    if start.get("cred"):
        url_creds.append((0, basic(tuple(start["cred"]))))
    for k, r in enumerate(chain):
        c = r["loc"].get("cred")
        if c and r["loc"]["form"] in ("abs", "absupper", "uri", "schemerel"):
            url_creds.append((k + 1, basic(tuple(c))))

    def hv(s, name):
        return [v for n, v in s["headers"] if n.lower() == name]

    left = False
    for k, s in enumerate(seen):
        hop = s["hop"]
        if s["origin"] != o0:
            left = True
        back = "-after-return" if (left and s["origin"] == o0) else ""
        auth = hv(s, "authorization")
        pairs = [p for v in hv(s, "cookie") for p in cookie_pairs(v)]
        if left:
            if any(a in caller_auth for a in auth):
                ctx.violation(f"C17/confine/caller-authorization-sent-off-origin{back}", case,
                              f"hop {k} to {s['origin']} carries the caller's Authorization (supplied for {o0})")
            if any(a in caller_pauth for a in hv(s, "proxy-authorization")):
                ctx.violation(f"C17/confine/caller-proxy-authorization-sent-off-origin{back}", case,
                              f"hop {k} to {s['origin']} carries the caller's Proxy-Authorization (supplied for {o0})")
            if any(p in caller_hcookies for p in pairs):
                ctx.violation(f"C17/confine/caller-cookie-header-sent-off-origin{back}", case,
                              f"hop {k} to {s['origin']} carries cookies of the caller's Cookie header (supplied for {o0})")
            if any(p in caller_rcookies for p in pairs):
                ctx.violation(f"C17/confine/per-request-cookie-sent-off-origin{back}", case,
                              f"hop {k} to {s['origin']} carries per-request cookies (supplied for {o0})")
        for nh, (nl, _, npw) in NETRC.items():
            if basic((nl, npw)) in auth and s["origin"][1] != nh:
                ctx.violation("C17/confine/netrc-credential-sent-to-another-host", case,
                              f"request {k} (hop {hop}) to {s['origin']} carries the netrc credentials of {nh}")
        for h, val in url_creds:
            if val in auth:
                ok = h <= hop and all(x["origin"] == s["origin"] for x in seen[: k + 1] if h <= x["hop"])
                if not ok:
                    kind = "start-url" if h == 0 else "redirect-url"
                    ctx.violation(f"C17/confine/{kind}-credential-sent-off-origin", case,
                                  f"hop {k} to {s['origin']} carries credentials embedded in the URL of hop {h}")
        # jar cookies re-selected for this hop: what is sent must be the RFC 6265 selection for THIS hop's URL from
        # the cookies received so far (independent reference store) - whatever was sent on earlier hops
        if hop < res["valid_hops"] and hop < len(res["ref_sel"]):
            exp = res["ref_sel"][hop]                       # name -> set of admissible values
            live_caller = [] if left else (caller_hcookies + caller_rcookies)
            got = {}
            for n, v in pairs:
                if (n, v) in live_caller:
                    continue
                got[n] = v
            caller_names = {n for n, _ in live_caller}
            over = {n: v for n, v in got.items() if v not in exp.get(n, ()) and (n, v) not in caller_hcookies + caller_rcookies}
            under = {n: sorted(vs) for n, vs in exp.items() if got.get(n) not in vs and n not in caller_names}
            if over:
                ctx.violation("C17/jar/cookie-sent-that-rfc6265-does-not-select-for-this-hop", case,
                              f"request {k} (hop {hop}) to {s['origin']} {s['target']}: Cookie header carries {over}; the jar contents "
                              f"select {({n: sorted(v) for n, v in exp.items()})} for this URL")
            elif under:
                ctx.violation("C17/jar/cookie-selected-for-this-hop-not-sent", case,
                              f"request {k} (hop {hop}) to {s['origin']} {s['target']}: jar selection {under} missing, sent {got}")

    # a later call on the same session must not carry what was supplied to this call only
    for fs in res.get("followup") or []:
        fpairs = [p for n, v in fs["headers"] if n.lower() == "cookie" for p in cookie_pairs(v)]
        call_hcookies = [p for n, v in res["hdrs"] if n.lower() == "cookie" for p in cookie_pairs(v)]   # session defaults excluded
        call_auth = [v for n, v in res["hdrs"] if n.lower() == "authorization"]
        if any(p in caller_rcookies or p in call_hcookies for p in fpairs):
            ctx.violation("C17/confine/per-request-cookie-sent-on-a-later-call", case,
                          f"a later GET on the same session (no cookies=) carried {fpairs}: the cookies= / Cookie header of the "
                          f"earlier call were kept by the session")
        fauth = [v for n, v in fs["headers"] if n.lower() == "authorization"]
        if any(v in call_auth for v in fauth):
            ctx.violation("C17/confine/caller-authorization-sent-on-a-later-call", case, "Authorization of the earlier call re-sent")
        if any(val in fauth for _, val in url_creds):
            ctx.violation("C17/confine/url-credential-sent-on-a-later-call", case,
                          f"a later header-less GET to {fs['origin']} carries credentials that were embedded in a URL of the earlier call: "
                          f"what the client installed for one call stayed in the session")
        for nh, (nl, _, npw) in NETRC.items():
            if basic((nl, npw)) in fauth and fs["origin"] and fs["origin"][1] != nh:
                ctx.violation("C17/confine/netrc-credential-sent-to-another-host", case,
                              f"a later header-less GET to {fs['origin']} carries the netrc credentials of {nh}")
        call_pauth = [v for n, v in res["hdrs"] if n.lower() == "proxy-authorization"]
        if any(v in call_pauth for n, v in fs["headers"] if n.lower() == "proxy-authorization"):
            ctx.violation("C17/confine/caller-proxy-authorization-sent-on-a-later-call", case, "Proxy-Authorization of the earlier call re-sent")

    # method / body table (over the answered requests; a transparent resend must repeat the request it replaces)
    exp_body = res["body"][1] if res["body"] else b""
    never = [k for k, s in enumerate(seen) if s["body"] is None]
    if never or str(res["out"]) == "err,TIMEOUT":
        hang = True
    if seen[0]["method"] != case["method"].upper() or seen[0]["body"] != exp_body:
        ctx.violation("C17/table/first-request-differs", case,
                      f"first request is {seen[0]['method']} with body {seen[0]['body']!r}")
    for k in range(len(seen) - 1):
        if seen[k]["dropped"] and seen[k + 1]["hop"] == seen[k]["hop"]:
            a, b = seen[k], seen[k + 1]
            if (a["method"], a["body"], a["origin"], a["target"]) != (b["method"], b["body"], b["origin"], b["target"]):
                ctx.violation("C17/table/resend-differs-from-the-request-it-replaces", case,
                              f"request {k} {a['method']} {a['target']} body {a['body']!r} resent as {b['method']} {b['target']} body {b['body']!r}")
    answered = [x for x in seen if not x["dropped"]]
    first_of_hop = {}
    for x in seen:
        first_of_hop.setdefault(x["hop"], x)
    for k in range(len(chain)):
        if k not in first_of_hop or (k + 1) not in first_of_hop:
            break
        status, m = chain[k]["status"], first_of_hop[k]["method"]
        prev, nxt = first_of_hop[k], first_of_hop[k + 1]
        if (status == 303 and m != "HEAD") or (status in (301, 302) and m == "POST"):
            cl = hv(nxt, "content-length")
            if nxt["method"] != "GET" or (nxt["body"] or b"") != b"" or any(c not in ("0",) for c in cl) or hv(nxt, "transfer-encoding"):
                ctx.violation("C17/table/rewrite-to-get-incomplete", case,
                              f"{status} after {m}: next request is {nxt['method']} body={nxt['body']!r} "
                              f"Content-Length={cl} Transfer-Encoding={hv(nxt, 'transfer-encoding')}")
        else:
            if nxt["method"] != m or nxt["body"] != prev["body"]:
                ctx.violation("C17/table/method-or-body-not-preserved", case,
                              f"{status} after {m}: next request is {nxt['method']} with body {nxt['body']!r}, "
                              f"previous had {prev['body']!r}")
    if hang:
        ctx.violation("C17/table/request-never-completes", case,
                      f"a server never received the body its request head announced / the call did not finish (requests without body: {never})")
        return

    # termination: the redirect budget (max_redirects requests) plus ONE transparent resend per call
    n_wire = len(seen)
    resends = sum(1 for k in range(len(seen) - 1) if seen[k]["dropped"])       # dropped attempts that were followed by another attempt
    if resends > 1:
        ctx.violation("C17/limit/resend-allowance-renewed", case,
                      f"{resends} requests were silently resent after the peer closed the connection (one per call is the allowance); "
                      f"{n_wire} requests on the wire, outcome {res['out']}")
    maxr = 10 if case["max"] is None else case["max"]      # documented default
    if maxr >= 1:
        if n_wire > maxr + resends or n_wire > maxr + 1:
            ctx.violation("C17/limit/more-requests-than-max-redirects", case,
                          f"{n_wire} requests on the wire ({resends} of them resends) with max_redirects={maxr}")
        elif n_wire > maxr:
            # exactly max_redirects + 1, the surplus being the call's single resend
            ctx.violation("C17/limit/single-resend-exceeds-max-redirects-by-one", case,
                          f"{n_wire} requests on the wire with max_redirects={maxr}: max_redirects requests were answered AND one "
                          f"request was resent after a dropped connection")
    if seen[-1]["dropped"] and str(res["out"]) != "err,disconnected":
        ctx.violation("C17/limit/disconnect-not-reported", case,
                      f"the last request was never answered but the call ended with {res['out']}")
    for k, r in enumerate(chain):
        if r["status"] not in REDIRECTS and any(x["hop"] > k for x in seen):
            ctx.violation("C17/limit/non-redirect-status-followed", case,
                          f"response {k} has status {r['status']} (not one of {REDIRECTS}) yet another request was made")
            break
    if not case["allow"] and len(answered) > 1:
        ctx.violation("C17/limit/redirect-followed-with-allow-redirects-false", case, f"{len(answered)} answered requests")

    # refusals: nothing is requested after a response whose Location is not an http(s) URL
    for k, r in enumerate(chain):
        if k < len(answered) and r["status"] in REDIRECTS and case["allow"] and r["loc"]["form"] in ("nonhttp", "invalid", "badorigin"):
            if any(x["hop"] > k for x in seen) or str(res["out"]).startswith("ok"):
                what = "non-http" if r["loc"]["form"] == "nonhttp" else "invalid"
                ctx.violation(f"C17/refuse/{what}-target-not-refused", case,
                              f"response {k} redirects to {r['loc'].get('raw')!r}: {len(seen)} requests made, outcome {res['out']}")

    # history
    out = str(res["out"])
    if out.startswith("ok") and res.get("hist_public") is not None and res["hist_public"] != [h["i"] for h in res["hist"]] \
            and not (case.get("rfs") == "reads-history" and res["hist_public"] == []):
        ctx.violation("C17/history/caller-view-differs-from-recorded-history", case,
                      f"resp.history is {res['hist_public']} for the caller, the loop recorded {[h['i'] for h in res['hist']]}")
    elif out.startswith("ok") and res.get("hist_public") is not None and res["hist_public"] != [h["i"] for h in res["hist"]]:
        ctx.violation("C17/history/caller-sees-stale-history-after-raise-for-status-callback", case,
                      f"resp.history is {res['hist_public']} for the caller although the loop recorded {[h['i'] for h in res['hist']]}: "
                      f"the property was read (and cached) by the raise_for_status callback before the loop assigned it")
    if out.startswith("ok") and res.get("urls_public") is not None and not case["start"].get("nohost"):
        hist_i = [h["i"] for h in res["hist"]] + [res["final"]]
        hops = res["hops"]
        for pos, i in enumerate(hist_i):
            if pos >= len(res["urls_public"]) or i >= len(hops) or i >= res["valid_hops"]:
                break
            o, path, _cred = hops[i]
            want = url_str(o, res["first_target"] if i == 0 else path)
            got = res["urls_public"][pos]
            sch, host, port = ORIGINS[o]
            if got.split("#")[0] != want:
                ctx.violation("C17/history/url-of-recorded-response-differs", case,
                              f"response {i} was the answer to {want} but reports url {got}")
                break
            first = next((x for x in seen if x["hop"] == i), None)
            if first is not None and res["methods_public"][pos] != first["method"]:
                ctx.violation("C17/history/method-of-recorded-response-differs", case,
                              f"response {i} answered a {first['method']} but reports method {res['methods_public'][pos]}")
                break
    if out.startswith("ok"):
        f = res["final"]
        hist = [h["i"] for h in res["hist"]]
        k1 = (f in hist and hist == list(range(f + 1)) and f < len(chain) and chain[f]["status"] in REDIRECTS
              and chain[f]["loc"]["form"] in ("none", "empty") and case["allow"])
        if f in hist and not k1:
            ctx.violation("C17/history/order-or-content", case, f"history {hist} contains the returned response {f}")
        elif f in hist:
            ctx.violation("C17/history/self-in-history-no-location", case,
                          f"the returned response (index {f}, status {seen and chain[f]['status'] if f < len(chain) else '?'}) "
                          f"is an element of its own history {hist}")
        elif hist != list(range(f)) or f != len(answered) - 1:
            ctx.violation("C17/history/order-or-content", case, f"history {hist} for final response {f}, {len(answered)} answered requests")
        else:
            for h in res["hist"]:
                if h["status"] != chain[h["i"]]["status"]:
                    ctx.violation("C17/history/order-or-content", case, f"history[{h['i']}].status = {h['status']}")
        if any(not h["released"] for h in res["hist"] if h["i"] != f):
            ctx.violation("C17/history/intermediate-not-released", case, f"{res['hist']}")
        if res["leak_before"] is not None and res["leak_before"] > 1:
            ctx.violation("C17/release/connection-held-by-intermediate-response", case,
                          f"{res['leak_before']} connections acquired when the final response was returned")
    else:
        if any(not h["released"] for h in res["hist"]):
            ctx.violation("C17/history/intermediate-not-released", case, f"{res['hist']}")
    if res["leak_after"]:
        ctx.violation("C17/release/connection-leaked", case, f"{res['leak_after']} connections still acquired after the call ({out})")


# ------------------------------------------------------------------------------ generators
def rpath(rng, tag):
    return f"/d/{tag}{rng.randint(0, 99)}"


def gen_loc(rng, cur_o, k, want=None, cred_p=0.2):
    form = want or rng.choices(
        ["abs", "absupper", "schemerel", "relpath", "rel", "query", "relfrag", "uri", "none", "empty", "invalid", "nonhttp", "badorigin"],
        [30, 4, 8, 14, 8, 5, 3, 3, 3, 2, 3, 4, 2])[0]
    if form in ("invalid", "nonhttp", "badorigin"):
        raw = rng.choice({"invalid": INVALID_LOCS, "nonhttp": NONHTTP_LOCS, "badorigin": BADORIGIN_LOCS}[form])
        return {"form": form, "raw": raw}, cur_o
    if form in ("none", "empty"):
        return {"form": form}, cur_o
    p = rpath(rng, f"h{k}x")
    if form in ("relpath", "rel", "relfrag"):
        return {"form": form, "path": p}, cur_o
    if form == "query":
        return {"form": form, "q": f"z={rng.randint(0, 9)}"}, cur_o
    if form == "schemerel":
        cands = [i for i, o in enumerate(ORIGINS) if o[0] == ORIGINS[cur_o][0]]
    else:
        cands = list(range(len(ORIGINS)))
    # bias: half of the time stay on / return to a small set of origins so that A-B-A happens
    o = rng.choice(cands) if rng.random() < 0.5 else rng.choice([c for c in cands if c in (0, 1, 3)] or cands)
    if rng.random() < 0.25 and cur_o in cands:
        o = cur_o
    cred = None
    if rng.random() < cred_p:
        cred = rng.choice([[f"u{k + 1}", f"p{k + 1}"], [f"u{k + 1}", f"p{k + 1}"], [f"u{k + 1}", ""], ["", f"p{k + 1}"]])
    return {"form": form, "o": o, "path": p, "cred": cred}, o


def gen_case(rng, *, n=None, method=None, body=None, statuses=None, forms=None, secrets_p=0.7, cred_p=0.2, maxr=None):
    n = rng.randint(0, 5) if n is None else n
    method = method or rng.choices(METHODS + ["post"], [20, 6, 20, 10, 5, 6, 4, 3, 2])[0]
    bkind = body or rng.choices(BODY_KINDS, [30, 18, 4, 8, 10, 10, 8, 6])[0]
    if method.upper() == "HEAD" and bkind not in ("none", "empty"):
        # the in-memory aiohttp *server* does not read a HEAD request's body (it would be parsed as the next request)
        bkind = "none"
    o0 = rng.choice([0, 0, 0, 1, 2, 3, 4, 5, 6])
    start = {"o": o0, "path": rpath(rng, "s"),
             "cred": rng.choice([["u0", "p0"], ["u0", "p0"], ["u0", ""], ["", "p0"]]) if rng.random() < cred_p else None}
    headers = []
    if rng.random() < secrets_p:
        if rng.random() < 0.7 and not start["cred"]:
            headers.append(["Authorization", "Bearer CALLER-A"])
            if rng.random() < 0.2:
                headers.append([rng.choice(["authorization", "Authorization"]), "Bearer CALLER-A2"])
        if rng.random() < 0.5:
            headers.append([rng.choice(["Cookie", "cookie"]), rng.choice(["hc=1", "hc=1; hd=2", "j0=callerwins; hc=3"])])
        if rng.random() < 0.4:
            headers.append(["Proxy-Authorization", "Basic CALLER-P"])
            if rng.random() < 0.2:
                headers.append([rng.choice(["PROXY-AUTHORIZATION", "Proxy-Authorization"]), "Basic CALLER-P2"])
    if rng.random() < 0.3:
        headers.append(["X-Other", "1"])
    if rng.random() < 0.12:
        headers.append(["Host", "custom.test"])
    if rng.random() < 0.15:
        headers.append(["User-Agent", "c17"])
    if bkind != "none" and rng.random() < 0.3:
        headers.append(["Content-Length", "@len"])
    if rng.random() < 0.15:
        headers.append(["Content-Type", "x/y"])
    rng.shuffle(headers)
    cookies = None
    if rng.random() < 0.45:
        cookies = rng.choice([{"rc": "v"}, {"rc": "v", "rd": "w"}, {"j0": "reqwins"}, {}])
    jar0 = []
    if rng.random() < 0.5:
        for o in rng.sample(range(len(ORIGINS)), rng.randint(1, 3)):
            jar0.append([o, f"j{o}", f"jar{o}"])
    chain = []
    cur = o0
    for k in range(n):
        status = rng.choice(statuses) if statuses else rng.choices(list(REDIRECTS) + [200, 304, 404], [20, 25, 20, 20, 15, 3, 1, 1])[0]
        want = None
        if forms:
            want = rng.choice(forms)
        loc, cur = gen_loc(rng, cur, k, want, cred_p)
        r = {"status": status, "loc": loc}
        if rng.random() < 0.35:
            r["set_cookie"] = rng.sample([f"s{k}=v{k}", f"t{k}=w{k}; Path=/d", f"dom{k}=x; Domain=a.test", f"sec{k}=y; Secure",
                                          "j0=overwritten", f"p{k}=q; Path=/nomatch"], rng.randint(1, 2))
        if rng.random() < 0.3:
            r["body"] = rng.choice([1, 5, 300, -2, -40])
        chain.append(r)
    case = {"max": maxr if maxr is not None else rng.choices([10, 0, 1, 2, 3, n, n + 1, max(n - 1, 1)], [40, 8, 6, 8, 8, 10, 10, 10])[0],
            "allow": rng.random() < 0.93, "trust": rng.random() < 0.2,
            "method": method, "start": start, "params": {"q": "1"} if rng.random() < 0.15 else None,
            "headers": headers, "cookies": cookies, "jar0": jar0,
            "body": {"kind": bkind, "data": "BODY" + "x" * rng.choice([0, 1, 7])}, "chain": chain}
    if rng.random() < 0.12:
        case["session_headers"] = rng.choice([[["Authorization", "Bearer SESSION-A"]], [["X-Sess", "1"], ["Cookie", "sc=1"]],
                                              [["Proxy-Authorization", "Basic SESSION-P"], ["User-Agent", "sess"]]])
    if rng.random() < 0.1:
        case["jar_kind"] = "dummy"
        case["jar0"] = []
    if rng.random() < 0.15:
        case["followup"] = [o0, rng.randrange(len(ORIGINS))]
    if rng.random() < 0.06:
        case["rfs"] = "reads-history"
    if rng.random() < 0.06 and not case.get("jar_kind"):
        case["secure_origins"] = rng.sample([0, 1, 5, 10], rng.randint(1, 2))
    if rng.random() < 0.15:
        case["faults"] = sorted(rng.sample(range(0, n + 3), rng.choice([1, 1, 2, 3])))
        if rng.random() < 0.2:
            case["retry"] = False
    if rng.random() < 0.1:
        case["final"] = {"status": rng.choice([200, 204, 404, 500]), "set_cookie": ["fin=1"]}
    return case


def systematic_table():
    """every status x method x body kind, one hop same-origin then one hop cross-origin"""
    for status in REDIRECTS:
        for method in METHODS:
            for kind in BODY_KINDS:
                if method == "HEAD" and kind not in ("none", "empty"):
                    continue
                for second in (None, 307, 303):
                    chain = [{"status": status, "loc": {"form": "relpath", "path": "/d/t1"}}]
                    if second:
                        chain.append({"status": second, "loc": {"form": "abs", "o": 3, "path": "/d/t2", "cred": None}})
                    hs = [["Authorization", "Bearer CALLER-A"]]
                    if kind != "none" and status in (301, 303):
                        hs.append(["Content-Length", "@len"])
                    yield {"max": 10, "allow": True, "trust": False, "method": method,
                           "start": {"o": 0, "path": "/d/t0", "cred": None}, "params": None, "headers": hs,
                           "cookies": {"rc": "v"}, "jar0": [], "body": {"kind": kind, "data": "BODY-" + kind}, "chain": chain}


def origin_walks():
    """all origin walks of length 3 over 4 origins with caller secrets, and with credentials in every position"""
    import itertools
    for a, b, c in itertools.product([0, 1, 2, 3], repeat=3):
        for credpos in (None, 0, 1, 2):
            start = {"o": 0, "path": "/d/w0", "cred": ["u0", "p0"] if credpos == 0 else None}
            hs = [["Cookie", "hc=1"], ["Proxy-Authorization", "Basic CALLER-P"]]
            if credpos != 0:
                hs.insert(0, ["Authorization", "Bearer CALLER-A"])
            chain = []
            for k, o in enumerate((a, b, c)):
                chain.append({"status": (302, 307, 308)[k], "loc": {"form": "abs", "o": o, "path": f"/d/w{k + 1}",
                                                                     "cred": [f"u{k + 1}", f"p{k + 1}"] if credpos == k + 1 else None},
                              "set_cookie": [f"s{k}=v{k}"]})
            yield {"max": 10, "allow": True, "trust": False, "method": "GET", "start": start, "params": None,
                   "headers": hs, "cookies": {"rc": "v"}, "jar0": [[0, "j0", "jar0"], [3, "j3", "jar3"]],
                   "body": {"kind": "none"}, "chain": chain}


def counter_cases():
    for n in range(0, 6):
        for maxr in range(0, 8):
            chain = [{"status": 302, "loc": {"form": "relpath", "path": f"/d/c{k + 1}"}} for k in range(n)]
            yield {"max": maxr, "allow": True, "trust": False, "method": "GET", "start": {"o": 0, "path": "/d/c0", "cred": None},
                   "params": None, "headers": [], "cookies": None, "jar0": [], "body": {"kind": "none"}, "chain": chain}


def jar_walks():
    """the real CookieJar with its caches warm: hop 0 sets cookies (host-only / Domain / Path-limited / Secure), 0-2 further
    hops to the setting host warm the jar's per-(domain, path) caches, then a hop to a sub-domain / sibling / parent / other
    host / other scheme / other path, then back"""
    sets = [["sid=SECRET; Path=/"], ["sid=SECRET"], ["dsid=D; Domain=a.test; Path=/"], ["psid=P; Path=/d/only"],
            ["ssid=S; Secure; Path=/"],
            ["sid=SECRET; Path=/", "dsid=D; Domain=a.test", "psid=P; Path=/d/only", "ssid=S; Secure; Path=/"]]
    for start_o in (0, 5, 2):
        for warm in (0, 1, 2):
            for tgt in range(len(ORIGINS)):
                for tpath in ("/d/t", "/e/t", "/d/only/x"):
                    for cs in sets:
                        chain = [{"status": 302, "loc": {"form": "relpath", "path": "/d/home0"}, "set_cookie": cs}]
                        for i in range(warm):
                            chain.append({"status": 302, "loc": {"form": "relpath", "path": ("/d/only/w", "/d/home")[i % 2] + str(i)}})
                        chain.append({"status": 302, "loc": {"form": "abs", "o": tgt, "path": tpath, "cred": None}})
                        chain.append({"status": 302, "loc": {"form": "abs", "o": start_o, "path": "/d/back", "cred": None}})
                        yield {"max": 10, "allow": True, "trust": False, "method": "GET",
                               "start": {"o": start_o, "path": "/d/login", "cred": None}, "params": None, "headers": [],
                               "cookies": None, "jar0": [], "body": {"kind": "none"}, "chain": chain, "class": "jar-walk"}


def reissue_walks():
    """the same cookie (name, domain, path) is issued twice along the chain with changed attributes (Secure added / removed,
    same or new value); later hops alternate between http and https of the same host"""
    for http_o, https_o in ((0, 2), (5, 9)):
        for first_o, second_o in ((http_o, https_o), (https_o, http_o), (http_o, http_o), (https_o, https_o)):
            for a1 in ("", "; Secure"):
                for a2 in ("", "; Secure"):
                    for v2 in ("V1", "V2"):
                        for dom in ("", "; Domain=a.test"):
                            chain = [
                                {"status": 302, "loc": {"form": "abs", "o": second_o, "path": "/d/step", "cred": None},
                                 "set_cookie": [f"sid=V1{dom}; Path=/{a1}"]},
                                {"status": 302, "loc": {"form": "abs", "o": http_o, "path": "/d/plain", "cred": None},
                                 "set_cookie": [f"sid={v2}{dom}; Path=/{a2}"]},
                                {"status": 302, "loc": {"form": "abs", "o": https_o, "path": "/d/sec", "cred": None}},
                                {"status": 302, "loc": {"form": "abs", "o": http_o, "path": "/d/plain2", "cred": None}},
                            ]
                            yield {"max": 10, "allow": True, "trust": False, "method": "GET",
                                   "start": {"o": first_o, "path": "/d/login", "cred": None}, "params": None, "headers": [],
                                   "cookies": None, "jar0": [], "body": {"kind": "none"}, "chain": chain, "class": "reissue-walk"}


def secure_origin_walks():
    """CookieJar(treat_as_secure_origin=[...]) for plain-http origins; Secure cookies; hops over every other port / scheme /
    sub-domain of that host and a foreign host"""
    for so in ([1], [0], [10, 5], [1, 10]):
        for set_o in (so[0], 2):
            for walk in ((0, 1, 10), (10, 1, 0), (1, 2, 10), (5, 10, 0), (10, 3, 1), (1, 10, 1)):
                for attrs in ("; Secure; Path=/", "; Secure", "; Secure; Domain=a.test; Path=/"):
                    chain = [{"status": 302, "loc": {"form": "abs", "o": walk[0], "path": "/d/w1", "cred": None},
                              "set_cookie": [f"ssid=S{attrs}", "plain=P; Path=/"]}]
                    for k, o in enumerate(walk[1:]):
                        chain.append({"status": 302, "loc": {"form": "abs", "o": o, "path": f"/d/w{k + 2}", "cred": None}})
                    yield {"max": 10, "allow": True, "trust": False, "method": "GET", "start": {"o": set_o, "path": "/d/w0", "cred": None},
                           "params": None, "headers": [], "cookies": None, "jar0": [], "body": {"kind": "none"}, "chain": chain,
                           "secure_origins": so, "class": "secure-origin-walk"}


def session_state_cases():
    """header-less calls in which the client itself installs credentials (URL / Location userinfo, netrc), followed by
    header-less calls on the same session to the same and to other origins"""
    for trust in (False, True):
        for scred in (None, ["u0", "p0"]):
            for walk in ((), (0,), (3,), (3, 0), (1,), (0, 3)):
                for lcred in (None, 0, len(walk) - 1):
                    if lcred is not None and (lcred < 0 or (lcred == 0 and len(walk) == 1 and False)):
                        continue
                    chain = []
                    for k, o in enumerate(walk):
                        chain.append({"status": (302, 307)[k % 2], "loc": {"form": "abs", "o": o, "path": f"/d/q{k + 1}",
                                                                            "cred": [f"u{k + 1}", f"p{k + 1}"] if lcred == k else None}})
                    for rfs in (None, "reads-history"):
                        if rfs and (trust or scred):
                            continue
                        c = {"max": 10, "allow": True, "trust": trust, "method": "GET", "start": {"o": 0, "path": "/d/q0", "cred": scred},
                             "params": None, "headers": [], "cookies": None, "jar0": [], "body": {"kind": "none"}, "chain": chain,
                             "followup": [0, 3, 5], "class": "session-state"}
                        if rfs:
                            c["rfs"] = rfs
                        yield c


def dummy_jar_cases():
    """DummyCookieJar sessions: per-request cookies= and Set-Cookie responses along same-origin, cross-origin and A-B-A chains;
    a later call on the same session must be clean"""
    for cookies in ({"rc": "v"}, {"rc": "v", "rd": "w"}, None):
        for walk in ((0,), (3,), (0, 3), (3, 0), (1, 0), (0, 0, 3), (2, 0)):
            for status in (302, 307):
                for hdr in ([], [["Cookie", "hc=1"]]):
                    chain = [{"status": status, "loc": {"form": "abs", "o": o, "path": f"/d/j{k + 1}", "cred": None},
                              "set_cookie": [f"s{k}=v{k}; Path=/"]} for k, o in enumerate(walk)]
                    yield {"max": 10, "allow": True, "trust": False, "method": "GET", "start": {"o": 0, "path": "/d/j0", "cred": None},
                           "params": None, "headers": hdr, "cookies": cookies, "jar0": [], "body": {"kind": "none"}, "chain": chain,
                           "jar_kind": "dummy", "followup": True, "class": "dummy-jar"}


def fault_chains():
    """the peer closes a connection without answering: first attempt of hop k, every hop, twice in a row, the last hop"""
    for status in REDIRECTS:
        for method, kind in (("GET", "none"), ("POST", "bytes"), ("PUT", "bytes"), ("PUT", "agen"), ("DELETE", "none")):
            for n in (1, 2, 3, 5):
                pats = [[k] for k in range(n + 1)]                     # first attempt of hop k (no earlier drop)
                pats.append([2 * k for k in range(n + 1)])             # the first attempt of every hop
                pats += [[k, k + 1] for k in range(0, n + 1, max(1, n // 2))]   # twice in a row at hop k
                pats.append([1, 3])
                for faults in pats:
                    for maxr in sorted({10, n, n + 1, 6}):
                        for retry in (True, False):
                            if not retry and (len(faults) != 1 or maxr != 10):
                                continue
                            chain = [{"status": status, "loc": {"form": "relpath", "path": f"/d/r{k + 1}"}} for k in range(n)]
                            yield {"max": maxr, "allow": True, "trust": False, "retry": retry, "method": method,
                                   "start": {"o": 0, "path": "/d/r0", "cred": None}, "params": None,
                                   "headers": [["Authorization", "Bearer CALLER-A"]] if n == 2 else [], "cookies": None, "jar0": [],
                                   "body": {"kind": kind, "data": "BODY"}, "chain": chain, "faults": faults, "class": "fault-chain"}


def scripted_cases():
    """one deterministic case per mechanism the check claims to catch (run first, on every seed)"""
    def c(method="GET", start_o=0, chain=(), **kw):
        d = {"max": 10, "allow": True, "trust": False, "method": method, "start": {"o": start_o, "path": "/d/z0", "cred": None},
             "params": None, "headers": [], "cookies": None, "jar0": [], "body": {"kind": "none"}, "chain": list(chain),
             "class": "scripted"}
        d.update(kw)
        return d

    def hop(status, form, k, **loc):
        loc.setdefault("path", f"/d/z{k}")
        if form in ("abs", "absupper", "absport", "uri", "schemerel"):
            loc.setdefault("cred", None)
        return {"status": status, "loc": dict(form=form, **loc)}
    secrets = [["Authorization", "Bearer CALLER-A"], ["Authorization", "Bearer CALLER-A2"], ["Cookie", "hc=1"],
               ["Proxy-Authorization", "Basic CALLER-P"], ["Proxy-Authorization", "Basic CALLER-P2"]]
    out = []
    # origin comparison: other port / other scheme / other host / sub-domain, duplicates of every secret header
    for o in (1, 2, 3, 5, 10):
        out.append(c(chain=[hop(302, "abs", 1, o=o), hop(307, "abs", 2, o=0)], headers=secrets, cookies={"rc": "v"}))
    # the default port spelled out is the same origin: secrets stay
    out.append(c(chain=[hop(302, "absport", 1, o=0), hop(302, "absport", 2, o=2)], headers=secrets, cookies={"rc": "v"}))
    out.append(c(start_o=2, chain=[hop(302, "absport", 1, o=2)], headers=secrets, cookies={"rc": "v"}))
    # statuses that are NOT redirects, with a Location: returned as they are
    for st_ in (300, 304, 305, 306, 399, 201, 200, 404):
        out.append(c(chain=[hop(st_, "abs", 1, o=3)], headers=secrets))
        out.append(c(method="POST", chain=[hop(302, "relpath", 1), hop(st_, "relpath", 2)], body={"kind": "bytes", "data": "BODY"}))
    # the table, one case per row incl. HEAD and the Content-Length drop
    for st_ in REDIRECTS:
        for m, kind in (("POST", "bytes"), ("PUT", "bytesio"), ("HEAD", "none"), ("GET", "none"), ("DELETE", "str"), ("PUT", "agen")):
            hs = [["Content-Length", "@len"]] if kind in ("bytes", "str") else []
            out.append(c(method=m, chain=[hop(st_, "relpath", 1), hop(st_, "abs", 2, o=3)], body={"kind": kind, "data": "BODY-" + kind}, headers=hs))
    # documented defaults: max_redirects=10 (not passed), allow_redirects=True (not passed); boundary 9 / 10 / 11 redirects
    for n in (9, 10, 11):
        out.append(c(chain=[hop(302, "relpath", k + 1) for k in range(n)], max=None, allow_default=True))
        out.append(c(chain=[hop(303, "relpath", k + 1) for k in range(n)], max=10))
    # refusals
    for form, raws in (("nonhttp", NONHTTP_LOCS), ("invalid", INVALID_LOCS), ("badorigin", BADORIGIN_LOCS)):
        for raw in raws:
            out.append(c(chain=[hop(302, "relpath", 1), {"status": 301, "loc": {"form": form, "raw": raw}}, hop(302, "relpath", 3)]))
    # URL credentials: override on a later hop, same-origin carry, cross-origin drop, user-only / password-only
    for cred in (["u1", "p1"], ["u1", ""], ["", "p1"]):
        out.append(c(chain=[hop(302, "abs", 1, o=0, cred=cred), hop(302, "relpath", 2), hop(302, "abs", 3, o=3)],
                     headers=[["Authorization", "Bearer CALLER-A"]]))
        out.append(c(start_o=3, chain=[hop(302, "abs", 1, o=3, cred=cred), hop(302, "abs", 2, o=3, cred=["u2", "p2"])]))
    # params only on the first hop; caller Host only on the first hop; jar re-selection after a Set-Cookie in the chain
    out.append(c(chain=[hop(302, "relpath", 1), hop(302, "query", 2, q="z=1")], params={"q": "1"}, headers=[["Host", "custom.test"]]))
    ch = [hop(302, "relpath", 1), hop(302, "abs", 2, o=5), hop(302, "abs", 3, o=0)]
    ch[0]["set_cookie"] = ["s0=v0; Path=/", "t0=w0; Path=/d/z1"]
    ch[1]["set_cookie"] = ["s0=v1; Path=/"]
    out.append(c(chain=ch, jar0=[[0, "j0", "jar0"], [5, "j5", "jar5"]], cookies={"j0": "reqwins"}))
    # responses with a body still in flight: followed redirect, TooManyRedirects, refusal
    for maxr, last in ((10, hop(302, "relpath", 2)), (2, hop(302, "relpath", 2)), (10, {"status": 302, "loc": {"form": "nonhttp", "raw": "ftp://b.test/x"}})):
        ch = [hop(302, "relpath", 1), last]
        ch[0]["body"] = -40
        ch[1]["body"] = -40
        out.append(c(chain=ch, max=maxr))
    # trust_env: netrc for the first host only / for both, caller Authorization wins
    out.append(c(trust=True, chain=[hop(302, "abs", 1, o=5), hop(302, "abs", 2, o=3), hop(302, "abs", 3, o=0)], followup=[0, 3, 5]))
    out.append(c(trust=True, chain=[hop(302, "abs", 1, o=3)], headers=[["Authorization", "Bearer CALLER-A"]]))
    # Location spellings that need (re)quoting, with requote_redirect_url on (default) and off
    out.append(c(chain=[{"status": 302, "loc": {"form": "quoted", "raw": "/d/a%20b?x=%7E1", "path": "/d/a%20b?x=~1"}}]))
    out.append(c(chain=[{"status": 302, "loc": {"form": "quoted", "raw": "/d/a%20b?x=%7E1", "path": "/d/a%20b?x=%7E1"}}], requote=False))
    out.append(c(chain=[{"status": 302, "loc": {"form": "quoted", "raw": "/d/%7Euser/x", "path": "/d/~user/x"}}]))
    out.append(c(chain=[{"status": 302, "loc": {"form": "quoted", "raw": "/d/%7Euser/x", "path": "/d/%7Euser/x"}}], requote=False))
    return out


def corpus_cases():
    d = os.path.join(os.path.dirname(os.path.dirname(os.path.abspath(__file__))), "corpus", "C17")
    out = []
    if os.path.isdir(d):
        for fn in sorted(os.listdir(d)):
            if fn.endswith(".json"):
                with open(os.path.join(d, fn)) as f:
                    out.append(json.load(f))
    return out


# ------------------------------------------------------------------------------ check
def classify_generated(ctx, case):
    chain = case["chain"]
    os_ = [case["start"]["o"]]
    for r in chain:
        ctx.hit(f"gen:status:{r['status']}", "gen:form:" + r["loc"]["form"])
        if r.get("body", 0) < 0:
            ctx.hit("gen:slow-body")
        if "o" in r["loc"]:
            os_.append(r["loc"]["o"])
    if any(os_[i] != os_[0] and os_[0] in os_[i + 1:] for i in range(1, len(os_))):
        ctx.hit("gen:A-B-A")
    if case["start"].get("cred") or any(r["loc"].get("cred") for r in chain):
        ctx.hit("gen:url-credentials")
    if case.get("trust"):
        ctx.hit("gen:trust-env")
    ctx.hit("gen:body:" + case["body"]["kind"])
    if case.get("faults"):
        ctx.hit("gen:fault:" + ("one" if len(case["faults"]) == 1 else "several"))
        if not case.get("retry", True):
            ctx.hit("gen:fault:retry-off")
    if case.get("class"):
        ctx.hit("gen:class:" + case["class"])
    if case.get("jar_kind") == "dummy":
        ctx.hit("gen:dummy-jar" + ("+cookies" if case.get("cookies") else ""))
    if case.get("followup"):
        ctx.hit("gen:followup-call")
    if case.get("rfs"):
        ctx.hit("gen:raise-for-status-callback")
    if case.get("secure_origins"):
        ctx.hit("gen:treat-as-secure-origin")


def classify(ctx, case, res, hang):
    classify_generated(ctx, case)
    ctx.hit("len:" + str(len(case["chain"])))
    if res is None:
        ctx.hit("outcome:HANG-no-result")
        return
    ctx.hit("requests:" + str(len(res["seen"])))
    ctx.hit("outcome:" + ("HANG" if hang else str(res["out"]).split(",")[1] if str(res["out"]).startswith("err") else "ok"))
    for k, r in enumerate(case["chain"][: len(res["seen"])]):
        ctx.hit(f"status:{r['status']}", "form:" + r["loc"]["form"])
    ctx.hit("body:" + case["body"]["kind"], "method:" + case["method"].upper())
    origins = [s["origin"] for s in res["seen"]]
    if len(set(origins)) > 1:
        ctx.hit("cross-origin-chain")
        if origins[0] in origins[1:] and any(o != origins[0] for o in origins[1: len(origins) - 1 - origins[::-1].index(origins[0])]):
            ctx.hit("A-B-A")
    if case["start"].get("cred") or any(r["loc"].get("cred") for r in case["chain"]):
        ctx.hit("url-credentials")
    if case.get("trust"):
        ctx.hit("trust-env")


def run_all(ctx, cases):
    results = []
    for case in cases:
        if ctx.time_left() is not None and ctx.time_left() < 8:
            ctx.notes.append("time budget reached before all generated cases were run")
            break
        res, hang, excs = execute(case)
        if case.get("kind") == "proxy":
            # environment proxies are outside the Lean model: direct oracle only
            ctx.hit("gen:class:" + case.get("class", "env-proxy"), "proxy-outcome:" + ("HANG" if hang or res is None else str(res["out"])))
            if res is not None:
                for x in res["seen"]:
                    ctx.hit("proxy-request:" + ("CONNECT" if x["method"] == "CONNECT" else "via-proxy" if tuple(x["endpoint"]) in PROXIES.values() else "direct"))
            ctx.case(case, nontrivial=res is not None and len(res["seen"]) > 0,
                     sample={"case": case, "seen": [(x["endpoint"], x["method"], x["target"]) for x in res["seen"]][:4]} if res and len(results) % 211 == 0 else None)
            oracle_proxy(ctx, case, res, hang)
            continue
        results.append((case, res, hang))
    lines = [r[1]["model_line"] for r in results if r[1] is not None]
    outs = ctx.model(lines) if lines else []
    j = 0
    for n, (case, res, hang) in enumerate(results):
        classify(ctx, case, res, hang)
        nontriv = res is not None and len(res["seen"]) > 0
        impl = canon(res, hang) if res is not None else "HANG"
        ctx.case(case, nontrivial=nontriv, sample={"case": case, "impl": impl[:300]} if n % 499 == 0 else None)
        oracle(ctx, case, res, hang)
        if res is not None:
            if outs is not None:
                ctx.compare(case, norm_events(impl), norm_events(outs[j]), "ClientSession._request vs Aio.C17.run")
                mo = outs[j].rsplit("O ", 1)[-1].split(",")
                ctx.hit("model-outcome:" + (mo[1] if mo[0] == "err" and len(mo) > 1 else mo[0]))
            j += 1


def check(ctx):
    for v in ("http_proxy", "https_proxy", "HTTP_PROXY", "HTTPS_PROXY", "all_proxy", "ALL_PROXY"):
        os.environ.pop(v, None)
    rng = ctx.rng
    cases = corpus_cases() + scripted_cases()
    table = list(systematic_table())
    walks = list(origin_walks())
    counters = list(counter_cases())
    jwalks = list(jar_walks())
    fchains = list(fault_chains())
    rwalks = list(reissue_walks())
    dcases = list(dummy_jar_cases())
    pcases = list(proxy_cases())
    xcases = list(explicit_proxy_cases())
    swalks = list(secure_origin_walks())
    scases = list(session_state_cases())
    # the budget of this check starts now (a first run in a fresh worktree spends minutes building the Lean side)
    import time
    ctx.deadline = time.time() + (60 if ctx.quick else 780)
    if ctx.quick:
        cases += rng.sample(table, 400) + rng.sample(walks, 200) + counters + rng.sample(jwalks, 300) + rng.sample(fchains, 400) + rwalks + rng.sample(dcases, 60) + rng.sample(pcases, 250) + rng.sample(swalks, 100) + scases + xcases
        n_rand, n_cred, n_forms = 2000, 600, 600
    else:
        cases += table + walks + counters + jwalks + fchains + rwalks + dcases + pcases + swalks + scases + xcases
        ctx.extra["exhaustive_small_scopes"] = ("all status x method x body-kind tables (x 3 continuations), all origin walks of "
                                               "length 3 over 4 origins x credential position, all (chain length, max_redirects) pairs <= (5, 7)")
        n_rand, n_cred, n_forms = 50000, 12000, 12000
    cases += [gen_case(rng) for _ in range(n_rand)]
    cases += [gen_case(rng, cred_p=0.6, secrets_p=0.9, n=rng.randint(2, 5), forms=["abs", "abs", "schemerel", "relpath", "rel", "absupper"],
                       statuses=list(REDIRECTS)) for _ in range(n_cred)]
    cases += [gen_case(rng, n=rng.randint(1, 4), statuses=list(REDIRECTS)) for _ in range(n_forms)]
    run_all(ctx, cases)
    # blind spots are judged on what was generated (and on the model's verdicts), never on the implementation's behaviour
    need = ["gen:A-B-A", "gen:url-credentials", "gen:trust-env", "gen:slow-body", "gen:fault:one", "gen:fault:several",
            "gen:fault:retry-off", "gen:class:jar-walk", "gen:class:fault-chain", "gen:class:reissue-walk", "gen:class:dummy-jar",
            "gen:dummy-jar+cookies", "gen:followup-call", "gen:class:secure-origin-walk", "gen:class:session-state",
            "gen:raise-for-status-callback", "gen:treat-as-secure-origin", "gen:class:explicit-proxy", "gen:class:env-proxy", "proxy-request:CONNECT",
            "proxy-request:via-proxy", "proxy-request:direct"] + \
           [f"gen:form:{f}" for f in ("abs", "schemerel", "rel", "relpath", "none", "invalid", "nonhttp", "badorigin")] + \
           [f"gen:status:{s}" for s in REDIRECTS] + [f"gen:body:{b}" for b in BODY_KINDS]
    if ctx.model_available:
        need += ["model-outcome:tooManyRedirects", "model-outcome:payloadConsumed", "model-outcome:nonHttpRedirect",
                 "model-outcome:invalidRedirectUrl", "model-outcome:ok", "model-outcome:disconnected"]
    missing = [n for n in need if not ctx.hits.get(n)]
    if missing:
        from .common.guard import MachineryError
        raise MachineryError(f"generator blind spot: never hit {missing}")


def replay(ctx, case):
    res, hang, excs = execute(case)
    if case.get("kind") == "proxy":
        oracle_proxy(ctx, case, res, hang)
    else:
        oracle(ctx, case, res, hang)
