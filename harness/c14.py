"""C14 — URL dispatch follows the documented resolution rule.

Implementation under test: aiohttp.web_urldispatcher (UrlDispatcher, PlainResource, DynamicResource,
StaticResource, PrefixedSubAppResource, MatchedSubAppResource), aiohttp.web_app (add_subapp,
add_domain), aiohttp.web_middlewares.normalize_path_middleware.
Model: lean/AioModel/C14.lean; theorems: lean/AioProps/C14.lean.
"""
import asyncio, itertools, os, posixpath, random, re, warnings
from .common.codec import st

PROPERTY = "C14"
LEAN_MODULES = ["AioProps.C14"]
THEOREMS = [
    "Aio.C14.index_complete",
    "Aio.C14.resolve_eq_linear",
    "Aio.C14.status_404_iff",
    "Aio.C14.status_405_iff",
    "Aio.C14.allowed_complete",
    "Aio.C14.register_indexOK",
    "Aio.C14.addRoute_good",
    "Aio.C14.addStatic_good",
    "Aio.C14.addDomain_good",
    "Aio.C14.freeze_good",
    "Aio.C14.addSubapp_good_partial",
    "Aio.C14.match_render",
    "Aio.C14.urlfor_resolve_inverse_partial",
    "Aio.C14.glob_suffix",
    "Aio.C14.mask_match_ends_with_literal",
    "Aio.C14.view_405_complete",
    "Aio.C14.frozen_refuses_mount",
    "Aio.C14.frozen_add_route_keeps_index",
    "Aio.C14.redirect_same_site",
    "Aio.C14.redirect_candidates_rooted",
    "Aio.C14.f12_quoted_literal_never_matches",
    "Aio.C14.subapp_with_domain_keyerror",
]
RULE = ("route-table programs (add_route / add_static / add_subapp / add_domain, nested to depth 3) over templates built "
        "from the segments {a, b, ab, 'a b', x.y} and the variable forms {x} {y} {x:\\d+} {x:[ab]+} {tail:.*} a{x} {x}.txt "
        "{x}-{y}, with shadowing / overlapping templates, every permutation of small tables, plus a malformed-template "
        "stream; request paths instantiated from the table's own templates and mutated (extra / missing / doubled "
        "slashes, swapped and percent-encoded segments, %2F %25 %252F %0A, non-ASCII digits, dot segments) plus random "
        "paths over the same alphabet; methods GET POST PUT HEAD DELETE OPTIONS; Host headers aimed at every Domain/MaskDomain rule of the table (an instance of the rule and its near misses: foreign or glued suffix, port, trailing dot, upper case, empty label, foreign prefix, line feed), each (rule, host) pair also judged directly; url_for on "
        "every dynamic template with values containing quoting-sensitive characters; normalize_path_middleware on "
        "slash-heavy and //host-like paths for all flag combinations. Class-based views (add_view of generated View subclasses defining 0-3 standard methods, in main and sub-applications); the view is CALLED for a found view route and its answer observed; request methods additionally drawn from extension methods, other letter case, near misses and every token whose lower-case form names an attribute of View (REQUEST, _ITER, __AWAIT__, ...). Route-table HISTORIES: refused operations are interleaved (add_subapp / add_domain of the very sub-application that is mounted next, on a frozen application or with a bad prefix / domain; add_route / add_static / add_subapp / add_domain after the application was frozen) and every involved object is compared before/after the refusal; requests with every method on paths with dot segments and encoded dots (%2E) around each static and sub-application prefix, judged 404-vs-405 by the documented rule. A case is one (table, request) pair; distinct by content.")
TRUSTED_BASE = [
    "yarl is not modelled: _requote_path(literal), _quote_path(value), URL.path_safe(request path) and str(URL(candidate)) are oracle columns taken from the real library per case",
    "os.path.normpath (StaticResource.resolve) is an oracle column",
    "Python re is not modelled: templates are restricted to literal | {v} | {v:C+} | {v:C*} with C a character class; each class is expanded over all code points from the real re into Generated/C14.lean on every run and the part-list matcher is validated against the real compiled pattern by correspondence",
    "Domain validation (yarl host parsing) is taken from the real Domain object",
]
ASSUMPTIONS = [
    "request paths start with '/' (origin-form); the empty path resolves to 404 without consulting any resource",
    "every resource has at least one route (add_route API); a route-less resource that matches the path is reported as 404",
    "url_for/resolve inverse is claimed for templates whose variables occupy whole segments and for non-empty values matching the variable's own pattern; '/{x}-{y}' is inherently ambiguous",
    "a sub-application's verdict (including 404/405) is final once the path is under its prefix, as documented for add_subapp",
]

HERE_DIR = os.path.dirname(os.path.abspath(__file__))
ONLY_SCRIPTED = bool(os.environ.get("C14_ONLY_SCRIPTED"))   # debugging: run the scripted (seed-independent) part alone

CLASS_TEXTS = [r"\d+", r"[ab]+", r".*"]


# ------------------------------------------------------------------------------ generated tables
def _ranges_of(text):
    rx = re.compile(text)
    out, start, prev = [], None, None
    for c in range(0x110000):
        if rx.fullmatch(chr(c)) is not None:
            if start is None:
                start = c
            prev = c
        elif start is not None:
            out.append((start, prev)); start = None
    if start is not None:
        out.append((start, prev))
    return out


def _lst(s):
    return "[" + ", ".join(str(ord(c)) for c in s) + "]"


def meth_all():
    from aiohttp import hdrs
    return sorted(hdrs.METH_ALL)


def generate(repo):
    from aiohttp.web_urldispatcher import DynamicResource
    good = DynamicResource.GOOD
    rows = []
    for text in [good] + CLASS_TEXTS:
        body = ", ".join(f"({a}, {b})" for a, b in _ranges_of(text))
        mn = 0 if re.fullmatch(text, "") is not None else 1
        rows.append(f"  ({_lst(text)}, [{body}], {mn})")
    return {"AioModel/Generated/C14.lean":
            "-- GENERATED by harness/c14.py from /repo/aiohttp/web_urldispatcher.py and Python `re` — do not edit\n"
            "namespace Aio.Gen.C14\n"
            "/-- `DynamicResource.GOOD` -/\n"
            f"def goodText : List Nat := {_lst(good)}\n"
            "/-- (regex text of a variable, code-point ranges of its character class as matched by `re`, minimal length) -/\n"
            "def classTable : List (List Nat × List (Nat × Nat) × Nat) := [\n" + ",\n".join(rows) + "]\n"
            "/-- `hdrs.METH_ALL`, sorted -/\n"
            "def methAll : List (List Nat) := [" + ", ".join(_lst(m) for m in meth_all()) + "]\n"
            "end Aio.Gen.C14\n"}


# ------------------------------------------------------------------------------ programs
# op = ("R", method, path, hid) | ("S", prefix, hid) | ("SUB", prefix, ops) | ("DOM", domain, ops)
LIT_SEGS = ["a", "b", "ab", "a b", "x.y"]
VAR_SEGS = ["{x}", "{y}", "{x:\\d+}", "{x:[ab]+}", "{tail:.*}", "a{x}", "{x}.txt", "{x}-{y}", "{y:[ab]+}"]
BAD_TEMPLATES = ["/{x", "/x}", "/{1x}", "/{x}/{x}", "/{x:}", "noslash", "/{x y}", "/a/{x:\\d+}/{x}", "/{x}}", "/{{x}",
                 "/{x:a\nb}"]
METHODS_REG = ["GET", "POST", "PUT", "*", "HEAD"]
METHODS_REQ = ["GET", "POST", "PUT", "HEAD", "DELETE", "OPTIONS"]
VIEW_METHODS = ["GET", "POST", "PUT", "DELETE", "PATCH", "HEAD", "OPTIONS", "TRACE", "CONNECT"]
# extension methods, other letter case, near misses: any RFC 9110 token is a syntactically valid method
METHODS_EXT = ["PROPFIND", "PURGE", "QUERY", "M-SEARCH", "Get", "get", "gEt", "pOST", "Post", "PATCH", "TRACE", "CONNECT",
               "*", "GETX", "GE", "G.T", "X_Y", "~", "!#$%&'*+-.^_`|~", "0", "İ", "ſ"]
_METHODS_ATTR = []


def methods_from_attributes():
    """method tokens whose lower-case form names an attribute of View / a view instance (request, _iter, __await__, …)"""
    if not _METHODS_ATTR:
        from aiohttp import web
        from aiohttp.web_urldispatcher import HTTP_METHOD_RE
        names = set(dir(web.View)) | {"request", "_request"}
        _METHODS_ATTR.extend(sorted(n.upper() for n in names if HTTP_METHOD_RE.match(n.upper()) and n.upper().lower() == n))
    return _METHODS_ATTR


def has_view(ops):
    return any(op[0] == "V" or (op[0] in ("SUB", "DOM") and has_view(op[2])) for op in ops)


def gen_method(rng, views):
    r = rng.random()
    if r < (0.45 if views else 0.85):
        return rng.choice(METHODS_REQ)
    if r < (0.75 if views else 0.93):
        return rng.choice(METHODS_EXT)
    return rng.choice(methods_from_attributes())

DOMAINS = ["a.example", "b.example", "*.b.example", "a.example:8080", "*.b.example:8080", "a.*", "a.*.example", "A.Example."]
HOSTS = [None, "a.example", "A.EXAMPLE", "b.example", "x.b.example", "", "c.example"]
PREFIXES = ["/p", "/a", "/p/", "/p/q", "/a b", "/ab", "/x.y", "/a+b"]


class HidGen:
    def __init__(self):
        self.n = 0

    def next(self, k=1):
        v = self.n
        self.n += k
        return v


def gen_template(rng):
    r = rng.random()
    if r < 0.04:
        return rng.choice(BAD_TEMPLATES)
    if r < 0.08:
        return rng.choice(["/", "", "//", "/a//b", "/a//"])
    n = rng.choice([1, 1, 2, 2, 2, 3])
    segs = []
    for _ in range(n):
        segs.append(rng.choice(VAR_SEGS) if rng.random() < 0.45 else rng.choice(LIT_SEGS[:3] if rng.random() < 0.85 else LIT_SEGS))
    t = "/" + "/".join(segs)
    # at most one variable of each name
    names = re.findall(r"\{(\w+)", t)
    if len(names) != len(set(names)) and rng.random() < 0.9:
        return gen_template(rng)
    if rng.random() < 0.2:
        t += "/"
    return t


def gen_ops(rng, hg, depth, maxops=5):
    ops = []
    pool = [gen_template(rng) for _ in range(3)]
    for _ in range(rng.randint(1, maxops)):
        r = rng.random()
        if r < 0.72 or depth <= 0:
            # re-use templates of the pool so that shadowing / same-path resources are common
            path = rng.choice(pool) if rng.random() < 0.5 else gen_template(rng)
            if ops and ops[-1][0] == "R" and "{" in ops[-1][2] and rng.random() < 0.2:
                # same template as the resource added last, constraints dropped / added / variable renamed: a new
                # resource, NOT a further route of the last one (add_resource re-uses only the identical template)
                prev = ops[-1][2]
                path = rng.choice([re.sub(r":[^{}]+\}", "}", prev), re.sub(r"\{(\w+)\}", r"{\1:\\d+}", prev, count=1),
                                   re.sub(r"\{x\b", "{y", prev) if "{y" not in prev else prev, prev + "/", prev.rstrip("/") or "/"])
            if rng.random() < 0.10:
                ops.append(("G", path, hg.next()))
            elif rng.random() < 0.12:
                # class-based view (add_view): route method '*', the class decides which methods it serves
                ops.append(("V", path, hg.next(16), tuple(sorted(rng.sample(VIEW_METHODS, rng.randint(0, 3))))))
            else:
                ops.append(("R", rng.choice(METHODS_REG), path, hg.next()))
        elif r < 0.80:
            ops.append(("S", rng.choice(PREFIXES + ["/s", "/s/", "/"]), hg.next(2)))
        elif r < 0.93:
            ops.append(("SUB", rng.choice(PREFIXES), gen_ops(rng, hg, depth - 1, 3), gen_attempts(rng)))
        else:
            ops.append(("DOM", rng.choice(DOMAINS), gen_ops(rng, hg, depth - 1, 3), gen_attempts(rng)))
    return ops


BAD_PREFIXES = ["", "/", "//", "nop", "p/q"]
BAD_DOMAINS = ["", "http://a.example", "bad domain", "-a.example", "a..example"]


def gen_attempts(rng):
    """rejected mounts that precede the real one: ("f", prefix) add_subapp on a frozen application,
    ("b", prefix) add_subapp with a bad prefix, ("fd", domain) add_domain on a frozen application,
    ("bd", domain) add_domain with a domain that is refused"""
    out = []
    while rng.random() < 0.3 and len(out) < 3:
        k = rng.choice(["f", "f", "b", "fd", "bd"])
        arg = {"f": PREFIXES + ["/old", "/api"], "b": BAD_PREFIXES, "fd": DOMAINS, "bd": BAD_DOMAINS}[k]
        out.append((k, rng.choice(arg)))
    return out


def attempts_of(op):
    return list(op[3]) if len(op) > 3 else []


def renumber(ops, hg):
    out = []
    for op in ops:
        if op[0] == "R":
            out.append(("R", op[1], op[2], hg.next()))
        elif op[0] == "V":
            out.append(("V", op[1], hg.next(16), tuple(op[3])))
        elif op[0] == "G":
            out.append(("G", op[1], hg.next()))
        elif op[0] == "S":
            out.append(("S", op[1], hg.next(2)))
        elif op[0] in ("SUB", "DOM"):
            out.append((op[0], op[1], renumber(op[2], hg), attempts_of(op)))
        else:
            out.append(tuple(op))
    return out


# ------------------------------------------------------------------------------ real build
def _exc_code(e):
    if isinstance(e, KeyError):
        return "E_KEY"
    if isinstance(e, AssertionError):
        return "E_ASSERT"
    if isinstance(e, RuntimeError):
        return "E_RUNTIME"
    if isinstance(e, ValueError):
        return "E_VALUE"
    return f"E_OTHER({type(e).__name__})"


def _mk_handler(hid):
    async def handler(request):
        return ("fn", hid, dict(request.match_info))
    handler._hid = hid
    return handler


def _mk_view(hid, defined):
    from aiohttp import web

    def mk(name):
        async def meth(self):
            return ("called", name)
        return meth
    ns = {m.lower(): mk(m) for m in defined}
    ns["_hid"] = hid
    ns["_is_view"] = True
    return type("GenView", (web.View,), ns)


async def _call_view(cls, req):
    """what the client gets from a class-based view: the handler's answer or the exception it raises"""
    from aiohttp import web
    try:
        r = await cls(req)
    except web.HTTPMethodNotAllowed as e:
        return "405:" + ",".join(st(m) for m in sorted(set(e.allowed_methods), key=lambda x: [ord(c) for c in x]))
    except web.HTTPException as e:
        return f"E_OTHER(status{e.status})"
    except BaseException as e:
        if isinstance(e, (KeyboardInterrupt, SystemExit)):
            raise
        return f"E_OTHER({type(e).__name__})"
    if isinstance(r, tuple) and r and r[0] == "called" and r[1] in meth_all():
        return 1 + meth_all().index(r[1])
    return "E_OTHER(unexpected-return)"


def _register(app, kind, method, path, handler, hid):
    """one registration, spelled in one of the equivalent public ways (chosen by the handler id, so that the
    same program always uses the same spelling)"""
    from aiohttp import web
    r = app.router
    k = hid % 4
    if kind == "G":       # the everyday spelling: GET plus an implicit HEAD route for the same handler
        if k == 0:
            r.add_get(path, handler)
        elif k == 1:
            app.add_routes([web.get(path, handler)])
        elif k == 2:
            rt = web.RouteTableDef()
            rt.get(path)(handler)
            app.add_routes(rt)
        else:
            app.router.add_routes([web.route("GET", path, handler)])
    elif kind == "V":
        if k == 0:
            r.add_route("*", path, handler)
        elif k == 1:
            r.add_view(path, handler)
        elif k == 2:
            app.add_routes([web.view(path, handler)])
        else:
            rt = web.RouteTableDef()
            rt.view(path)(handler)
            app.add_routes(rt)
    else:
        short = {"GET": "add_get", "POST": "add_post", "PUT": "add_put", "HEAD": "add_head"}.get(method)
        kw = {"allow_head": False} if method == "GET" else {}
        if k == 1 and short:
            getattr(r, short)(path, handler, **kw)
        elif k == 2:
            app.add_routes([web.route(method, path, handler, **kw)])
        elif k == 3:
            rt = web.RouteTableDef()
            rt.route(method, path, **kw)(handler)
            app.add_routes(rt)
        else:
            r.add_route(method, path, handler)


class Built:
    """the real application + the driver tokens that describe the same program + bookkeeping"""

    def __init__(self):
        self.tokens = []
        self.codes = []
        self.static_hid = {}     # id(StaticResource) -> hid
        self.keep = []           # keep objects alive (ids are used as keys)
        self.changed = []        # (operation, code, what changed): a refused operation that left a trace
        self.alarms = []         # (signature, request or None, detail): other direct-oracle alarms raised while building / asking


def _snapshot(apps):
    return [dump_real(a.router) + ("F" if a.frozen else "") for a in apps]


def _refused(built, what, code, apps, names, before):
    """a refused operation must leave every involved object as it was (E_KEY is finding C14-K1)"""
    if code in ("ok", "E_KEY_K1"):
        return
    after = _snapshot(apps)
    diff = [n for n, x, y in zip(names, before, after) if x != y]
    if diff:
        built.changed.append((what, code, ",".join(diff)))


def _valid_domain(domain):
    from aiohttp.web_urldispatcher import Domain, MaskDomain
    try:
        return (MaskDomain if "*" in domain else Domain)(domain)._domain
    except Exception:
        return None


def _frozen_dummy(built):
    from aiohttp import web
    d = web.Application()
    d.router.add_route("GET", "/zz", _mk_handler(999999))
    d.freeze()
    built.keep.append(d)
    return d


def _run_attempts(built, app, sub, attempts):
    from aiohttp.web_urldispatcher import _requote_path
    for kind, arg in attempts:
        target = _frozen_dummy(built) if kind in ("f", "fd") else app
        apps, names = [target, sub], ["parent", "sub-application"]
        before = _snapshot(apps)
        if kind in ("f", "b"):
            try:
                q = _requote_path(arg.rstrip("/"))
            except Exception:
                q = arg
            built.tokens.append(f"XA|{kind}|{st(arg)}|{st(q)}")
            what = "add_subapp-on-frozen" if kind == "f" else "add_subapp-bad-prefix"
            try:
                target.add_subapp(arg, sub)
                code = "ok"
            except Exception as e:
                code = _exc_code(e)
        else:
            v = _valid_domain(arg)
            if kind == "fd":
                if v is None:
                    continue
                built.tokens.append("XM|f|" + ("m" if "*" in arg else "e") + "|" + st(v))
            else:
                if v is not None:
                    continue
                built.tokens.append("XM|b")
            what = "add_domain-on-frozen" if kind == "fd" else "add_domain-bad-domain"
            try:
                target.add_domain(arg, sub)
                code = "ok"
            except Exception as e:
                code = _exc_code(e)
        built.codes.append(code)
        _refused(built, what, code, apps, names, before)


def build_real(ops, built, app=None, top=False):
    from aiohttp import web
    from aiohttp.web_urldispatcher import ROUTE_RE, _requote_path
    if app is None:
        app = web.Application()
    built.keep.append(app)
    for op in ops:
        if op[0] == "FREEZE":
            if top and not app.frozen:
                app.freeze()
                built.tokens.append("F")
        elif op[0] in ("R", "V", "G"):
            if op[0] == "G":
                _, path, hid = op
                method = "GET"
                tok = "G|" + st(path) + "|" + str(hid)
                handler = _mk_handler(hid)
            elif op[0] == "V":
                _, path, hid, defined = op
                method = "*"
                tok = "V|" + st(path) + "|" + str(hid) + "|" + (",".join(st(m) for m in defined) or "~")
                handler = _mk_view(hid, defined)
            else:
                _, method, path, hid = op
                tok = "R|" + st(method) + "|" + st(path) + "|" + str(hid)
                handler = _mk_handler(hid)
            lits = ROUTE_RE.split(path)
            seen = set()
            for l in lits:
                if l in seen:
                    continue
                seen.add(l)
                try:
                    tok += "|" + st(l) + "|" + st(_requote_path(l))
                except Exception:
                    pass
            built.tokens.append(tok)
            before = _snapshot([app])
            try:
                _register(app, op[0], method, path, handler, hid)
                code = "ok"
            except Exception as e:
                code = _exc_code(e)
            if op[0] == "G" and code != "ok" and _snapshot([app]) != before:
                code += "+H"
            built.codes.append(code)
            _refused(built, "add_get-with-head" if op[0] == "G" else "add_route", code, [app], ["application"], before)
        elif op[0] == "S":
            _, prefix, hid = op
            p = prefix[:-1] if prefix.endswith("/") else prefix
            try:
                q = _requote_path(p)
            except Exception:
                q = p
            built.tokens.append("S|" + st(prefix) + "|" + st(q) + "|" + str(hid))
            before = _snapshot([app])
            try:
                if hid % 4 < 2:
                    res = app.router.add_static(prefix, HERE_DIR)
                else:
                    app.add_routes([web.static(prefix, HERE_DIR)])
                    res = list(app.router.resources())[-1]
                built.static_hid[id(res)] = hid
                built.keep.append(res)
                code = "ok"
            except Exception as e:
                code = _exc_code(e)
            built.codes.append(code)
            _refused(built, "add_static", code, [app], ["application"], before)
        elif op[0] == "SUB":
            prefix, sub_ops = op[1], op[2]
            built.tokens.append("[")
            sub = build_real(sub_ops, built)
            _run_attempts(built, app, sub, attempts_of(op))
            try:
                q = _requote_path(prefix.rstrip("/"))
            except Exception:
                q = prefix
            built.tokens.append("A|" + st(prefix) + "|" + st(q))
            before = _snapshot([app, sub])
            try:
                app.add_subapp(prefix, sub)
                code = "ok"
            except Exception as e:
                code = _exc_code(e)
            built.codes.append(code)
            if code == "E_KEY" and any(o[0] == "DOM" for o in sub_ops):
                code = "E_KEY_K1"      # finding C14-K1 exactly: the mounted application itself holds an add_domain resource
            _refused(built, "add_subapp", code, [app, sub], ["parent", "sub-application"], before)
            if code == "E_KEY_K1":
                built.alarms.append(("C14/registration/unindex-matched-subapp-keyerror", None,
                                     "add_subapp raised KeyError from unindex_resource: a sub-application holding an "
                                     "add_domain resource cannot be mounted under a prefix"))
        elif op[0] == "DOM":
            domain, sub_ops = op[1], op[2]
            built.tokens.append("[")
            sub = build_real(sub_ops, built)
            _run_attempts(built, app, sub, attempts_of(op))
            built.tokens.append("M|" + ("m" if "*" in domain else "e") + "|" + st(_valid_domain(domain) or domain))
            before = _snapshot([app, sub])
            try:
                app.add_domain(domain, sub)
                code = "ok"
            except Exception as e:
                code = _exc_code(e)
            built.codes.append(code)
            _refused(built, "add_domain", code, [app, sub], ["parent", "sub-application"], before)
    if top and not app.frozen:
        app.freeze()          # what AppRunner.setup() does before the first request is served
        built.tokens.append("F")
    return app


def dump_real(router):
    from aiohttp.web_urldispatcher import (PlainResource, DynamicResource, StaticResource, PrefixedSubAppResource,
                                           MatchedSubAppResource, MaskDomain)
    rs = list(router._resources)
    parts = []
    for r in rs:
        if isinstance(r, MatchedSubAppResource):
            parts.append(("W" if isinstance(r._rule, MaskDomain) else "M") + st(r._rule._domain) + dump_real(r._app.router))
        elif isinstance(r, PrefixedSubAppResource):
            parts.append("A" + st(r._prefix) + dump_real(r._app.router))
        elif isinstance(r, StaticResource):
            parts.append("S" + st(r._prefix) + "/" + str(len(r._routes)))
        elif isinstance(r, DynamicResource):
            parts.append("D" + st(r._formatter) + "/" + str(len(r._routes)))
        elif isinstance(r, PlainResource):
            parts.append("P" + st(r._path) + "/" + str(len(r._routes)))
        else:
            parts.append("?" + type(r).__name__)

    def pos(obj):
        for i, r in enumerate(rs):
            if r is obj:
                return str(i)
        return "x"
    idx = []
    for k in sorted(router._resource_index, key=lambda s: [ord(c) for c in s]):
        b = router._resource_index[k]
        if b:
            idx.append(st(k) + ":" + ".".join(pos(o) for o in b))
    return "{" + ",".join(parts) + "#" + ";".join(idx) + "#" + ".".join(pos(o) for o in router._matched_sub_app_resources) + "}"


# ------------------------------------------------------------------------------ requests
_BASE = {}


def mk_request(method, raw_path, host, query=""):
    """a web.Request exactly as the HTTP parser would hand it over (URL.build(..., encoded=True))"""
    from aiohttp import web
    from aiohttp.test_utils import make_mocked_request
    from multidict import CIMultiDict, CIMultiDictProxy
    from yarl import URL
    if "base" not in _BASE:
        _BASE["base"] = make_mocked_request("GET", "/")
    base = _BASE["base"]
    hd = CIMultiDict()
    if host is not None:
        hd["Host"] = host
    try:
        from aiohttp.web_request import HeadersDictProxy
        headers = HeadersDictProxy(hd)
    except ImportError:
        headers = CIMultiDictProxy(hd)
    url = URL.build(path=raw_path, query_string=query, encoded=True)
    full = raw_path + ("?" + query if query else "")
    msg = base._message._replace(method=method, path=full, url=url, headers=headers,
                                 raw_headers=tuple((k.encode(), v.encode()) for k, v in hd.items()))
    return web.Request(msg, base._payload, base._protocol, base._payload_writer, base._task, base._loop,
                       client_max_size=1024)


def canon_match(built, mi):
    exc = mi.http_exception
    if exc is not None:
        if exc.status == 405:
            return "405:" + ",".join(st(m) for m in sorted(set(exc.allowed_methods), key=lambda s: [ord(c) for c in s]))
        if exc.status == 404:
            return "404"
        return f"E_OTHER(status{exc.status})"
    route = mi.route
    h = getattr(route.handler, "_hid", None)
    if h is None:
        base = built.static_hid.get(id(route.resource))
        if base is None:
            return "E_OTHER(unknown-handler)"
        h = base + (0 if route.method == "GET" else 1)
    items = sorted(dict(mi).items(), key=lambda kv: [ord(c) for c in kv[0]])
    return f"ok:{h}:" + ",".join(st(k) + "=" + st(v) for k, v in items)


REQ_SEGS = ["a", "b", "ab", "a%20b", "x.y", "1", "12", "ba", "", "a.txt", "a-b", "%2F", "a%2Fb", "%252F", "%25", "%41",
            "%C3%A9", "%D9%A3", "%0A", "aab", "c", "p", "q", "s", "c14.py", "a1", "xzy", "x.y",
            "%2f", "a%2fb", "%2e", "%2E%2e", "%7Bx%7D", "%7b", "a%7D", "%61", "%41b", "%zz", "%", "%2", "a%20", "%20a", "+", "a+b", "%2B",
            ";p=1", "a;b", "a:b", "@", "~a", "a%3Fb", "a%23b", "%E9", "%C3", "a%00b", "%09"]
VALS = {"x": ["a", "b", "1", "12", "ab", "ba", "a%20b", "%2F", "%D9%A3", "c", "a-b", "x.y"], "y": ["a", "b", "ab", "c-d", "q"],
        "tail": ["", "a", "a/b", "a/b/", "%0A", "a%2Fb"]}


def instantiate(rng, template):
    """a request path that is likely to match `template` (raw, percent-encoded form)"""
    def sub(m):
        name = m.group(1)
        spec = m.group(2) or ""
        if spec == ":\\d+":
            return rng.choice(["1", "12", "%D9%A3", "1a"])
        if spec == ":[ab]+":
            return rng.choice(["a", "ab", "ba", "abc"])
        return rng.choice(VALS.get(name, ["a"]))
    p = re.sub(r"\{(\w+)(:[^{}]*)?\}", sub, template)
    return p.replace(" ", "%20")


def all_templates(ops, prefix=""):
    for op in ops:
        if op[0] == "R":
            yield prefix + op[2]
        elif op[0] in ("V", "G"):
            yield prefix + op[1]
        elif op[0] == "S":
            yield prefix + op[1].rstrip("/") + "/" + "f"
        elif op[0] == "SUB":
            yield from all_templates(op[2], prefix + op[1].rstrip("/"))
        elif op[0] == "DOM":
            yield from all_templates(op[2], prefix)


def mutate_path(rng, p):
    r = rng.random()
    if "." in p and rng.random() < 0.3:
        return p.replace(".", "z", 1)       # a literal dot must not behave like a regex dot
    if r < 0.35:
        return p
    if r < 0.45:
        return p + "/"
    if r < 0.52:
        return p.rstrip("/") or "/"
    if r < 0.60:
        i = rng.randrange(len(p) + 1)
        return p[:i] + "/" + p[i:]
    if r < 0.68:
        return "/" + p
    segs = p.split("/")
    if r < 0.80 and len(segs) > 1:
        i = rng.randrange(1, len(segs))
        segs[i] = rng.choice(REQ_SEGS)
        return "/".join(segs)
    if r < 0.86 and len(segs) > 1:
        del segs[rng.randrange(1, len(segs))]
        return "/".join(segs) or "/"
    if r < 0.92:
        return p + "/" + rng.choice(REQ_SEGS)
    if r < 0.96:
        i = rng.randrange(1, len(segs) + 1)
        segs.insert(i, rng.choice([".", ".."]))
        return "/".join(segs)
    return "/" + "/".join(rng.choice(REQ_SEGS) for _ in range(rng.randint(1, 3)))


def all_domains(ops):
    for op in ops:
        if op[0] == "DOM":
            yield op[1]
        if op[0] in ("DOM", "SUB"):
            yield from all_domains(op[2])


def host_variants(rng, domain):
    """Host headers aimed at one Domain / MaskDomain rule: an instance of the rule and its near misses
    (foreign suffix, glued suffix, port, trailing dot, upper case, empty label, newline, foreign prefix)"""
    d = domain.rstrip(".").lower()
    base = d
    while "*" in base:
        base = base.replace("*", rng.choice(["x", "x.y", "", "a", "X"]), 1)
    r = rng.random()
    if r < 0.30:
        return base
    return rng.choice([
        base + ".attacker.net", base + "unity", base + ":8443", base + ".", base.upper(), base.title(),
        "evil-" + base, "evil." + base, "." + base, base.replace(".", "..", 1), base + "\n", "x\ny." + base,
        base.split(":")[0], base + ":80", base.replace(".", "x", 1), base[:-1], base + "/", " " + base,
    ])


DOT_TAILS = ["/../x", "/%2E%2E/x", "/..", "/%2e%2e", "/f/../../a", "/./f", "/f/..", "/f/../g", "/.%2E/a", "/../", "/...",
             "/f/./g", "/%2E", "/..%2Ff", "/../../a/b"]


def all_prefixes(ops, prefix=""):
    """(kind, full prefix) of every static resource and sub-application"""
    for op in ops:
        if op[0] == "S":
            yield "S", prefix + op[1].rstrip("/")
        elif op[0] == "SUB":
            p = prefix + op[1].rstrip("/")
            yield "A", p
            yield from all_prefixes(op[2], p)
        elif op[0] == "DOM":
            yield from all_prefixes(op[2], prefix)


def gen_requests(rng, ops, n):
    doms = list(all_domains(ops))
    pfxs = [p for _, p in all_prefixes(ops) if p.startswith("/")]
    views = has_view(ops)
    temps = [t for t in all_templates(ops) if t.startswith("/")] or ["/"]
    out = []
    for _ in range(n):
        if pfxs and rng.random() < 0.25:
            # dot segments / encoded dots around a static or sub-application prefix: does the path still lie under it
            base = rng.choice(pfxs).replace(" ", "%20")
            p = base + rng.choice(DOT_TAILS)
            if rng.random() < 0.3:
                p = rng.choice(["/a", "/x", base]) + "/.." + p
        elif rng.random() < 0.8:
            p = mutate_path(rng, instantiate(rng, rng.choice(temps)))
        else:
            p = "/" + "/".join(rng.choice(REQ_SEGS) for _ in range(rng.randint(0, 3))) + rng.choice(["", "", "/"])
        if not p.startswith("/"):
            p = "/" + p
        if doms and rng.random() < 0.7:
            host = host_variants(rng, rng.choice(doms))
        else:
            host = rng.choice(HOSTS) if rng.random() < 0.6 else "a.example"
        out.append((gen_method(rng, views), p, host))
    return out


# ------------------------------------------------------------------------------ the specification (python twin)
def unquote_safe_spec(v):
    """values are percent-decoded except that %2F and %25 survive URL decoding; they are decoded last"""
    return v.replace("%2F", "/").replace("%25", "%") if "%" in v else v


def parse_template_spec(t):
    """user template -> [("lit", text) | ("var", name, regex)] or None if malformed (grammar of the docs)"""
    parts, i, cur = [], 0, ""
    while i < len(t):
        c = t[i]
        if c == "{":
            depth, j = 0, i
            while j < len(t):
                if t[j] == "{":
                    depth += 1
                elif t[j] == "}":
                    depth -= 1
                    if depth == 0:
                        break
                j += 1
            if j >= len(t):
                return None
            inner = t[i + 1:j]
            m = re.fullmatch(r"([_a-zA-Z][_a-zA-Z0-9]*)(?::(.+))?", inner)
            if m is None:
                return None
            parts.append(("lit", cur)); cur = ""
            parts.append(("var", m.group(1), m.group(2) if m.group(2) is not None else r"[^{}/]+"))
            i = j + 1
            continue
        if c == "}":
            return None
        cur += c
        i += 1
    parts.append(("lit", cur))
    return parts


class SpecRes:
    def __init__(self, kind, prefix, own, routes, idx, sub=None, domain=None):
        self.kind, self.prefix, self.own, self.routes, self.idx, self.sub, self.domain = kind, prefix, own, routes, idx, sub, domain
        template = self.template = (prefix + own) or ("/" if kind == "route" else "")   # a frozen "" is "/"
        self.rx = None
        if kind == "route":
            self.parts = parse_template_spec(template)
            rx = ""
            for p in self.parts:
                rx += re.escape(p[1]) if p[0] == "lit" else f"(?P<{p[1]}>{p[2]})"
            self.rx = re.compile(rx)
            lit = template.partition("{")[0]
            fixed = lit.rpartition("/")[0] if "{" in template else lit
        else:
            fixed = template
        self.fixed = fixed.rstrip("/") or "/"

    def needs_quoting(self):
        """F12 family: the resource's own literal text is changed by _requote_path"""
        from aiohttp.web_urldispatcher import _requote_path
        if self.kind == "route":
            if "{" not in self.own:
                return False
            lits = [p[1] for p in (parse_template_spec(self.own) or []) if p[0] == "lit"]
        elif self.kind == "dom":
            return False
        else:
            lits = [self.own]
        return any(_requote_path(l) != l for l in lits)


def _skip_attempt_codes(op, codes):
    """refused mount attempts have no effect by the documented rule; their result codes are skipped
    (attempts whose argument turned out (in)valid the other way round were not executed)"""
    for kind, arg in attempts_of(op):
        if kind == "fd" and _valid_domain(arg) is None:
            continue
        if kind == "bd" and _valid_domain(arg) is not None:
            continue
        next(codes)


def spec_table(ops, codes, prefix="", views=None):
    """flatten a program (only the ops that the implementation accepted) into spec resources;
    `views` collects {handler id: methods the class defines} of the class-based views"""
    out = []
    for op in ops:
        if op[0] == "G":
            code = next(codes)
            # add_get = a HEAD route and a GET route for the handler; when the GET route is refused (RuntimeError)
            # although the HEAD route was new, the implementation keeps the HEAD route (modelled; reported by the
            # refused-operation clause), so the HEAD route counts whenever the model says it was added: "ok" or "E_RUNTIME+H"
            if code == "ok":
                out.append(SpecRes("route", prefix, op[1], [("HEAD", op[2]), ("GET", op[2])], len(out)))
            elif code == "E_RUNTIME+H":
                out.append(SpecRes("route", prefix, op[1], [("HEAD", op[2])], len(out)))
        elif op[0] == "V":
            code = next(codes)
            if code == "ok":
                out.append(SpecRes("route", prefix, op[1], [("*", op[2])], len(out)))
                if views is not None:
                    views[op[2]] = set(op[3])
        elif op[0] == "R":
            code = next(codes)
            if code == "ok":
                out.append(SpecRes("route", prefix, op[2], [(op[1], op[3])], len(out)))
        elif op[0] == "S":
            code = next(codes)
            if code == "ok":
                p = op[1][:-1] if op[1].endswith("/") else op[1]
                out.append(SpecRes("static", prefix, p, [("GET", op[2]), ("HEAD", op[2] + 1)], len(out)))
        elif op[0] == "SUB":
            p = op[1].rstrip("/")
            sub = spec_table(op[2], codes, prefix + p, views)
            _skip_attempt_codes(op, codes)
            code = next(codes)
            if code == "ok":
                out.append(SpecRes("sub", prefix, p, [], len(out), sub=sub))
        elif op[0] == "DOM":
            sub = spec_table(op[2], codes, prefix, views)
            _skip_attempt_codes(op, codes)
            code = next(codes)
            if code == "ok":
                out.append(SpecRes("dom", "", "", [], len(out), sub=sub, domain=op[1]))
    return out


def under(prefix, path):
    return path == prefix or path.startswith(prefix + "/")


def glob_spec(pat, host):
    """the whole host must be an instance of the mask: literal characters match themselves (case-sensitively),
    `*` stands for any run (possibly empty) of characters other than a line feed"""
    if not pat:
        return host == ""
    if pat[0] == "*":
        return any(glob_spec(pat[1:], host[k:]) for k in range(len(host) + 1) if "\n" not in host[:k])
    return host[:1] == pat[0] and glob_spec(pat[1:], host[1:])


def spec_resolve(table, path, method, host, skip_quoted=None):
    """the documented rule -> ("ok", hid, dict) | ("405", set) | ("404",).
    `skip_quoted` (a list) switches on the F12 reading: resources whose own literal needs quoting never
    match; the kinds of the resources skipped that way are appended to it."""
    for r in table:
        if r.kind == "dom" and host:
            d = r.domain.rstrip(".").lower()
            ok = glob_spec(d, host) if "*" in d else host.lower() == d
            if ok:
                return spec_resolve(r.sub, path, method, host, skip_quoted)
    cands = []
    for r in table:
        d = None
        if r.kind == "route":
            m = r.rx.fullmatch(path)
            if m is None:
                continue
            d = {k: unquote_safe_spec(v) for k, v in m.groupdict().items()}
        elif r.kind == "static":
            # a static resource serves what lies under its prefix and stays there when normalised
            if not (under(r.template, path) and under(r.template, posixpath.normpath(path))):
                continue
            d = {"filename": unquote_safe_spec(path[len(r.template) + 1:])}
        elif r.kind == "sub":
            if not under(r.template, path):
                continue
        else:
            continue
        if skip_quoted is not None and r.needs_quoting():
            skip_quoted.append(r.kind)
            continue
        cands.append((r, d))
    cands.sort(key=lambda c: (-len(c[0].fixed), c[0].idx))
    allowed = set()
    for r, d in cands:
        if r.kind == "sub":
            return spec_resolve(r.sub, path, method, host, skip_quoted)
        for m, hid in r.routes:
            if m == method:
                return ("ok", hid, d)
        for m, hid in r.routes:
            if m == "*":
                return ("ok", hid, d)
        allowed |= {m for m, _ in r.routes}
    if allowed:
        return ("405", allowed)
    return ("404",)


def table_has_static(table):
    return any(r.kind == "static" or (r.sub is not None and table_has_static(r.sub)) for r in table)


def spec_after_view(res, views, method):
    """a class-based view serves exactly the standard methods its class defines; for any other method token the
    answer is 405 with those methods as the Allow set (what a resource with function routes for them answers)"""
    if res[0] == "ok" and res[1] in views:
        defined = views[res[1]] & set(meth_all())
        if method in defined:
            return ("ok", res[1] + 1 + meth_all().index(method), res[2])
        return ("405", defined)
    return res


def canon_spec(res):
    if res[0] == "ok":
        items = sorted(res[2].items(), key=lambda kv: [ord(c) for c in kv[0]])
        return f"ok:{res[1]}:" + ",".join(st(k) + "=" + st(v) for k, v in items)
    if res[0] == "405":
        return "405:" + ",".join(st(m) for m in sorted(res[1], key=lambda s: [ord(c) for c in s]))
    return "404"


def has_dot_segment(path):
    return any(s in (".", "..") for s in path.split("/"))


def judge_resolution(ctx, ops, codes, req, impl, path_safe):
    """direct oracle for one request: the real answer against the documented rule"""
    method, raw, host = req
    views = {}
    table = spec_table(ops, iter(codes), views=views)
    pre = spec_resolve(table, path_safe, method, host)
    is_view = pre[0] == "ok" and pre[1] in views
    want = canon_spec(spec_after_view(pre, views, method))
    dots = has_dot_segment(path_safe)
    if dots and table_has_static(table):
        ctx.hit("oracle:dot-segment-with-static-judged:" + impl[:3])
    if want == impl:
        return
    case = {"kind": "resolve", "ops": ops, "req": [method, raw, host]}
    skipped = []
    if canon_spec(spec_after_view(spec_resolve(table, path_safe, method, host, skipped), views, method)) == impl and skipped:
        kind = {"route": "dynamic", "static": "static", "sub": "subapp"}[skipped[0]]
        sig = f"C14/resolve/quoted-literal-unmatched/{kind}"
    elif is_view and impl.startswith("E_"):
        sig = "C14/view/unserved-method-raised"
    elif is_view and want.startswith("405") and impl.startswith("ok"):
        sig = "C14/view/unserved-method-called"
    elif is_view:
        sig = "C14/view/answer-differs"
    elif impl.startswith("E_"):
        sig = "C14/resolve/unexpected-result"
    elif want.startswith("ok") and not impl.startswith("ok"):
        sig = "C14/resolve/missed-match/" + impl[:3]
    elif want.startswith("ok") and impl.startswith("ok"):
        sig = "C14/resolve/wrong-handler" if want.split(":")[1] != impl.split(":")[1] else "C14/resolve/wrong-match-info"
    elif impl.startswith("ok"):
        sig = "C14/resolve/spurious-match/" + want[:3]
    elif want[:3] != impl[:3]:
        sig = f"C14/resolve/status-{impl[:3]}-expected-{want[:3]}" + ("/dot-segment-path" if dots else "")
    else:
        sig = "C14/resolve/allow-set-differs"
    ctx.violation(sig, case, f"{method} {raw} (host={host!r}): implementation {impl}, documented rule {want}")


_RULES = {}


def judge_domain(ctx, domain, host):
    """direct oracle on one rule: does the real Domain / MaskDomain take this Host header exactly when the
    documented reading (whole-host match of the mask; case-insensitive equality for a plain domain) does"""
    from aiohttp.web_urldispatcher import Domain, MaskDomain
    if not host:
        return
    if domain not in _RULES:
        _RULES[domain] = (MaskDomain if "*" in domain else Domain)(domain)
    got = bool(_RULES[domain].match_domain(host))
    d = domain.rstrip(".").lower()
    want = glob_spec(d, host) if "*" in d else host.lower() == d
    ctx.hit(f"domain:{'mask' if '*' in d else 'exact'}:{'match' if want else 'miss'}")
    if got != want:
        kind = "mask" if "*" in d else "exact"
        what = "captures-foreign-host" if got else "misses-own-host"
        ctx.violation(f"C14/domain/{kind}-{what}", {"kind": "domain", "domain": domain, "host": host},
                      f"add_domain({domain!r}): Host {host!r} is {'taken' if got else 'refused'} by the rule, "
                      f"the documented whole-host match says {'take' if want else 'refuse'}")


def judge_build(ctx, ops, codes):
    for what, code, who in getattr(codes, "changed", ()):
        ctx.violation(f"C14/registration/refused-op-changed-state/{what}", {"kind": "build", "ops": ops},
                      f"{what} was refused ({code}) but changed the route table of: {who}")
    k1 = 0
    for sig, req, detail in getattr(codes, "alarms", ()):
        k1 += sig.endswith("unindex-matched-subapp-keyerror")
        case = {"kind": "build", "ops": ops} if req is None else {"kind": "resolve", "ops": ops, "req": req, "app_level": 1}
        ctx.violation(sig, case, detail)
    if list(codes).count("E_KEY") > k1:
        ctx.violation("C14/registration/unexpected-keyerror", {"kind": "build", "ops": ops},
                      "a registration raised KeyError somewhere else than the known add_subapp-with-domain case")
    for c in codes:
        if c.startswith("E_OTHER"):
            ctx.violation("C14/registration/unexpected-exception/" + c[8:-1], {"kind": "build", "ops": ops},
                          f"registration raised {c}")


# ------------------------------------------------------------------------------ running programs
async def _through_app(app, built, req):
    """what a client of the application gets: Application._handle (resolve + SystemRoute / handler / view call) —
    the handler's marker, or the HTTPException with its status and its Allow *header*"""
    from aiohttp import web
    try:
        r = await app._handle(req)
    except web.HTTPMethodNotAllowed as e:
        allow = e.headers.get("Allow", "")
        ms = [m for m in allow.split(",") if m] if allow else []
        if ms != sorted(ms) or len(set(ms)) != len(ms):
            return "E_OTHER(allow-header-not-sorted-unique)"
        return "405:" + ",".join(st(m) for m in sorted(ms, key=lambda x: [ord(c) for c in x]))
    except web.HTTPNotFound:
        return "404"
    except web.HTTPException as e:
        return f"E_OTHER(status{e.status})"
    except BaseException as e:
        if isinstance(e, (KeyboardInterrupt, SystemExit)):
            raise
        return f"E_OTHER({type(e).__name__})"
    if isinstance(r, tuple) and r and r[0] == "fn":
        items = sorted(r[2].items(), key=lambda kv: [ord(c) for c in kv[0]])
        return f"ok:{r[1]}:" + ",".join(st(k) + "=" + st(v) for k, v in items)
    if isinstance(r, tuple) and r and r[0] == "called" and r[1] in meth_all():
        mi = req.match_info
        items = sorted(dict(mi).items(), key=lambda kv: [ord(c) for c in kv[0]])
        return f"ok:{mi.route.handler._hid + 1 + meth_all().index(r[1])}:" + ",".join(st(k) + "=" + st(v) for k, v in items)
    return "E_OTHER(unexpected-return)"


class Codes(list):
    """op result codes of one program + the refused operations that changed something"""
    changed = ()


def run_program(ctx, loop, ops, reqs, want_model=True, app_level=0):
    """returns (model line, impl reply, per-request (impl canonical, path_safe))"""
    built = Built()
    with warnings.catch_warnings():
        warnings.simplefilter("ignore")
        app = build_real(ops, built, top=True)
    dump = dump_real(app.router)
    qtoks, results = [], []
    for method, raw, host in reqs:
        req = mk_request(method, raw, host)
        ps = req.rel_url.path_safe
        norm = os.path.normpath(ps)
        try:
            mi = loop.run_until_complete(app.router.resolve(req))
            c = canon_match(built, mi)
            if mi.http_exception is None and getattr(mi.route.handler, "_is_view", False):
                v = loop.run_until_complete(_call_view(mi.route.handler, req))
                if isinstance(v, int):
                    head, _, rest = c.partition(":")[2].partition(":")
                    c = f"ok:{int(head) + v}:{rest}"
                else:
                    c = v
            is_static = mi.http_exception is None and id(mi.route.resource) in built.static_hid
            if not is_static and (app_level == 1 or (app_level and len(results) % app_level == 0)):
                # the same request through the real Application._handle: that is where a user sees the answer
                c2 = loop.run_until_complete(_through_app(app, built, mk_request(method, raw, host)))
                if c2 != c:
                    built.alarms.append(("C14/app/answer-differs-from-router", [method, raw, host],
                                         f"{method} {raw}: router.resolve says {c}, Application._handle answers {c2}"))
                    c = c2
        except Exception as e:  # resolution must never raise
            c = f"E_OTHER({type(e).__name__})"
        results.append((c, ps))
        qtoks.append("Q|" + st(method) + "|" + st(ps) + "|" + st(norm) + "|" + ("~" if host is None else st(host)))
    line = "tbl " + " ".join(built.tokens + qtoks)
    reply = f"ops={','.join(built.codes)} dump={dump} res={';'.join(r[0] for r in results)}"
    codes = Codes(built.codes)
    codes.changed = list(built.changed)
    codes.alarms = list(built.alarms)
    return line, reply, results, codes


def check_tables(ctx, loop, programs, nreq, label, rng=None, app_level=4):
    lines, replies, metas = [], [], []
    rng = rng or ctx.rng
    for ops in programs:
        reqs = gen_requests(rng, ops, nreq)
        line, reply, results, codes = run_program(ctx, loop, ops, reqs, app_level=app_level)
        lines.append(line); replies.append(reply); metas.append((ops, reqs, results, codes))
    outs = ctx.model(lines)
    for i, (ops, reqs, results, codes) in enumerate(metas):
        judge_build(ctx, ops, codes)
        for c in codes:
            ctx.hit("build:" + c)
        for req, (impl, ps) in zip(reqs, results):
            ctx.case((label, ops, req), sample={"ops": ops, "req": req, "impl": impl} if (ctx.evaluations % 2999 == 0) else None)
            ctx.hit("res:" + impl[:3])
            for dmn in set(all_domains(ops)):
                judge_domain(ctx, dmn, req[2])
            judge_resolution(ctx, ops, codes, req, impl, ps)
        if outs is not None:
            if outs[i] != replies[i]:
                # locate the first differing request for a small report
                mi, mm = replies[i].split(" res="), outs[i].split(" res=")
                where = "UrlDispatcher registration/index vs Aio.C14 registration"
                detail_i, detail_m = mi[0][-300:], mm[0][-300:]
                if mi[0] == mm[0] and len(mm) == 2:
                    a, b = mi[1].split(";"), mm[1].split(";")
                    for k, (x, y) in enumerate(zip(a, b)):
                        if x != y:
                            where = "UrlDispatcher.resolve vs Aio.C14.resolve"
                            detail_i, detail_m = f"{reqs[k]} -> {x}", f"{reqs[k]} -> {y}"
                            break
                ctx.compare({"kind": "table", "ops": ops, "reqs": [list(r) for r in reqs]}, detail_i, detail_m, where)
            else:
                ctx.compared += len(reqs) + 1


EXH_TEMPLATES = ["/a", "/a/", "/{x}", "/a/{x}", "/{x}/b", "/a/b", "/{tail:.*}", "/a{x}", "/{x:[ab]+}/{y}"]
EXH_SEGS = ["a", "b", "ab", ""]


def check_exhaustive(ctx, loop):
    """every table of <= 3 templates (all orders, with repetition) x every path of <= 3 segments x 2 methods"""
    paths = ["/"]
    for n in (1, 2, 3):
        for segs in itertools.product(EXH_SEGS, repeat=n):
            p = "/" + "/".join(segs)
            paths.append(p)
            if not p.endswith("/"):
                paths.append(p + "/")
    paths = sorted(set(paths))
    reqs = [(m, p, None) for p in paths for m in ("GET", "POST")]
    lines, replies, metas = [], [], []
    for n in (1, 2, 3):
        for combo in itertools.product(range(len(EXH_TEMPLATES)), repeat=n):
            ops = [("R", "GET" if (i + j) % 3 else "POST", EXH_TEMPLATES[j], i) for i, j in enumerate(combo)]
            line, reply, results, codes = run_program(ctx, loop, ops, reqs)
            lines.append(line); replies.append(reply); metas.append((ops, results, codes))
    outs = ctx.model(lines)
    for i, (ops, results, codes) in enumerate(metas):
        for req, (impl, ps) in zip(reqs, results):
            ctx.case(("exh", ops, req))
            ctx.hit("exh:" + impl[:3])
            judge_resolution(ctx, ops, codes, req, impl, ps)
        if outs is not None:
            if outs[i] != replies[i]:
                ctx.compare({"kind": "table", "ops": ops, "reqs": [list(r) for r in reqs]}, replies[i][-400:], outs[i][-400:],
                            "UrlDispatcher.resolve vs Aio.C14.resolve (exhaustive small scope)")
            else:
                ctx.compared += len(reqs) + 1
    ctx.exhaustive = True
    ctx.extra["exhaustive_small_scope"] = (f"{len(metas)} tables (all sequences of <= 3 of {len(EXH_TEMPLATES)} templates) x "
                                           f"{len(paths)} paths (<= 3 segments over {EXH_SEGS}, with/without trailing slash) x 2 methods")


def permutations_of(ops, limit):
    if len(ops) > 4:
        return []
    perms = list(itertools.permutations(ops))
    return [list(p) for p in perms[1:limit + 1]]


# ------------------------------------------------------------------------------ url_for
UF_VALUES = ["a", "a b", "é", "%", "%2F", "%25", "%252F", "a+b", "a:b", "@", ".", "..", "?x", "#", "a;b", "12", "ab", "~",
             "\\", "*", "٣", "%41", "a%20b", "x.y", "=&", "'\"", "\t", "aé%2F%", "%2f"]


def uf_templates(rng, n):
    out = []
    for _ in range(n):
        t = gen_template(rng)
        if "{" in t:
            out.append(t)
    return out


def aligned(parts):
    """every variable occupies a whole segment"""
    for i, p in enumerate(parts):
        if p[0] == "var":
            before = parts[i - 1][1] if i > 0 else ""
            after = parts[i + 1][1] if i + 1 < len(parts) else ""
            if not before.endswith("/") or not (after == "" or after.startswith("/")):
                return False
    return True


def check_url_for(ctx, loop):
    from aiohttp import web
    from aiohttp.web_urldispatcher import ROUTE_RE, _requote_path, _quote_path, DynamicResource
    rng = ctx.rng
    scripted = ["/u/{x}/v/{y}", "/{x}", "/a b/{x}", "/{x:\\d+}/{y:[ab]+}", "/t/{tail:.*}", "/a/{x}/b", "/{x}/", "/a{x}", "/{x}.txt"]
    temps = scripted + uf_templates(rng, 0 if ONLY_SCRIPTED else 150 if ctx.quick else 1500)
    srng = random.Random(14)
    lines, impls, metas = [], [], []
    for t in temps:
        try:
            with warnings.catch_warnings():
                warnings.simplefilter("ignore")
                app = web.Application()
                res = app.router.add_resource(t)
                res.add_route("GET", _mk_handler(0))
        except ValueError:
            continue
        if not isinstance(res, DynamicResource):
            continue
        parts = parse_template_spec(t)
        names = [p[1] for p in parts if p[0] == "var"]
        for rep in range(6 if t not in scripted else len(UF_VALUES)):
            vrng = rng
            if t in scripted:
                vrng = srng
            vals = {}
            for p in parts:
                if p[0] != "var":
                    continue
                if p[2] == r"\d+":
                    vals[p[1]] = vrng.choice(["1", "12", "٣٤", "007"])
                elif p[2] == r"[ab]+":
                    vals[p[1]] = vrng.choice(["a", "ab", "bba"])
                else:
                    vals[p[1]] = UF_VALUES[rep] if (t in scripted and p[1] == names[0]) else vrng.choice(UF_VALUES)
            if vrng.random() < 0.05 and names:
                del vals[names[0]]
            try:
                u = res.url_for(**vals)
                impl = "ok " + st(u.raw_path)
            except KeyError:
                impl, u = "err E_KEY", None
            except Exception as e:
                impl, u = f"err E_OTHER({type(e).__name__})", None
            tok = st(t)
            seen = set()
            for l in ROUTE_RE.split(t):
                if l not in seen:
                    seen.add(l)
                    tok += "|" + st(l) + "|" + st(_requote_path(l))
            vtok = "|".join(st(k) + "|" + st(_quote_path(v)) for k, v in vals.items()) or "-"
            lines.append(f"uf {tok} {vtok}")
            impls.append(impl)
            metas.append((t, vals))
            ctx.case(("uf", t, sorted(vals.items())))
            ctx.hit("uf:" + impl[:2])
            # direct oracle: resolving the generated URL gives the values back
            if u is not None and aligned(parts) and all(v for v in vals.values()) and len(vals) == len(names):
                req = mk_request("GET", u.raw_path, "h")
                mi = loop.run_until_complete(app.router.resolve(req))
                got = dict(mi) if mi.http_exception is None else None
                if got != vals:
                    lits = [p[1] for p in parts if p[0] == "lit"]
                    q = any(_requote_path(l) != l for l in lits)
                    ctx.violation("C14/url_for/not-inverse/quoted-literal" if (q and got is None) else "C14/url_for/not-inverse",
                                  {"kind": "url_for", "template": t, "values": vals},
                                  f"url_for({vals}) = {u.raw_path!r}; resolving it gives {got}")
    outs = ctx.model(lines)
    if outs is not None:
        for (t, vals), impl, out in zip(metas, impls, outs):
            ctx.compare({"kind": "url_for", "template": t, "values": vals}, impl, out, "DynamicResource.url_for vs Aio.C14.urlFor")


# ------------------------------------------------------------------------------ normalize_path_middleware
MW_PATHS = ["//evil.com", "///evil.com//", "/\\evil.com", "//a//b", "/a", "/a/", "/a//", "//", "/", "/%2F%2Fevil.com",
            "/a/b", "/a//b/", "//a/b//", "/a/b/", "////", "/%2F", "/a%2F", "/a/%2F", "/\\/evil.com", "/a b", "//evil.com/%2F..",
            "/x/y//", "//x", "/x//y"]
MW_ROUTES = [["/{x}/", "/a/b"], ["/{tail:.*}"], ["/a", "/a/b/"], ["/{x}", "/{x}/{y}"], ["/"], ["/a/", "/{x}/{y}/"]]


def location_same_site(loc):
    from yarl import URL
    if not loc.startswith("/") or loc[1:2] in ("/", "\\"):
        return False
    try:
        u = URL(loc)
    except Exception:
        return False
    return not u.is_absolute() and not u.scheme and u.host is None


def run_mw(loop, routes, flags, raw, query):
    """-> (candidates seen by _check_request_resolves, outcome)"""
    from aiohttp import web
    import aiohttp.web_middlewares as mwmod
    app = web.Application()
    for i, r in enumerate(routes):
        app.router.add_route("GET", r, _mk_handler(i))
    a, r, m = flags
    mw = mwmod.normalize_path_middleware(append_slash=a, remove_slash=r, merge_slashes=m)
    req = mk_request("GET", raw, "h", query)
    mi = loop.run_until_complete(app.router.resolve(req))
    mi.add_app(app)
    req._match_info = mi
    seen = []
    orig = mwmod._check_request_resolves

    async def spy(request, path):
        seen.append(path)
        return await orig(request, path)

    async def handler(request):
        return "handled"
    mwmod._check_request_resolves = spy
    try:
        try:
            out = loop.run_until_complete(mw(req, handler))
            outcome = ("handled", None)
        except web.HTTPMove as e:
            outcome = ("redirect", e.headers["Location"])
        except Exception as e:
            outcome = (f"E_OTHER({type(e).__name__})", None)
    finally:
        mwmod._check_request_resolves = orig
    resolved = mi.http_exception is None
    return seen, outcome, resolved, req.path.endswith("/")


def check_middleware(ctx, loop):
    rng = ctx.rng
    cases = []
    paths = list(MW_PATHS)
    for _ in range(0 if ONLY_SCRIPTED else 60 if ctx.quick else 600):
        n = rng.randint(1, 3)
        p = "".join(rng.choice(["/", "//", "///"]) + rng.choice(["a", "b", "evil.com", "%2F", "\\", "x"]) for _ in range(n))
        paths.append(p + rng.choice(["", "/", "//"]))
    flagsets = [(a, r, m) for a in (True, False) for r in (True, False) for m in (True, False) if not (a and r)]
    for i, p in enumerate(paths):
        scripted = i < len(MW_PATHS)        # the scripted paths: every route set, fixed query choice, on every seed
        for fl in flagsets:
            routes = rng.choice(MW_ROUTES) if (ctx.quick and not scripted) else None
            for j, rt in enumerate([routes] if routes else MW_ROUTES):
                cases.append((rt, fl, p, ("q=//x" if (i + j) % 3 == 0 else "") if scripted else rng.choice(["", "", "q=//x"])))
    lines, impls, keep = [], [], []
    for rt, fl, p, q in cases:
        seen, outcome, resolved, ends = run_mw(loop, rt, fl, p, q)
        ctx.case(("mw", rt, fl, p, q))
        ctx.hit("mw:" + outcome[0])
        case = {"kind": "mw", "routes": rt, "flags": list(fl), "path": p, "query": q}
        if outcome[0] == "redirect":
            loc = outcome[1]
            if not location_same_site(loc):
                ctx.violation("C14/redirect/off-site", case, f"normalising redirect for {p!r} points to {loc!r}")
        elif outcome[0] != "handled":
            ctx.violation("C14/redirect/unexpected-exception", case, f"middleware raised {outcome[0]} for {p!r}")
        if resolved:
            continue          # the middleware does nothing for a request that resolves
        # the model lists all candidates; the implementation stops at the first that resolves
        lines.append(f"mw {int(fl[0])}{int(fl[1])}{int(fl[2])} {st(p)} {int(ends)}")
        impls.append((seen, outcome[0] == "redirect"))
        keep.append(case)
    outs = ctx.model(lines)
    if outs is not None:
        for case, (seen, redirected), out in zip(keep, impls, outs):
            cands = out.split(",") if out else []
            got = [st(s) for s in seen]
            want = cands[:len(got)] if redirected else cands
            ctx.compare(case, ",".join(got), ",".join(want), "normalize_path_middleware candidates vs Aio.C14.mwCandidates")


# ------------------------------------------------------------------------------ fixed regression programs
def fixed_programs():
    hg = HidGen()
    progs = [
        [("R", "GET", "/a b/{x}", 0), ("R", "GET", "/a b", 1)],                                   # F12
        [("R", "POST", "/p/x", 0), ("SUB", "/p", [("R", "GET", "/x", 1)])],
        [("R", "GET", "/{tail:.*}", 0), ("SUB", "/p", [("R", "GET", "/x", 1)])],
        [("SUB", "/p", [("DOM", "a.example", [("R", "GET", "/x", 0)]), ("R", "GET", "/y", 1)])],   # KeyError
        [("SUB", "/p", [("SUB", "/m", [("R", "GET", "/x", 0), ("R", "GET", "/{v}/z", 1)]), ("R", "GET", "/y", 2)])],
        [("R", "GET", "/a", 0), ("R", "POST", "/b", 1), ("R", "PUT", "/a", 2), ("R", "GET", "/a", 3)],
        [("R", "GET", "/a/{x}", 0), ("R", "*", "/a/b", 1), ("R", "GET", "/a/b", 2)],
        [("S", "/s", 0), ("R", "POST", "/s/f", 2), ("R", "GET", "/s/{x}", 3)],
        [("R", "GET", "/a{x}", 0), ("R", "GET", "/{x}.txt", 1), ("R", "GET", "/ab", 2)],
        [("DOM", "a.example", [("R", "GET", "/a", 0)]), ("R", "GET", "/a", 1), ("DOM", "*.b.example", [("R", "POST", "/a", 2)])],
        [("R", "GET", "", 0), ("R", "GET", "/", 1)],
        [("SUB", "/a b", [("R", "GET", "/x", 0)])],
        [("S", "/a b", 0)],
        [("DOM", "*.b.example", [("R", "GET", "/a", 0)]), ("R", "GET", "/a", 1)],          # mask must match the whole host
        [("DOM", "a.*.example", [("R", "*", "/{tail:.*}", 0)]), ("DOM", "a.example:8080", [("R", "GET", "/a", 1)]), ("R", "*", "/{tail:.*}", 2)],
        [("DOM", "a.*", [("R", "GET", "/a", 0)]), ("DOM", "A.Example.", [("R", "GET", "/a", 1)]), ("R", "GET", "/a", 2)],
        [("R", "GET", "/a/{tail:.*}", 0), ("R", "GET", "/a/", 1), ("R", "GET", "/a//", 2)],   # key = rstrip("/") of the fixed part
        [("SUB", "/a+b", [("R", "GET", "/{x}", 0)]), ("SUB", "/x.y", [("R", "GET", "/{x}", 1)])],
        # a refused mount (frozen application / bad prefix / bad domain) must not touch the sub-application
        [("SUB", "/api", [("R", "GET", "/ping", 0), ("R", "GET", "/items/{id}", 1)], [("f", "/old")])],
        [("SUB", "/api", [("R", "GET", "/ping", 0), ("S", "/s", 1), ("SUB", "/m", [("R", "GET", "/{x}", 3)])],
          [("b", "nop"), ("f", "/old/"), ("fd", "a.example"), ("bd", "bad domain"), ("b", "")])],
        [("DOM", "a.example", [("R", "GET", "/a", 0)], [("f", "/old"), ("fd", "*.b.example")]), ("R", "GET", "/a", 1)],
        [("R", "GET", "/a", 0), ("FREEZE",), ("R", "POST", "/a", 1), ("R", "GET", "/b", 2), ("S", "/s", 3),
         ("SUB", "/p", [("R", "GET", "/x", 5)]), ("DOM", "a.example", [("R", "GET", "/a", 6)])],
        # add_get: GET plus implicit HEAD; (second program) the HEAD route stays when the GET route is refused
        [("G", "/g", 0), ("R", "POST", "/g", 1), ("G", "/g/{x}", 2), ("R", "PUT", "/g/{x}", 3)],
        [("R", "GET", "/h", 0), ("G", "/h", 1)],
        # the route for the exact method wins over the '*' route of the same resource
        [("R", "GET", "/m", 0), ("R", "*", "/m", 1), ("R", "PUT", "/m/{x}", 2), ("R", "*", "/m/{x}", 3), ("R", "*", "/n", 4)],
        # consecutive registrations of one template with and without a constraint are two resources
        [("R", "GET", "/f/{x:\\d+}", 0), ("R", "PUT", "/f/{x}", 1), ("R", "POST", "/g/{x}", 2), ("R", "PUT", "/g/{x:[ab]+}", 3)],
        # class-based views: 405 with the served methods for every other method token
        [("V", "/view", 0, ("GET", "POST")), ("R", "GET", "/fn", 16), ("R", "POST", "/fn", 17),
         ("SUB", "/api", [("V", "/view", 18, ("GET", "POST")), ("V", "/{x}", 34, ())])],
        [("V", "/a/{x}", 0, ("DELETE", "HEAD", "TRACE")), ("R", "PUT", "/a/{x}", 16), ("V", "/{tail:.*}", 17, ("CONNECT",))],
        # 404 vs 405 when a path starts with a static prefix but normalises out of it
        [("S", "/static", 0), ("R", "GET", "/about", 2)],
        [("SUB", "/p", [("S", "/s", 0), ("R", "POST", "/x", 2)]), ("R", "GET", "/{tail:.*}", 3)],
    ]
    return [renumber(p, HidGen()) for p in progs]


# ------------------------------------------------------------------------------ entry points
def check(ctx):
    rng = ctx.rng
    loop = asyncio.new_event_loop()
    try:
        asyncio.set_event_loop(loop)
        # scripted part: the same programs AND the same requests on every seed (own fixed PRNG), every request also
        # through Application._handle; every mechanism the check claims to catch has its case here
        check_tables(ctx, loop, fixed_programs(), 240, "fixed", rng=random.Random(14), app_level=1)
        programs = []
        for _ in range(0 if ONLY_SCRIPTED else 1500 if ctx.quick else 5000):
            hg = HidGen()
            ops = gen_ops(rng, hg, rng.choice([0, 1, 1, 2, 3]))
            if rng.random() < 0.2:
                # the application starts serving half way: later registrations are refused (or, for a route added
                # to the last resource, accepted) and must not disturb what is there
                ops.insert(rng.randint(1, len(ops)), ("FREEZE",))
            programs.append(ops)
            for perm in permutations_of(ops, 2 if ctx.quick else 5):
                programs.append(renumber(perm, HidGen()))
        check_tables(ctx, loop, programs, 24 if ctx.quick else 30, "random")
        if not ctx.quick:
            check_exhaustive(ctx, loop)
        check_url_for(ctx, loop)
        check_middleware(ctx, loop)
    finally:
        asyncio.set_event_loop(None)
        loop.close()


def _tup(x):
    return tuple(_tup(e) for e in x) if isinstance(x, list) else x


def _ops_from_json(ops):
    out = []
    for op in ops:
        if op[0] == "V":
            out.append(("V", op[1], op[2], tuple(op[3])))
        elif op[0] in ("SUB", "DOM"):
            out.append((op[0], op[1], _ops_from_json(op[2]), [tuple(a) for a in (op[3] if len(op) > 3 else [])]))
        else:
            out.append(tuple(op))
    return out


def replay(ctx, case):
    loop = asyncio.new_event_loop()
    try:
        asyncio.set_event_loop(loop)
        kind = case.get("kind")
        if kind in ("resolve", "build", "table"):
            ops = _ops_from_json(case["ops"])
            reqs = [tuple(case["req"])] if "req" in case else [tuple(r) for r in case.get("reqs", [])]
            line, reply, results, codes = run_program(ctx, loop, ops, reqs, app_level=1)
            judge_build(ctx, ops, codes)
            for req, (impl, ps) in zip(reqs, results):
                judge_resolution(ctx, ops, codes, req, impl, ps)
        elif kind == "domain":
            judge_domain(ctx, case["domain"], case["host"])
        elif kind == "url_for":
            from aiohttp import web
            app = web.Application()
            res = app.router.add_resource(case["template"])
            res.add_route("GET", _mk_handler(0))
            u = res.url_for(**case["values"])
            mi = loop.run_until_complete(app.router.resolve(mk_request("GET", u.raw_path, "h")))
            got = dict(mi) if mi.http_exception is None else None
            if got != case["values"]:
                from aiohttp.web_urldispatcher import _requote_path
                parts = parse_template_spec(case["template"])
                q = any(_requote_path(p[1]) != p[1] for p in parts if p[0] == "lit")
                ctx.violation("C14/url_for/not-inverse/quoted-literal" if (q and got is None) else "C14/url_for/not-inverse", case,
                              f"url_for = {u.raw_path!r}; resolving it gives {got}")
        elif kind == "mw":
            seen, outcome, resolved, ends = run_mw(loop, case["routes"], tuple(case["flags"]), case["path"], case["query"])
            if outcome[0] == "redirect" and not location_same_site(outcome[1]):
                ctx.violation("C14/redirect/off-site", case, f"redirect to {outcome[1]!r}")
            elif outcome[0] not in ("redirect", "handled"):
                ctx.violation("C14/redirect/unexpected-exception", case, outcome[0])
    finally:
        asyncio.set_event_loop(None)
        loop.close()
