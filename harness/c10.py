"""C10 — parsers are total and enforce their configured limits.

Implementation: aiohttp.http_parser (request and response parser, payload parser), the server's
400 path.  Model: lean/AioModel/Http.lean; theorems lean/AioProps/C10.lean.
"""
import os
import asyncio
from .common import httpparse as H
from .common.httpgen import generate as _gen
from .common.codec import hx, unhx

PROPERTY = "C10"
LEAN_MODULES = ["AioProps.C10", "AioProps.C10Run", "AioProps.C10Body", "AioProps.C10Tail"]
THEOREMS = [
    "Aio.Http.long_line_rejected",
    "Aio.Http.too_many_headers_rejected",
    "Aio.Http.accepted_lines_bounded",
    "Aio.Http.partial_line_bounded",
    "Aio.Http.chunk_tail_bounded",
    "Aio.Http.long_chunk_size_line_rejected",
    "Aio.Http.rejected_stays_rejected",
    "Aio.Http.stepOnce_cont_lines",
    "Aio.Http.stepOnce_stop_retained",
    "Aio.Http.feedLoop_retained",
    "Aio.Http.feed_retained",
    "Aio.Http.feedAll_retained",
    "Aio.Http.payloadFeed_complete_eof",
    "Aio.Http.error_ends_open_body",
    "Aio.Http.chunkedLoop_tail",
    "Aio.Http.payloadFeed_retained",
    "Aio.Http.payloadRun_retained",
]
RULE = ("(a) limit probes: for each syntactic position (request line, status line, header field, chunk-size line incl. extension, "
        "trailer) a stream whose line at that position has length limit-1, limit, limit+1 (limits drawn 8..200, max_line_size != "
        "max_field_size in half the cases), more/fewer header lines than max_headers, fed whole, at every cut inside the probed "
        "line and byte-at-a-time; (b) structure-aware mutations (42 classes) and raw random bytes incl. long runs without any "
        "terminator and CR floods, request and response parser, strict and lax. After every feed_data call the retained sizes "
        "(_tail, _lines, payload _chunk_tail, _trailer_lines) are checked against the bound the theorems give and the "
        "exception type is checked; each run is also compared with the Lean model. non-trivial = error or message.")
TRUSTED_BASE = [
    "CPU time / absence of super-linear work is NOT verified (no cost model); only retained bytes and termination of each call are observed",
    "yarl oracle column; decompression outside the model",
]
ASSUMPTIONS = ["the retained-bytes bound is per buffered line: limit + 1 (+ terminator), and max_headers lines per block"]


def generate(repo):
    return _gen(repo)


def retained(p):
    pp = p._payload_parser
    return dict(tail=len(p._tail), nlines=len(p._lines), maxline=max([len(l) for l in p._lines] or [0]),
                ctail=len(pp._chunk_tail) if pp is not None else 0,
                cstate=(pp._chunk.name if pp is not None and pp._type.name == "PARSE_CHUNKED" else None),
                ntrailers=len(pp._trailer_lines) if pp is not None else 0)


def run_checked(ctx, cfg, segs, kind):
    """feed segs to the real parser, checking exception types and retained sizes after each call"""
    p = H.make_parser(cfg)
    case = {"cfg": cfg.spec(), "stream": hx(b"".join(segs)), "cuts": [len(s) for s in segs]}
    kw = {"SEP": b"\n" if cfg.lax else b"\r\n"} if cfg.response else {}
    lim = max(cfg.max_line, cfg.max_field)
    for s in segs:
        try:
            H._watch(True)
            try:
                p.feed_data(s, **kw)
            finally:
                H._watch(False)
        except BaseException as e:  # noqa
            name = type(e).__name__
            if name == "_Runaway":
                raise
            if name == "ParserHang":
                if not H.confirm_hang(cfg, segs):
                    return run_checked(ctx, cfg, segs, kind)     # a GC pause, not the parser: run again
                H.note_hang(cfg, segs)
            elif name not in H.KNOWN_ERRS:
                ctx.violation(f"C10/escaped-exception/{name}", case, f"{name} left feed_data: {e!r}"[:300])
            return name
        r = retained(p)
        if p._payload_parser is None and not p._upgraded:
            first = r["nlines"] == 0
            bound = (cfg.max_line if first else cfg.max_field) + 1
            if r["tail"] > bound:
                ctx.violation("C10/retained/tail-exceeds-limit", case, f"_tail holds {r['tail']} bytes, limit in force {bound - 1}")
        if r["nlines"] > cfg.max_headers or r["maxline"] > lim + 1:
            ctx.violation("C10/retained/lines-exceed-limits", case, f"_lines: {r['nlines']} lines, longest {r['maxline']}")
        if r["cstate"] in ("PARSE_CHUNKED_SIZE", "PARSE_TRAILERS", "PARSE_CHUNKED_CHUNK_EOF"):
            # the check on an unfinished chunk-size / trailer line runs at the *next* call, so what is kept after a
            # call is at most what that check lets through (limit, + a CR that may be half a terminator) plus this read
            cl = cfg.max_field if r["cstate"] == "PARSE_TRAILERS" else cfg.max_line
            if r["ctail"] > cl + 1 + len(s):
                ctx.violation(f"C10/retained/chunk-tail-exceeds-limit/{r['cstate'][6:].lower()}", case,
                              f"_chunk_tail holds {r['ctail']} bytes of an unfinished line in {r['cstate']} after a {len(s)}-byte read, limit in force {cl}")
                return "retained"
        if r["ntrailers"] > cfg.max_headers:
            ctx.violation("C10/retained/trailers-exceed-limit", case, f"{r['ntrailers']} trailer lines kept")
    try:
        p.feed_eof()
    except BaseException as e:  # noqa
        name = type(e).__name__
        if name not in H.KNOWN_ERRS:
            ctx.violation(f"C10/escaped-exception/{name}", case, f"{name} left feed_eof")
        return name
    return None


def oracle_body_open(ctx, cfg, data, segs, o):
    """no hang: when feed_data raises while a body stream already handed to the caller is still open, that stream
    must have been ended or failed — otherwise its reader waits for ever behind the queued protocol error"""
    if o.get("body_open_after_error"):
        ctx.violation(f"C10/hang/raised-but-delivered-body-left-open/{'resp' if cfg.response else 'req'}",
                      {"cfg": cfg.spec(), "stream": hx(data), "cuts": [len(s) for s in segs], "bodyopen": True},
                      f"feed_data raised {o['err']} but the body stream of the message in progress got neither EOF nor an exception")


def dribbles(rng):
    """(cfg, stream, where): a valid prefix followed by a line of 4x the limit that is never terminated"""
    out = []
    ml, mf = rng.randint(16, 100), rng.randint(16, 100)
    if rng.random() < 0.4:
        mf = ml
    big = 4 * max(ml, mf) + 40
    fill = lambda n: bytes(rng.choice(b"abcxyz=09") for _ in range(n))
    for response in (False, True):
        for lax in ((False, True) if response else (False,)):
            cfg = lambda: H.Cfg(max_line=ml, max_field=mf, response=response, lax=lax)
            start = b"HTTP/1.1 200 OK\r\n" if response else b"POST /p HTTP/1.1\r\nHost: h\r\n"
            te = start + b"Transfer-Encoding: chunked\r\n\r\n"
            out.append((cfg(), (b"HTTP/1.1 200 " if response else b"GET /") + fill(big), "start-line"))
            out.append((cfg(), start + b"X-F: " + fill(big), "field-line"))
            out.append((cfg(), te + b"1;" + fill(big), "chunk-size-line"))
            out.append((cfg(), te + fill(1).hex().encode()[:1] * big, "chunk-size-digits"))
            out.append((cfg(), te + b"3\r\nabc\r\n2;x=" + fill(big), "chunk-size-line-2"))
            out.append((cfg(), te + b"3\r\nabc\r\n0\r\nX-T: " + fill(big), "trailer-line"))
            out.append((cfg(), te + b"0\r\n" + fill(big), "trailer-line-first"))
    return out


def limit_probes(rng):
    """(cfg, stream, position, delta) with the probed line of length limit+delta"""
    out = []
    for _ in range(1):
        ml, mf = rng.randint(16, 120), rng.randint(16, 120)
        if rng.random() < 0.5:
            mf = ml
        for delta in (-1, 0, 1):
            # request line
            n = ml + delta
            pad = n - len(b"GET / HTTP/1.1")
            if pad >= 0:
                out.append((H.Cfg(max_line=ml, max_field=max(mf, 16)), b"GET /" + b"a" * pad + b" HTTP/1.1\r\nHost: x\r\n\r\n", "reqline", delta))
            # header field (limits must admit the other lines)
            n = mf + delta
            if n >= 4:
                out.append((H.Cfg(max_line=max(ml, 16), max_field=mf), b"GET / HTTP/1.1\r\nHost: x\r\nX: " + b"v" * (n - 3) + b"\r\n\r\n", "field", delta))
            # chunk-size line with extension
            n = ml + delta
            if n >= 3:
                out.append((H.Cfg(max_line=ml, max_field=max(mf, 30)),
                            b"POST / HTTP/1.1\r\nHost: x\r\nTransfer-Encoding: chunked\r\n\r\n5;" + b"e" * (n - 2) + b"\r\nhello\r\n0\r\n\r\n", "chunkline", delta))
            # chunk-size lines that are long without an extension: zero-padded digits, a last-chunk line of zeros,
            # the size line of a later chunk, (lax) blanks around the digits
            n = ml + delta
            if n >= 3:
                te = b"POST / HTTP/1.1\r\nHost: x\r\nTransfer-Encoding: chunked\r\n\r\n"
                out.append((H.Cfg(max_line=ml, max_field=max(mf, 30)), te + b"0" * (n - 1) + b"5\r\nhello\r\n0\r\n\r\n", "chunkdigits", delta))
                out.append((H.Cfg(max_line=ml, max_field=max(mf, 30)), te + b"5\r\nhello\r\n" + b"0" * n + b"\r\n\r\n", "lastchunk-zeros", delta))
                out.append((H.Cfg(max_line=ml, max_field=max(mf, 30)), te + b"3\r\nabc\r\n" + b"0" * (n - 1) + b"5\r\nhello\r\n0\r\n\r\n", "chunkdigits-2nd", delta))
                rte = b"HTTP/1.1 200 OK\r\nTransfer-Encoding: chunked\r\n\r\n"
                laxc = dict(response=True, lax=True, read_until_eof=False)
                out.append((H.Cfg(max_line=ml, max_field=max(mf, 30), **laxc), rte + b"5" + b" " * (n - 1) + b"\nhello\r\n0\r\n\r\n", "chunkblanks-lax", delta))
                out.append((H.Cfg(max_line=ml, max_field=max(mf, 30), **laxc), rte + b" " * (n - 1) + b"5\nhello\r\n0\r\n\r\n", "chunkblanks-lead-lax", delta))
            # trailer
            n = mf + delta
            if n >= 4 and mf >= 30:
                out.append((H.Cfg(max_line=max(ml, 16), max_field=mf),
                            b"POST / HTTP/1.1\r\nHost: x\r\nTransfer-Encoding: chunked\r\n\r\n5\r\nhello\r\n0\r\nX: " + b"t" * (n - 3) + b"\r\n\r\n", "trailer", delta))
            # status line (lax and strict)
            n = ml + delta
            pad = n - len(b"HTTP/1.1 200 ")
            if pad >= 0:
                for lax in (True, False):
                    out.append((H.Cfg(max_line=ml, max_field=max(mf, 20), response=True, lax=lax, read_until_eof=False),
                                b"HTTP/1.1 200 " + b"R" * pad + b"\r\nContent-Length: 0\r\n\r\n", "statusline", delta))
            # obs-folded field (lax only): the *unfolded* field is what the limit applies to
            n = mf + delta
            if n >= 12 and mf >= 24:
                k = rng.choice([2, 3])
                a = max(1, (n - k) // (k + 1))
                conts = [a] * (k - 1)
                last = n - a - sum(c + 1 for c in conts) - 1
                if last >= 0 and max([a + 3, last + 1] + [c + 1 for c in conts]) < mf:
                    fold = b"X: " + b"v" * a + b"".join(b"\r\n " + b"w" * c for c in conts) + b"\r\n " + b"z" * last
                    out.append((H.Cfg(max_line=max(ml, 20), max_field=mf, response=True, lax=True),
                                b"HTTP/1.1 200 OK\r\n" + fold + b"\r\nContent-Length: 0\r\n\r\n", "folded", delta))
        # lax (client-side, LF-terminated) parser: k CRs in front of the LF. One CR belongs to the line ending;
        # every further one counts as line content (for chunk-size lines all of them do)
        for delta in (-1, 0, 1):
            for k in (1, 2, 3):
                crs = b"\r" * k
                laxcfg = dict(response=True, lax=True, read_until_eof=False)
                n = ml + delta
                pad = n - len(b"HTTP/1.1 200 ")
                if pad >= 0:
                    out.append((H.Cfg(max_line=ml, max_field=max(mf, 40), **laxcfg),
                                b"HTTP/1.1 200 " + b"R" * pad + crs + b"\nContent-Length: 0\r\n\r\n", f"statusline-cr{k}", delta + k - 1))
                n = mf + delta
                if n >= 4 and mf >= 24:
                    out.append((H.Cfg(max_line=max(ml, 20), max_field=mf, **laxcfg),
                                b"HTTP/1.1 200 OK\r\nX: " + b"v" * (n - 3) + crs + b"\nContent-Length: 0\r\n\r\n", f"field-cr{k}", delta + k - 1))
                    if mf >= 30:
                        out.append((H.Cfg(max_line=max(ml, 20), max_field=mf, **laxcfg),
                                    b"HTTP/1.1 200 OK\r\nTransfer-Encoding: chunked\r\n\r\n5\r\nhello\r\n0\r\nX: " + b"t" * (n - 3) + crs + b"\n\r\n",
                                    f"trailer-cr{k}", delta + k - 1))
                n = ml + delta
                if n >= 3 and ml >= 20:
                    out.append((H.Cfg(max_line=ml, max_field=max(mf, 40), **laxcfg),
                                b"HTTP/1.1 200 OK\r\nTransfer-Encoding: chunked\r\n\r\n5;" + b"e" * (n - 2) + crs + b"\nhello\r\n0\r\n\r\n",
                                f"chunkline-cr{k}", delta + k))
        # header count
        mh = rng.randint(2, 12)
        for d in (-1, 0, 1):
            k = mh + d - 2   # request line + k fields + blank line = mh + d lines
            if k >= 1:
                out.append((H.Cfg(max_headers=mh), b"GET / HTTP/1.1\r\nHost: x\r\n" + b"".join(b"X-%d: v\r\n" % i for i in range(k - 1)) + b"\r\n", "nheaders", d))
    return out


def expected_verdict(pos, delta):
    return "reject" if delta > 0 else "accept"


def _check(ctx):
    rng = ctx.rng
    lines, pending = [], []
    n_probe_rounds = 60 if ctx.quick else 1200
    for _ in range(n_probe_rounds):
        for cfg, data, pos, delta in limit_probes(rng):
            segss = [[data], H.bytewise(data)] + [c for c in H.cuts_single(data)][:: max(1, len(data) // 12)]
            for segs in segss:
                canon, o = H.run_impl(cfg, segs, True)
                ctx.case((cfg.key(), data, tuple(len(s) for s in segs)), sample={"probe": pos, "delta": delta, "cfg": cfg.spec(), "impl": canon[:100]} if ctx.evaluations % 2503 == 0 else None)
                lines.append(H.model_line(cfg, segs, True)); pending.append(({"cfg": cfg.spec(), "stream": hx(data), "cuts": [len(s) for s in segs]}, canon))
                oracle_body_open(ctx, cfg, data, segs, o)
                rej = H.rejected(o)
                want = expected_verdict(pos, delta)
                case = {"cfg": cfg.spec(), "stream": hx(data), "cuts": [len(s) for s in segs], "probe": pos, "delta": delta}
                if want == "reject" and not rej:
                    ctx.violation(f"C10/limit-not-enforced/{pos}", case, f"{pos} of length limit+{delta} accepted")
                if want == "accept" and rej:
                    ctx.violation(f"C10/limit-too-strict/{pos}", case, f"{pos} of length limit{delta:+d} rejected ({o['err']})")
                run_checked(ctx, cfg, segs, pos)
            ctx.hit(f"probe:{pos}:{delta:+d}")
    # lines that never end, dribbled in small reads: every syntactic position must be cut off at its limit
    for _ in range(6 if ctx.quick else 80):
        for cfg, data, where in dribbles(rng):
            k = rng.choice([1, 2, 3, 5, 7, 11])
            segs = [data[i:i + k] for i in range(0, len(data), k)]
            err = run_checked(ctx, cfg, segs, "dribble:" + where)
            ctx.case((cfg.key(), data, k), nontrivial=True)
            ctx.hit(f"dribble:{where}:{err}")
            if err is None:
                ctx.violation(f"C10/limit-not-enforced/unterminated-{where}", {"cfg": cfg.spec(), "stream": hx(data), "cuts": [len(x) for x in segs]},
                              f"an unterminated {where} of {len(data)} bytes was accepted read after read (limits {cfg.max_line}/{cfg.max_field})")
    # mutations + raw bytes; the first ones come from a fixed stream (every mutation class, on every seed)
    fixed = H.deterministic_mutants(16)
    n = 1500 if ctx.quick else 40000
    for i in range(n + len(fixed)):
        r = rng.random()
        response = r < 0.35
        lax = response and r < 0.25
        if i < len(fixed):
            response = fixed[i][2]; lax = response
        cfg = H.Cfg(response=response, lax=lax, read_until_eof=response and rng.random() < 0.5)
        if rng.random() < 0.5 and i >= len(fixed):
            cfg.max_line, cfg.max_field, cfg.max_headers = rng.randint(8, 80), rng.randint(8, 80), rng.randint(2, 10)
        kind = "valid"
        q = rng.random() if i >= len(fixed) else 2.0
        if i < len(fixed):
            data, kind = fixed[i][0], "fixed:" + fixed[i][1]
        elif q < 0.2:
            m = rng.choice([64, 200, 1000, 9000])
            alphabet = rng.choice([bytes(range(256)), b"\r", b"\r\n ", b"a", b"a:\t ", b"0123456789abcdef;\r"])
            data = bytes(rng.choice(alphabet) for _ in range(rng.randint(1, m))); kind = "raw"
        elif i >= len(fixed):
            data = H.gen_response(rng, lax) if response else b"".join(H.gen_request(rng) for _ in range(rng.choice([1, 2])))
            if rng.random() < 0.8:
                data, kind = H.mutate(rng, data)
        segss = [[data]]
        if len(data) > 2:
            segss.append(H.cuts_random(rng, data, rng.randint(1, 6)))
            if len(data) < 300:
                segss.append(H.bytewise(data))
        for segs in segss:
            err = run_checked(ctx, cfg, segs, kind)
            canon, o = H.run_impl(cfg, segs, True)
            ctx.case((cfg.key(), data, tuple(len(s) for s in segs)), nontrivial=bool(o["events"]) or o["err"] is not None)
            oracle_body_open(ctx, cfg, data, segs, o)
            lines.append(H.model_line(cfg, segs, True)); pending.append(({"cfg": cfg.spec(), "stream": hx(data), "cuts": [len(s) for s in segs]}, canon))
            ctx.hit("verdict:" + str(o["err"]))
        ctx.hit("kind:" + kind)
    outs = ctx.model(lines)
    if outs is not None:
        for (case, canon), m in zip(pending, outs):
            ctx.compare(case, canon, m, "parser vs Aio.Http.feed/feedEof")
    # "which the server turns into a 400 response": malformed request streams through the real server
    from . import c01
    srv = []
    for data, kind, response in fixed:         # every mutation class and variant, on every seed
        if not response:
            _, o = H.run_impl(H.Cfg(), [data], False)
            srv.append((data, o))
    for _ in range(400 if ctx.quick else 6000):
        data = b"".join(H.gen_request(rng) for _ in range(rng.choice([1, 2])))
        data, kind = H.mutate(rng, data)
        _, o = H.run_impl(H.Cfg(), [data], False)
        srv.append((data, o))
    res, excs = c01.server_run([d for d, _ in srv])
    for (data, o), (out, closed, escaped) in zip(srv, res):
        c01.oracle_server(ctx, data, o, out, closed, escaped)
        ctx.case(("srv", data), nontrivial=bool(out))
    if excs:
        ctx.violation("C05/loop-exception-handler-called", {"n": len(excs), "first": repr(excs[0])[:300]}, f"{len(excs)} exceptions reached the event loop")
    check_work(ctx)
    check_client_side(ctx)
    # the malformed request arrives behind valid keep-alive requests: in the same read (their handlers have not run yet)
    # or in a later read while a slow handler is still running — the 4xx must still be sent, after their responses
    oks = [b"GET /ok HTTP/1.1\r\nHost: h\r\n\r\n", b"POST /ok HTTP/1.1\r\nHost: h\r\nContent-Length: 3\r\n\r\nabc",
           b"GET /slow HTTP/1.1\r\nHost: h\r\nX-Slow: 1\r\n\r\n", b"PUT /ok HTTP/1.1\r\nHost: h\r\nTransfer-Encoding: chunked\r\n\r\n3\r\nabc\r\n0\r\n\r\n"]
    behind = []
    for _ in range(150 if ctx.quick else 3000):
        pre = b"".join(rng.choice(oks) for _ in range(rng.choice([1, 1, 2, 3])))
        bad, kind = H.mutate(rng, H.gen_request(rng))
        data = pre + bad
        cuts, gaps = ([len(data)], [0]) if rng.random() < 0.4 else ([len(pre), len(bad)], [rng.choice([0, 0.3, 0.3]), 0])
        _, o = H.run_impl(H.Cfg(), [pre, bad] if len(cuts) == 2 else [data], False)
        if o["err"] is None:
            continue
        # the rejected request was never parsed: its 4xx carries a body whatever its method says
        o["methods"] = [m.split(b" ", 1)[0] for m in pre.split(b"\r\n") if b" HTTP/1." in m] + [b"?"]
        behind.append((data, cuts, gaps, o))
    res, excs = c01.server_seen([(d, c, g) for d, c, g, _ in behind])
    for (data, cuts, gaps, o), (seen, out, closed, escaped) in zip(behind, res):
        case = {"cfg": H.Cfg().spec(), "stream": hx(data), "cuts": cuts, "gaps": gaps, "behind": True}
        ctx.case(("srv-behind", data, tuple(cuts), tuple(gaps)), nontrivial=bool(out))
        judge_behind(ctx, case, o, out, closed, escaped)
    if excs:
        ctx.violation("C05/loop-exception-handler-called", {"n": len(excs), "first": repr(excs[0])[:300]}, f"{len(excs)} exceptions reached the event loop (errors behind handlers)")


# ------------------------------------------------------------------ client side: "... and the client into a client error"
def client_run(cases):
    """each case (stream, cuts, auto_decompress, read_until_eof): the real ResponseHandler over an in-memory transport;
    the caller awaits the head and then reads the body → [(outcome, escaped, lost)]
    outcome = ("ok", status, n) | ("exc", phase, class name, is_client_error)"""
    import aiohttp
    from aiohttp.client_proto import ResponseHandler
    from aiohttp.http_exceptions import HttpProcessingError
    from .common.vloop import run
    from .common.memtransport import MemTransport
    res = []

    async def main():
        loop = asyncio.get_running_loop()
        for data, cuts, autod, rue in cases:
            proto = ResponseHandler(loop)
            tr = MemTransport(loop, proto)
            proto.connection_made(tr)
            proto.set_response_params(read_until_eof=rue, auto_decompress=autod, read_bufsize=2 ** 16)
            escaped, pos = None, 0

            async def caller():
                try:
                    msg, payload = await proto.read()
                except BaseException as e:  # noqa
                    return ("exc", "head", type(e).__name__, isinstance(e, (aiohttp.ClientError, HttpProcessingError)))
                try:
                    body = await payload.read()
                except BaseException as e:  # noqa
                    return ("exc", "body", type(e).__name__, isinstance(e, (aiohttp.ClientError, HttpProcessingError)))
                return ("ok", msg.code, len(body))
            task = loop.create_task(caller())
            for n in cuts:
                if tr.closing:
                    break
                try:
                    H._watch(True)
                    try:
                        proto.data_received(data[pos:pos + n])
                    finally:
                        H._watch(False)
                except BaseException as e:  # noqa
                    if type(e).__name__ == "_Runaway":
                        raise
                    escaped = type(e).__name__; break
                pos += n
                await asyncio.sleep(0)
            if not tr.closing:
                tr.peer_close()            # the peer ends the connection: whoever still waits gets a client error
            await asyncio.sleep(1)
            if not task.done():
                task.cancel()
                res.append((("pending",), escaped, tr.closed)); await asyncio.sleep(0)
            else:
                res.append((task.result(), escaped, tr.closed))
    excs = []
    run(main, excs=excs)
    return res, excs


def check_client_side(ctx):
    rng = ctx.rng
    cases = []
    for _ in range(500 if ctx.quick else 8000):
        lax = True
        data = H.gen_response(rng, lax)
        kind = "valid"
        if rng.random() < 0.85:
            data, kind = H.mutate(rng, data)
        if rng.random() < 0.15:
            m = rng.choice([16, 200, 3000])
            data = bytes(rng.choice(rng.choice([bytes(range(256)), b"\r\n ", b"HTP/1.0 2\r\n:;,a"])) for _ in range(rng.randint(1, m))); kind = "raw"
        cuts = [len(data)] if rng.random() < 0.5 or len(data) < 3 else [len(x) for x in H.cuts_random(rng, data, rng.randint(1, 4))]
        cases.append((data, cuts, rng.random() < 0.6, rng.random() < 0.4))
        ctx.hit("client:" + kind)
    res, excs = client_run(cases)
    for (data, cuts, autod, rue), (out, escaped, lost) in zip(cases, res):
        case = {"cfg": H.Cfg(response=True, lax=True).spec(), "stream": hx(data), "cuts": cuts, "client": [autod, rue]}
        ctx.case(("client", data, tuple(cuts), autod, rue), nontrivial=True)
        judge_client(ctx, case, out, escaped)
    if excs:
        ctx.violation("C10/client/loop-exception-handler-called", {"n": len(excs), "first": repr(excs[0])[:300]}, f"{len(excs)} exceptions reached the event loop (client side)")
    H.hang_report(ctx)


def judge_client(ctx, case, out, escaped):
    if escaped:
        ctx.violation(f"C10/client/exception-escaped-data_received/{escaped}", case, f"{escaped} left ResponseHandler.data_received")
    elif out[0] == "pending":
        ctx.violation("C10/client/caller-left-waiting-after-the-connection-ended", case, "the peer closed the connection but the caller of read() is still waiting")
    elif out[0] == "exc" and not out[3]:
        ctx.violation(f"C10/client/not-a-client-error/{out[1]}/{out[2]}", case, f"the caller got {out[2]} while reading the {out[1]} — not a ClientError / HttpProcessingError")
    ctx.hit("client-outcome:" + (out[0] if out[0] != "exc" else f"exc:{out[2]}"))


# ------------------------------------------------------------------ work: "never ... super-linear work"
WORK_BUDGET_S = 0.040      # CPU seconds for ONE feed_data call on a message of <= 9 KB within the default limits
#   (the unchanged parser needs 0.05-0.6 ms for every family below; a quadratic scan of one 8 KB field needs 100+ ms)


def work_families():
    """(name, builder n -> stream) — one syntactic position filled with n repetitions of a short unit; default limits"""
    fams = []
    units = [b" ", b"\t", b" \t", b",", b", ", b" ,", b"a,", b";", b"; ", b"=", b"\"", b"a", b"%", b"/", b"?&", b"\\", b"(", b"a b", b"\x80", b"0"]
    names = [b"Connection", b"Transfer-Encoding", b"Content-Length", b"Host", b"Upgrade", b"Content-Encoding", b"Content-Type", b"Cookie",
             b"Expect", b"X-Any", b"Sec-WebSocket-Key1", b"Keep-Alive"]
    pre = {b"Connection": b"keep-alive", b"Transfer-Encoding": b"gzip", b"Content-Length": b"1", b"Upgrade": b"websocket", b"Expect": b"100-continue"}
    for hn in names:
        for u in units:
            def mk(n, hn=hn, u=u):
                fill = (u * (n // len(u) + 1))[:n]
                v = pre.get(hn, b"v") + fill + b"x"
                hs = b"Host: h\r\n" if hn != b"Host" else b""
                return b"POST /w HTTP/1.1\r\n" + hs + hn + b": " + v + b"\r\n\r\n"
            fams.append((f"field:{hn.decode()}:{u!r}", False, mk))
    for u in units:
        fams.append((f"target:{u!r}", False, lambda n, u=u: b"GET /" + (u * (n // len(u) + 1))[:n].replace(b" ", b"+").replace(b"\t", b"+") + b" HTTP/1.1\r\nHost: h\r\n\r\n"))
        fams.append((f"chunk-ext:{u!r}", False, lambda n, u=u: b"POST /w HTTP/1.1\r\nHost: h\r\nTransfer-Encoding: chunked\r\n\r\n3;" + (u * (n // len(u) + 1))[:n] + b"\r\nabc\r\n0\r\n\r\n"))
        fams.append((f"trailer:{u!r}", False, lambda n, u=u: b"POST /w HTTP/1.1\r\nHost: h\r\nTransfer-Encoding: chunked\r\n\r\n3\r\nabc\r\n0\r\nX-T: " + (u * (n // len(u) + 1))[:n] + b"\r\n\r\n"))
        fams.append((f"reason:{u!r}", True, lambda n, u=u: b"HTTP/1.1 200 " + (u * (n // len(u) + 1))[:n] + b"\r\nContent-Length: 0\r\n\r\n"))
        fams.append((f"resp-field:{u!r}", True, lambda n, u=u: b"HTTP/1.1 200 OK\r\nConnection: close" + (u * (n // len(u) + 1))[:n] + b"x\r\nContent-Length: 0\r\n\r\n"))
    fams.append(("many-fields", False, lambda n: b"GET / HTTP/1.1\r\nHost: h\r\n" + b"".join(b"X-%d: v\r\n" % i for i in range(min(120, n // 8))) + b"\r\n"))
    fams.append(("many-chunks", False, lambda n: b"POST /w HTTP/1.1\r\nHost: h\r\nTransfer-Encoding: chunked\r\n\r\n" + b"1\r\na\r\n" * (n // 6) + b"0\r\n\r\n"))
    return fams


def cpu_of_feed(cfg, data):
    """least CPU time (of 3 fresh parsers, collector off) of one feed_data call on the whole stream"""
    import gc, time
    kw = {"SEP": b"\n" if cfg.lax else b"\r\n"} if cfg.response else {}
    best = None
    was = gc.isenabled()
    gc.disable()
    try:
        for _ in range(3):
            p = H.make_parser(cfg)
            t0 = time.process_time()
            try:
                H._watch(True)
                try:
                    p.feed_data(data, **kw)
                finally:
                    H._watch(False)
            except H.ParserHang:
                return 10.0
            except BaseException as e:  # noqa
                if type(e).__name__ == "_Runaway":
                    raise
            dt = time.process_time() - t0
            best = dt if best is None else min(best, dt)
            if best < WORK_BUDGET_S / 4:
                break
    finally:
        if was:
            gc.enable()
    return best


def check_work(ctx):
    fams = work_families()
    rng = ctx.rng
    pick = fams if not ctx.quick else rng.sample(fams, 220) + [f for f in fams if f[0].startswith(("field:Connection", "field:Transfer-Encoding"))]
    for name, response, mk in pick:
        cfg = H.Cfg(response=response, lax=response, read_until_eof=False)
        n = 8000
        data = mk(n)
        t = cpu_of_feed(cfg, data)
        ctx.case(("work", name), nontrivial=True)
        ctx.hit("work:" + name.split(":")[0])
        if t > WORK_BUDGET_S:
            t4 = cpu_of_feed(cfg, mk(n // 4))
            ctx.violation(f"C10/work/super-linear/{name.split(':')[0]}" + (f"/{name.split(':')[1]}" if name.startswith("field:") else ""),
                          {"cfg": cfg.spec(), "stream": hx(data), "cuts": [len(data)], "work": name},
                          f"one feed_data call on a {len(data)}-byte message ({name}, default limits) used {t * 1000:.0f} ms of CPU "
                          f"(budget {WORK_BUDGET_S * 1000:.0f} ms; a quarter of the filler takes {t4 * 1000:.1f} ms: growth x{t / max(t4, 1e-6):.1f} for x4 input)")
    ctx.extra["work_families"] = len(pick)


def judge_behind(ctx, case, o, out, closed, escaped):
    from . import c01
    if escaped:
        ctx.violation(f"C05/exception-escaped-data_received/{escaped}", case, f"{escaped} left RequestHandler.data_received")
        return
    codes = c01.split_responses(out, o.get("methods") or [e[2][0] for e in o["events"] if e[0] == "M"])
    if -1 in codes:
        ctx.violation("C01/server/garbled-response-stream", case, f"response stream does not split into responses: {out[:80]!r}")
    elif codes and codes[-1] == 500 and b"content-encoding:" in bytes.fromhex(case["stream"]).lower():
        # the handler read a body whose content coding cannot be decoded: the payload's ContentEncodingError (an HTTP
        # protocol error of the parser) leaves the handler as an ordinary exception and is answered 500, not 4xx
        ctx.violation("C10/server/undecodable-content-coding-answered-500", case,
                      f"a request body with an undecodable Content-Encoding, read by the handler: responses {codes} — the parser's protocol error "
                      "(ContentEncodingError) surfaces through request.read() and is answered 500 Internal Server Error instead of a client error")
    elif not codes or not (400 <= codes[-1] < 500):
        ctx.violation("C10/server/malformed-behind-valid-requests-not-answered-4xx", case,
                      f"the parser rejects the last request ({o['err']}) behind valid ones, but the responses are {codes} (closed={closed}): no client error was sent")
    elif not closed:
        ctx.violation("C01/server/malformed-connection-left-open", case, f"4xx sent but connection still open; responses {codes}")


def _replay(ctx, case):
    spec = case["cfg"].split(",")
    cfg = H.Cfg(int(spec[0]), int(spec[1]), int(spec[2]), spec[3] == "1", spec[4] == "1", spec[5] == "1", spec[6] == "1", unhx(spec[7]))
    data = unhx(case["stream"])
    segs, pos = [], 0
    for n in case["cuts"]:
        segs.append(data[pos:pos + n]); pos += n
    if case.get("client"):
        res, excs = client_run([(data, case["cuts"], case["client"][0], case["client"][1])])
        judge_client(ctx, case, res[0][0], res[0][1])
        return
    if case.get("work"):
        t = cpu_of_feed(cfg, data)
        if t > WORK_BUDGET_S:
            name = case["work"]
            ctx.violation(f"C10/work/super-linear/{name.split(':')[0]}" + (f"/{name.split(':')[1]}" if name.startswith("field:") else ""), case,
                          f"one feed_data call used {t * 1000:.0f} ms of CPU (budget {WORK_BUDGET_S * 1000:.0f} ms)")
        return
    if case.get("behind"):
        from . import c01
        segs_, pos_ = [], 0
        for n_ in case["cuts"]:
            segs_.append(data[pos_:pos_ + n_]); pos_ += n_
        _, o = H.run_impl(H.Cfg(), segs_, False)
        o["methods"] = [m.split(b" ", 1)[0] for m in data.split(b"\r\n") if b" HTTP/1." in m and (m.startswith(b"GET /ok") or m.startswith(b"GET /slow") or m.startswith(b"POST /ok") or m.startswith(b"PUT /ok"))] + [b"?"]
        res, excs = c01.server_seen([(data, case["cuts"], case["gaps"])])
        judge_behind(ctx, case, o, res[0][1], res[0][2], res[0][3])
        return
    run_checked(ctx, cfg, segs, "replay")
    if case.get("bodyopen"):
        _, o = H.run_impl(cfg, segs, True)
        oracle_body_open(ctx, cfg, data, segs, o)
        return
    if case.get("server"):
        from . import c01
        return c01.replay(ctx, case)
    if "probe" in case:
        _, o = H.run_impl(cfg, segs, True)
        rej = H.rejected(o)
        if case["delta"] > 0 and not rej:
            ctx.violation(f"C10/limit-not-enforced/{case['probe']}", case, "over-long line accepted")
        if case["delta"] <= 0 and rej:
            ctx.violation(f"C10/limit-too-strict/{case['probe']}", case, "line within the limit rejected")


def check(ctx):
    try:
        _check(ctx)
    finally:
        H.hang_report(ctx)     # inputs on which the parser did not return


def replay(ctx, case):
    try:
        _replay(ctx, case)
    finally:
        H.hang_report(ctx)
