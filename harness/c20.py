"""C20 — App lifecycle: cleanup runs exactly for what started; shutdown drains.

Implementation under test: aiohttp.web_app (CleanupContext, Application signals), aiohttp.web_runner
(BaseRunner / AppRunner), aiohttp.web (_run_app, run_app), aiohttp.web_server (Server.pre_shutdown /
shutdown), aiohttp.web_protocol (RequestHandler.shutdown / close / start).
Models: lean/AioModel/C20.lean (lifecycle), lean/AioModel/C20Drain.lean (timed shutdown drain);
theorems: lean/AioProps/C20.lean.
"""
import asyncio, contextlib, inspect, itertools, math, random, re
from collections import Counter
from .common import vloop
from .common.c20_drain import (check_drain, replay_drain, THEOREMS_DRAIN, RULE_DRAIN, generate_constants)

PROPERTY = "C20"
LEAN_MODULES = ["AioProps.C20", "AioProps.C20Drain"]
THEOREMS_LIFE = [
    "Aio.C20.context_startup_cleanup",
    "Aio.C20.cleanup_only_started_at_most_once",
    "Aio.C20.cleanup_iff_started_runner_single",
    "Aio.C20.cleanup_iff_started_run_app_single_partial",
    "Aio.C20.run_app_eq_runner_when_startup_succeeds",
    "Aio.C20.cleanup_iff_started_tree_partial",
    "Aio.C20.root_contexts_always_cleaned",
    "Aio.C20.teardowns_never_overlap",
    "Aio.C20.context_teardowns_sequential",
    "Aio.C20.cancelled_startup_is_not_recorded",
    "Aio.C20.f16_run_app_setup_outside_try",
    "Aio.C20.run_app_failed_startup_never_cleans",
    "Aio.C20.subapp_contexts_skipped_after_failed_startup",
    "Aio.C20.cleanup_error_skips_subapp_contexts",
    "Aio.C20.shutdown_handler_error_skips_all_cleanup",
    "Aio.C20.parent_exits_before_subapp",
]
THEOREMS = THEOREMS_LIFE + THEOREMS_DRAIN
RULE = ("(a) lifecycle: application trees (root + up to 4 sub-applications, nesting <= 2) with 0-4 cleanup contexts per "
        "application (async-generator, @asynccontextmanager and class based), user handlers on on_startup/on_shutdown/"
        "on_cleanup registered before/after add_subapp; every callback is ok | raises Exception | raises CancelledError, logs its begin and its end and in between "
        "suspends as the case's `susp` number says (never / one loop turn / staircase: later-started contexts take longer "
        "virtual time to tear down / drawn per callback: 0-3 turns or 1-9 virtual ms); "
        "driven through AppRunner (setup;cleanup / setup / cleanup), web._run_app (cancelled while serving | site fails to "
        "start) and web.run_app itself; hand-made minimal cases first, then every single failing position of fixed shapes, "
        "then random tables; thorough adds all fail assignments of small shapes. distinct by table+entry; non-trivial when "
        "at least one context exists. " + RULE_DRAIN)
TRUSTED_BASE = [
    "drain scenarios in which the client disconnects (connection_lost from the peer) are judged by the direct oracle only; the Lean drain model has no such label",
    "listening sockets: the sites are real BaseSite objects registered with the real runner, only the asyncio.Server they own is an in-memory stand-in that records close()",
    "aiosignal.Signal.send (receivers awaited in list order, first exception propagates) and frozenlist are modelled, not verified",
    "contextlib.asynccontextmanager / async generators: __aenter__ runs the code before the single yield, __aexit__(None,None,None) the code after it (exercised by the harness with generator, decorator and class based contexts)",
    "a nested Signal.send is represented by the flattened receiver chain computed by Aio.C20.chain from the application table",
    "sites/sockets are not modelled: no new connection is created after cleanup() starts (site.stop() closed the listeners); in-memory transports replace sockets; time is the virtual clock of harness/common/vloop.py",
    "CPython asyncio: ready callbacks FIFO, timers not before their deadline, cancellation delivered at the next resumption, eager task start",
    "drain model: one request handler oracle per request (sleeps d ticks, optionally after reading the body); keep-alive timer (3630 s) and lingering-close are outside the generated scenarios",
]
ASSUMPTIONS = [
    "AppRunner entry = `await runner.setup()` followed, whatever it raised, by `await runner.cleanup()`; run_app entry = web._run_app / web.run_app stopped by cancelling the serving task",
    "no application is registered as a sub-application twice (wellFormed table)",
    "cleanup steps fail with Exception or CancelledError (a bare BaseException escapes CleanupContext._on_cleanup by design)",
    "drain: handler completion never coincides exactly with a shutdown deadline (generator keeps handler durations odd and everything else even, in 1/8 s ticks); deadlines >5 s are rounded up to the next full second by helpers.ceil_timeout, which the oracle allows (documented behaviour)",
]


def generate(repo):
    return generate_constants(repo)


# ------------------------------------------------------------------------------------ exceptions
class Boom(Exception):
    def __init__(self, origin):
        super().__init__(origin); self.origin = origin


class BoomCancel(asyncio.CancelledError):
    def __init__(self, origin):
        super().__init__(origin); self.origin = origin


class SiteFail(Exception):
    pass


def _raise(f, origin):
    if f == 1:
        raise Boom(origin)
    if f == 2:
        raise BoomCancel(origin)


def canon_exc(e):
    from aiohttp.web_app import CleanupError
    if e is None:
        return "ok"
    if isinstance(e, CleanupError):
        return "M:" + "+".join(getattr(x, "origin", f"E_OTHER({type(x).__name__})") for x in e.exceptions)
    if hasattr(e, "origin"):
        return "E:" + e.origin
    if isinstance(e, SiteFail):
        return "site"
    if isinstance(e, asyncio.CancelledError):
        return "cancelled"
    return f"E_OTHER({type(e).__name__})"


# ------------------------------------------------------------------------------------ tables
# table = list of apps; app = {"ctxs": [[kind, enter, exit]…], "su": [slot…], "sd": […], "cl": […]}
# slot = ["h", id, fail] | ["s", j]
def slot_str(s):
    return f"h{s[1]}.{s[2]}" if s[0] == "h" else f"s{s[1]}"


def table_line(entry, table):
    toks = ["life", entry]
    for a in table:
        toks += ["A",
                 ",".join(f"{c[1]}{c[2]}" for c in a["ctxs"]) or "-",
                 ",".join(slot_str(s) for s in a["su"]) or "-",
                 ",".join(slot_str(s) for s in a["sd"]) or "-",
                 ",".join(slot_str(s) for s in a["cl"]) or "-"]
    return " ".join(toks)


def pause_plan(susp, tag):
    """how long the user callback `tag` stays suspended between its begin and end events; a pure function of the
    case's `susp` number: 0 never suspends (plain callbacks), 1 one loop turn everywhere, 2 staircase — the later a
    context started the longer its teardown takes (virtual ms) —, >= 3 drawn per callback from that seed"""
    if not susp:
        return None
    if susp == 1:
        return ("turns", 1)
    if susp == 2:
        if tag[0] == "x":
            a, i = tag[1:].split(".")
            return ("sleep", 1 + 2 * int(i) + int(a))
        return ("turns", 1)
    r = random.Random(f"{susp}:{tag}")
    k = r.random()
    if k < 0.25:
        return None
    if k < 0.6:
        return ("turns", r.randint(1, 3))
    return ("sleep", r.randint(1, 9))


async def _pause(plan):
    if plan is None:
        return
    if plan[0] == "turns":
        for _ in range(plan[1]):
            await asyncio.sleep(0)
    else:
        await asyncio.sleep(plan[1] / 1000)


async def _cancel_point(hooks):
    """a start-up callback marked 3 (xcancel): tell the driver it is running and stay suspended long enough for the
    cancellation of the task that awaits runner.setup() to arrive; whatever resumes afterwards goes on normally"""
    if hooks is not None:
        hooks["reached"].set()
    await asyncio.sleep(0.005)


def has_xcancel(table):
    return any(c[1] == 3 for d in table for c in d["ctxs"]) or any(sl[0] == "h" and sl[2] == 3 for d in table for sl in d["su"])


async def _await_or_cancel_at_point(coro, hooks, serve_wait=None):
    """run `coro` as a task; cancel it as soon as an xcancel callback reports that it is suspended (or, for _run_app,
    after `serve_wait` virtual seconds of serving); -> the exception that left it, or None"""
    loop = asyncio.get_running_loop()
    t = loop.create_task(coro)
    reached = loop.create_task(hooks["reached"].wait())
    timer = loop.create_task(asyncio.sleep(serve_wait)) if serve_wait is not None else None
    await asyncio.wait([x for x in (t, reached, timer) if x is not None], return_when=asyncio.FIRST_COMPLETED)
    if not t.done():
        t.cancel()
    for x in (reached, timer):
        if x is not None and not x.done():
            x.cancel()
    try:
        await t
        return None
    except BaseException as e:  # noqa
        return e


def build_app(table, log, susp=0, hooks=None):
    """the real Application tree of a table; every user callback logs its begin, suspends as `pause_plan` says,
    logs its end (teardowns and handlers also when they raise) and returns / raises"""
    from aiohttp import web
    from contextlib import AbstractAsyncContextManager
    apps = [None] * len(table)

    def make_ctx(a, i, kind, fe, fx):
        async def enter():
            log.append(f"n{a}.{i}")
            if fe == 3:
                await _cancel_point(hooks)
            await _pause(pause_plan(susp, f"n{a}.{i}"))
            _raise(fe, f"n{a}.{i}")
            log.append(f"N{a}.{i}")

        async def leave():
            log.append(f"x{a}.{i}")
            await _pause(pause_plan(susp, f"x{a}.{i}"))
            log.append(f"X{a}.{i}")
            _raise(fx, f"x{a}.{i}")

        async def gen(app):
            await enter()
            yield
            await leave()
        if kind == "gen":
            return gen
        if kind == "acm":
            return contextlib.asynccontextmanager(gen)

        class Cm(AbstractAsyncContextManager):
            async def __aenter__(self):
                await enter()

            async def __aexit__(self, *exc):
                await leave()
        return lambda app: Cm()

    def make_handler(prefix, hid, f):
        async def h(app):
            log.append(f"{prefix}{hid}")
            if f == 3:
                await _cancel_point(hooks)
            await _pause(pause_plan(susp, f"{prefix}{hid}"))
            log.append(f"{prefix.upper()}{hid}")
            _raise(f, f"{prefix}{hid}")
        return h

    def mk(a):
        d = table[a]
        app = web.Application()
        apps[a] = app
        for i, (kind, fe, fx) in enumerate(d["ctxs"]):
            app.cleanup_ctx.append(make_ctx(a, i, kind, fe, fx))
        # registration order: replay the three slot lists; a sub-application is added when its slot is met in
        # the start-up list, and the handlers of the other two signals that precede it are appended before that
        pos = {"sd": 0, "cl": 0}

        def flush_until_sub(key, sig, prefix, j):
            lst = d[key]
            while pos[key] < len(lst):
                s = lst[pos[key]]
                pos[key] += 1
                if s[0] == "s":
                    assert s[1] == j, "sub-application order differs between signals"
                    return
                sig.append(make_handler(prefix, s[1], s[2]))
            assert j is None, "sub-application missing from a signal"
        for s in d["su"]:
            if s[0] == "h":
                app.on_startup.append(make_handler("u", s[1], s[2]))
            else:
                flush_until_sub("sd", app.on_shutdown, "d", s[1])
                flush_until_sub("cl", app.on_cleanup, "c", s[1])
                app.add_subapp(f"/s{s[1]}", mk(s[1]))
        flush_until_sub("sd", app.on_shutdown, "d", None)
        flush_until_sub("cl", app.on_cleanup, "c", None)
        return app
    return mk(0)


class _BadSock:
    @property
    def family(self):
        raise SiteFail()


HANG_AFTER = 5000.0     # virtual seconds after which a lifecycle call that has not returned counts as hanging


async def run_entry_guarded(entry, table, susp=0):
    """run_entry under a (virtual-time) budget: a life whose setup()/cleanup()/_run_app never returns ends as
    (log so far, ["HANG"]) instead of stalling the whole batch"""
    box = {}
    try:
        return await asyncio.wait_for(run_entry(entry, table, susp, box), HANG_AFTER)
    except asyncio.TimeoutError:
        return list(box.get("log", [])), ["HANG"]


async def run_entry(entry, table, susp=0, box=None):
    """-> (log, [canonical outcome…]) of one life of the real application; the log is read after the loop has run on
    for 100 more virtual seconds (whatever was left running by the life has finished by then)"""
    from aiohttp import web
    log = []
    if box is not None:
        box["log"] = log
    hooks = {"reached": asyncio.Event()}
    app = build_app(table, log, susp, hooks)
    kind, arg = entry.split(":")
    res = []
    if kind == "r":
        runner = web.AppRunner(app)
        for op in arg:
            if op == "S":
                e = await _await_or_cancel_at_point(runner.setup(), hooks)
            else:
                try:
                    await runner.cleanup()
                    e = None
                except BaseException as exc:  # noqa
                    e = exc
            res.append(canon_exc(e))
    else:
        socks = [_BadSock()] if arg == "1" else []
        # cancelled while serving (what run_app does on SIGINT / SIGTERM) — or already while an xcancel callback starts
        e = await _await_or_cancel_at_point(web._run_app(app, sock=socks, print=None), hooks, serve_wait=50.0)
        res.append(canon_exc(e))
    await asyncio.sleep(100.0)
    return log, res


def run_real_run_app(table, susp=0):
    """web.run_app itself on a virtual-time loop, stopped by GracefulExit after 1 s"""
    from aiohttp import web
    from aiohttp.web_runner import GracefulExit
    log = []
    app = build_app(table, log, susp)
    loop = vloop.VLoop()        # stops (instead of blocking in select for ever) when nothing can happen any more

    def stop():
        raise GracefulExit()
    loop.call_later(50.0, stop)
    try:
        web.run_app(app, sock=[], print=None, loop=loop, handle_signals=False)
        res = "cancelled"      # run_app swallows the cancellation it caused itself
        if loop.quiescent:
            res = "HANG"
    except BaseException as e:  # noqa
        res = "HANG" if loop.quiescent else canon_exc(e)
    finally:
        asyncio.set_event_loop(None)
        if not loop.is_closed():
            loop.close()
    return log, [res]


# ------------------------------------------------------------------------------------ direct oracle
def _parents(table):
    par = {}
    for a, d in enumerate(table):
        for sl in d["su"]:
            if sl[0] == "s":
                par[sl[1]] = a
    return par


def _path(par, a):
    """[root, …, a]"""
    out = [a]
    while out[-1] in par:
        out.append(par[out[-1]])
    return out[::-1]


def app_relation(table, r, a):
    """how application r stands to application a in the tree: ("same",) | ("ancestor", child of r towards a) |
    ("descendant",) | ("earlier-sibling" / "later-sibling",) by the order in which add_subapp registered the two branches"""
    par = _parents(table)
    pr, pa = _path(par, r), _path(par, a)
    if r == a:
        return ("same",)
    k = 0
    while k < len(pr) and k < len(pa) and pr[k] == pa[k]:
        k += 1
    if k == len(pr):
        return ("ancestor", pa[k])
    if k == len(pa):
        return ("descendant",)
    subs = [sl[1] for sl in table[pr[k - 1]]["su"] if sl[0] == "s"]
    return ("earlier-sibling",) if subs.index(pr[k]) < subs.index(pa[k]) else ("later-sibling",)


def raiser_vs_skipped(table, raiser, a):
    """signature tail `<what raised>/<whose contexts were skipped>` for a cleanup step `raiser` (x<app>.<i> or c<id>)
    that raised in a life in which a started context of application `a` was never cleaned"""
    if raiser[0] == "x":
        what, r, pos = "ctx-exit", int(raiser[1:].split(".")[0]), None
    else:
        what = "on_cleanup-handler"
        r, pos = next((k, n) for k, d in enumerate(table) for n, sl in enumerate(d["cl"]) if sl[0] == "h" and sl[1] == int(raiser[1:]))
    rel = app_relation(table, r, a)
    if rel[0] == "same":
        whose = "own-app-contexts"
    elif rel[0] == "ancestor":
        whose = "subapp-contexts"
        if pos is not None:   # handler registered before or after the add_subapp() leading to `a`
            sub_pos = next(n for n, sl in enumerate(table[r]["cl"]) if sl[0] == "s" and sl[1] == rel[1])
            whose += "-registered-later" if pos < sub_pos else "-registered-earlier"
    elif rel[0] == "descendant":
        whose = "parent-app-contexts"
    elif rel[0] == "earlier-sibling":
        whose = "later-sibling-app-contexts"
    else:
        whose = "earlier-sibling-app-contexts"
    return f"{what}/{whose}-skipped"


def oracle_life(ctx, case, log, res):
    """the property on the implementation's own event log: cleanup code of a context runs exactly once iff its
    start-up code completed, in reverse order of start-up.  Judged only for lives in which cleanup was requested."""
    entry = case["entry"]
    kind, arg = entry.split(":")
    if "HANG" in res:
        ctx.violation("C20/lifecycle-call-never-returns", case,
                      f"setup()/cleanup()/_run_app did not return within {HANG_AFTER:.0f} virtual seconds; log so far={log}")
        return
    if kind == "r" and arg != "SC":
        return
    entered = [e[1:] for e in log if e[0] == "N"]
    exits = [e[1:] for e in log if e[0] == "x"]
    cnt = Counter(exits)
    table = case["table"]
    everyone = [f"{a}.{i}" for a, d in enumerate(table) for i in range(len(d["ctxs"]))]
    # which user callbacks that actually ran were told to raise (read off the log and the input table)
    failed = [e for e in log if e[0] in "nudxc" and origin_fail(table, e)]
    setup_failed = any(e[0] in "nu" for e in failed)
    shutdown_failed = any(e[0] == "d" for e in failed)
    cleanup_failed = any(e[0] in "xc" for e in failed)
    for c in everyone:
        if cnt[c] > 1:
            ctx.violation("C20/cleanup-ran-twice", case, f"context {c}: cleanup code ran {cnt[c]} times; log={log}")
        if cnt[c] >= 1 and c not in entered:
            ctx.violation("C20/cleanup-without-completed-startup", case,
                          f"context {c}: cleanup code ran although its start-up code did not complete; log={log}")
        if cnt[c] == 0 and c in entered:
            a_, i_ = (int(v) for v in c.split("."))
            if table[a_]["ctxs"][i_][1] == 3:
                # its start-up was interrupted by the cancellation of setup() and nevertheless completed later
                sig = "C20/setup-cancelled/context-finished-startup-after-cancellation-never-cleaned"
            elif kind == "a" and setup_failed:
                sig = "C20/run_app/setup-outside-try"
            elif shutdown_failed:
                sig = "C20/on_shutdown-raises/cleanup-skipped"
            elif setup_failed and not c.startswith("0."):
                sig = "C20/startup-failed/subapp-contexts-not-cleaned"
            elif any(e[0] == "x" and e[1:].split(".")[0] == c.split(".")[0] for e in failed):
                # a failing cleanup code must not stop the other contexts of the same application
                sig = "C20/exit-raises/other-contexts-of-same-app-not-cleaned"
            elif cleanup_failed:
                # name the step that raised and whose contexts were skipped (structural, from the input table)
                sig = "C20/cleanup-step-raises/" + raiser_vs_skipped(table, [e for e in failed if e[0] in "xc"][-1], int(c.split(".")[0]))
            else:
                sig = "C20/context-not-cleaned"
            ctx.violation(sig, case, f"context {c}: start-up completed but its cleanup code never ran "
                                     f"(entry {entry}, outcome {res}); log={log}")
    # teardowns are sequential: the cleanup code of a context begins only after the cleanup code of every context that
    # began its teardown before it is over ("reverse order" is about whole teardowns, not about their first statement)
    open_ = []
    for e in log:
        if e[0] == "x":
            if open_:
                q, p = open_[-1], e[1:]
                started_before = p in entered and q in entered and entered.index(p) < entered.index(q)
                ctx.violation("C20/order/teardown-begins-before-later-started-context-finished" if started_before
                              else "C20/order/teardowns-overlap", case,
                              f"cleanup code of context {p} began while the cleanup code of context {q} was still running; log={log}")
                break
            open_.append(e[1:])
        elif e[0] == "X" and e[1:] in open_:
            open_.remove(e[1:])
    else:
        if open_:
            ctx.violation("C20/teardown-not-finished", case, f"cleanup code of {open_} began but never ended; log={log}")
    # reverse order of start-up, among the contexts that were cleaned
    order = {c: k for k, c in enumerate(entered)}
    seq = [c for c in exits if c in order]
    for p, q in zip(seq, seq[1:]):
        if order[p] < order[q]:
            ap, aq = int(p.split(".")[0]), int(q.split(".")[0])
            rel = app_relation(table, ap, aq)[0]
            sig = {"same": "C20/order/not-reverse-within-app", "ancestor": "C20/order/parent-app-exits-before-subapp",
                   "descendant": "C20/order/subapp-started-before-parent", "earlier-sibling": "C20/order/earlier-sibling-app-exits-before-later",
                   "later-sibling": "C20/order/later-sibling-started-before-earlier"}[rel]
            ctx.violation(sig, case,
                          f"context {p} (started before {q}) is cleaned before it; started={entered} cleaned={exits}")
            break


# ------------------------------------------------------------------------------------ generators
KINDS = ["gen", "acm", "cls"]


def app_row(ctxs=(), su=(), sd=(), cl=()):
    return {"ctxs": [list(c) for c in ctxs], "su": [list(s) for s in su], "sd": [list(s) for s in sd], "cl": [list(s) for s in cl]}


def seed_cases():
    """hand-made minimal lives (run first, in this order, so that replays of findings are small)"""
    g = "gen"
    three = [(g, 0, 0), (g, 1, 0), (g, 0, 0)]
    out = []
    for entry in ("r:SC", "a:0", "a:1", "R:0"):
        out.append((entry, [app_row(ctxs=[(g, 0, 0), (g, 0, 0)])]))
        out.append((entry, [app_row(ctxs=three)]))                                            # F16
        out.append((entry, [app_row(ctxs=[(g, 0, 1), (g, 0, 0), (g, 0, 2)])]))
        out.append((entry, [app_row(ctxs=[(g, 0, 0)], su=[("h", 1, 1)])]))
        out.append((entry, [app_row(ctxs=[(g, 0, 0)], sd=[("h", 1, 1)])]))                   # on_shutdown raises
        out.append((entry, [app_row(ctxs=[(g, 0, 0)], cl=[("h", 1, 1)])]))
        out.append((entry, [app_row(ctxs=[(g, 0, 0)], su=[("s", 1)], sd=[("s", 1)], cl=[("s", 1)]),
                            app_row(ctxs=[(g, 0, 0)])]))                                      # order across apps
        out.append((entry, [app_row(ctxs=[(g, 0, 0)], su=[("s", 1), ("h", 1, 1)], sd=[("s", 1)], cl=[("s", 1)]),
                            app_row(ctxs=[(g, 0, 0)])]))                                      # sub ctx + later start-up failure
        out.append((entry, [app_row(ctxs=[(g, 0, 1)], su=[("s", 1)], sd=[("s", 1)], cl=[("s", 1)]),
                            app_row(ctxs=[(g, 0, 0)])]))                                      # root exit error skips sub
        out.append((entry, [app_row(su=[("s", 1)], sd=[("s", 1)], cl=[("s", 1)]),
                            app_row(ctxs=[(g, 0, 0), (g, 1, 0)])]))
        # one raising cleanup step at every position relative to a context that must still be cleaned
        one, sub3 = [(g, 0, 0)], [("s", 1)]
        two = [("s", 1), ("s", 2)]
        out.append((entry, [app_row(ctxs=one, su=sub3, sd=sub3, cl=[("h", 1, 1), ("s", 1)]), app_row(ctxs=one)]))   # handler before sub
        out.append((entry, [app_row(ctxs=one, su=sub3, sd=sub3, cl=[("s", 1), ("h", 1, 1)]), app_row(ctxs=one)]))   # handler after sub
        out.append((entry, [app_row(ctxs=one, su=sub3, sd=sub3, cl=sub3), app_row(ctxs=one, cl=[("h", 1, 1)])]))    # sub's handler
        out.append((entry, [app_row(ctxs=one, su=sub3, sd=sub3, cl=sub3), app_row(ctxs=[(g, 0, 1)])]))              # sub's exit
        out.append((entry, [app_row(ctxs=one, su=two, sd=two, cl=two), app_row(ctxs=[(g, 0, 1)]), app_row(ctxs=one)]))           # earlier sibling's exit
        out.append((entry, [app_row(ctxs=one, su=two, sd=two, cl=two), app_row(ctxs=one, cl=[("h", 1, 1)]), app_row(ctxs=one)]))  # earlier sibling's handler
        out.append((entry, [app_row(ctxs=one, su=two, sd=two, cl=two), app_row(ctxs=one), app_row(ctxs=[(g, 0, 1)])]))           # later sibling's exit
        out.append((entry, [app_row(ctxs=one, su=two, sd=two, cl=two), app_row(ctxs=one), app_row(ctxs=one, cl=[("h", 1, 1)])]))  # later sibling's handler
        out.append((entry, [app_row(su=two, sd=two, cl=two), app_row(ctxs=one), app_row(ctxs=one)]))                              # sibling order
    out.append(("r:C", [app_row(ctxs=[(g, 0, 0)])]))
    out.append(("r:S", [app_row(ctxs=[(g, 0, 0), (g, 1, 0)])]))
    out.append(("r:CSC", [app_row(ctxs=[(g, 0, 0), (g, 0, 1)])]))
    return out


def gen_table(rng, p_fail, max_apps=5, max_depth=2):
    table = []
    hid = [0]

    def fail():
        if rng.random() < p_fail:
            return rng.choice([1, 1, 2])
        return 0

    def mk(depth):
        a = len(table)
        d = app_row()
        table.append(d)
        for _ in range(rng.choice([0, 1, 1, 2, 2, 3, 4])):
            d["ctxs"].append([rng.choice(KINDS), fail(), fail()])
        for _ in range(rng.choice([0, 1, 2, 3, 4, 5])):
            r = rng.random()
            if r < 0.3 and depth < max_depth and len(table) < max_apps:
                j = mk(depth + 1)
                for k in ("su", "sd", "cl"):
                    d[k].append(["s", j])
            else:
                hid[0] += 1
                d[rng.choice(["su", "sd", "cl", "su", "cl"])].append(["h", hid[0], fail()])
        return a
    mk(0)
    return table


def single_failures(table):
    """every callback of `table` failing alone, in each way"""
    slots = []
    for a, d in enumerate(table):
        for i in range(len(d["ctxs"])):
            slots += [("ctx", a, i, 1), ("ctx", a, i, 2)]
        for k in ("su", "sd", "cl"):
            for n, s in enumerate(d[k]):
                if s[0] == "h":
                    slots.append((k, a, n, 2))
    import copy
    for kind, a, i, col in slots:
        for f in (1, 2):
            t = copy.deepcopy(table)
            if kind == "ctx":
                t[a]["ctxs"][i][col] = f
            else:
                t[a][kind][i][2] = f
            yield t


def single_xcancel(table):
    """the task awaiting setup cancelled while each start-up callback of `table`, in turn, is suspended"""
    import copy
    for a, d in enumerate(table):
        for i in range(len(d["ctxs"])):
            t = copy.deepcopy(table); t[a]["ctxs"][i][1] = 3
            yield t
        for n, sl in enumerate(d["su"]):
            if sl[0] == "h":
                t = copy.deepcopy(table); t[a]["su"][n][2] = 3
                yield t


def shape(n_root, n_sub, handlers=True):
    """root with n_root contexts (+ one sub-application with n_sub contexts when n_sub is not None)"""
    g = itertools.cycle(KINDS)
    root = app_row(ctxs=[(next(g), 0, 0) for _ in range(n_root)])
    tbl = [root]
    hid = itertools.count(1)
    if handlers:
        for k in ("su", "sd", "cl"):
            root[k].append(["h", next(hid), 0])
    if n_sub is not None:
        for k in ("su", "sd", "cl"):
            root[k].append(["s", 1])
        sub = app_row(ctxs=[(next(g), 0, 0) for _ in range(n_sub)])
        tbl.append(sub)
        if handlers:
            for k in ("su", "sd", "cl"):
                root[k].append(["h", next(hid), 0])
                sub[k].append(["h", next(hid), 0])
    return tbl


def shape_tree():
    """root(2 contexts) -> sub 1 (1 context) -> sub 3 (1 context), root -> sub 2 (1 context); in every application a
    user handler on every signal before and after each add_subapp"""
    hid = itertools.count(1)

    def row(n, subs):
        d = app_row(ctxs=[(KINDS[(n + k) % 3], 0, 0) for k in range(n)])
        for k in ("su", "sd", "cl"):
            d[k].append(["h", next(hid), 0])
        for j in subs:
            for k in ("su", "sd", "cl"):
                d[k].append(["s", j])
                d[k].append(["h", next(hid), 0])
        return d
    return [row(2, [1, 2]), row(1, [3]), row(1, []), row(1, [])]


def all_small(max_n):
    """every assignment of enter in {ok, exc} x exit in {ok, exc, cancel} to n <= max_n contexts of one application"""
    for n in range(0, max_n + 1):
        for assign in itertools.product(itertools.product((0, 1), (0, 1, 2)), repeat=n):
            yield [app_row(ctxs=[(KINDS[i % 3], e, x) for i, (e, x) in enumerate(assign)])]


def all_small_tree():
    """root (2 contexts) + sub (2 contexts), one handler per signal in root: every subset of failing callbacks"""
    base = shape(2, 2, handlers=False)
    for k in ("su", "sd", "cl"):
        base[0][k].insert(0, ["h", {"su": 1, "sd": 2, "cl": 3}[k], 0])
    import copy
    cells = [(0, 0, 1), (0, 0, 2), (0, 1, 1), (0, 1, 2), (1, 0, 1), (1, 0, 2), (1, 1, 1), (1, 1, 2)]
    for bits in itertools.product((0, 1), repeat=len(cells) + 3):
        t = copy.deepcopy(base)
        for (a, i, col), b in zip(cells, bits):
            t[a]["ctxs"][i][col] = b
        for k, b in zip(("su", "sd", "cl"), bits[len(cells):]):
            t[0][k][0][2] = b
        yield t


ENTRIES = ["r:SC", "a:0", "a:1"]


def origin_fail(table, origin):
    """the Fail kind of the callback named by an origin tag (n<a>.<i> x<a>.<i> u<id> d<id> c<id>)"""
    if origin[0] in "nx":
        a, i = origin[1:].split(".")
        return table[int(a)]["ctxs"][int(i)][1 if origin[0] == "n" else 2]
    key = {"u": "su", "d": "sd", "c": "cl"}[origin[0]]
    for d in table:
        for sl in d[key]:
            if sl[0] == "h" and sl[1] == int(origin[1:]):
                return sl[2]
    return None


def check_life(ctx):
    rng = ctx.rng
    seeds = list(seed_cases())
    cases = [(e, t, 0) for e, t in seeds] + [(e, t, 2) for e, t in seeds]
    # teardowns that take time (virtual ms, growing with the start-up position and the other way round), no failure
    for tbl in (shape(4, None, handlers=False), shape(3, 2), shape_tree()):
        for e in ("r:SC", "a:0", "R:0"):
            for sp in (1, 2, 3, 4, 5):
                cases.append((e, tbl, sp))
    # setup cancelled from outside while each start-up callback is suspended (log read after the loop ran on)
    for tbl in (shape(3, None, handlers=False), shape(3, None), shape(2, 2), shape_tree()):
        for t in single_xcancel(tbl):
            for e in ("r:SC", "a:0"):
                for sp in (0, 2):
                    cases.append((e, t, sp))
    # every single failing position of a few fixed shapes, through every entry
    for tbl in (shape(4, None), shape(3, 2), shape(2, 3), shape_tree()):
        for t in single_failures(tbl):
            for e in ENTRIES:
                cases.append((e, t, 2))
    n_rand = 3000 if ctx.quick else 25000
    for k in range(n_rand):
        t = gen_table(rng, rng.choice([0.0, 0.08, 0.15, 0.3]))
        r = rng.random()
        e = "r:SC" if r < 0.45 else "a:0" if r < 0.75 else "a:1" if r < 0.87 else rng.choice(["r:S", "r:C", "r:CSC", "r:CS"]) if r < 0.93 else "R:0"
        if e != "R:0" and rng.random() < 0.12:
            xs = list(single_xcancel(t))
            if xs:
                t = rng.choice(xs)
        cases.append((e, t, rng.choice([0, 1, 2, 3 + rng.randrange(1000), 3 + rng.randrange(1000)])))
    small = [(e, t, 3 + k % 7) for k, t in enumerate(all_small(3)) for e in ("r:SC", "a:0")]
    tree = [(e, t, k % 3) for k, t in enumerate(all_small_tree()) for e in ("r:SC", "a:0")]
    if ctx.quick:
        cases += rng.sample(small, 200) + rng.sample(tree, 300)
    else:
        cases += small + tree
        ctx.extra["exhaustive_lifecycle"] = ("all enter{ok,exc} x exit{ok,exc,cancel} assignments for one application with <= 3 contexts; "
                                             "all subsets of failing callbacks for root(2 contexts)+sub(2 contexts)+one handler per signal; both entries")

    def model_entry(e):
        return "a:0" if e == "R:0" else e

    async def main():
        out = []
        for e, t, sp in cases:
            out.append(None if e == "R:0" else await run_entry_guarded(e, t, sp))
        return out
    res, excs, q = vloop.run(main)
    if res is None:
        raise RuntimeError("lifecycle batch did not finish (quiescent)")
    for i, (e, t, sp) in enumerate(cases):
        if e == "R:0":
            res[i] = run_real_run_app(t, sp)
    outs = ctx.model([table_line(model_entry(e), t) for e, t, sp in cases])
    for i, ((e, t, sp), (log, r)) in enumerate(zip(cases, res)):
        case = {"kind": "life", "entry": model_entry(e), "via": "run_app" if e == "R:0" else "direct", "table": t, "susp": sp}
        ctx.hit("life:susp=" + (str(sp) if sp < 3 else "drawn"))
        canon = f"log={','.join(log) or '-'} res={';'.join(r)} wf=1"
        if e == "R:0" and outs is not None and r == ["cancelled"]:
            # web.run_app (not modelled) swallows a CancelledError leaving _run_app after it cancelled the task itself
            m = re.fullmatch(r"(log=\S+ res=)E:(\S+)( wf=1)", outs[i])
            if m and origin_fail(t, m.group(2)) == 2:
                outs[i] = m.group(1) + "cancelled" + m.group(3)
        nctx = sum(len(d["ctxs"]) for d in t)
        ctx.case(("life", e, t, sp), nontrivial=nctx > 0, sample={"life": table_line(e, t), "impl": canon[:160]} if i % 397 == 0 else None)
        ctx.hit("life:entry=" + e)
        ctx.hit("life:apps=%d" % len(t))
        ctx.hit("life:outcome=" + ";".join(x.split(":")[0] + (":" + x.split(":")[1][0] if ":" in x else "") for x in r))
        oracle_life(ctx, case, log, r)
        if outs is not None:
            ctx.compare(case, canon, outs[i], "lifecycle vs Aio.C20.runRunner/runApp")


def replay_life(ctx, case):
    e, t, sp = case["entry"], case["table"], case.get("susp", 0)
    if case.get("via") == "run_app":
        log, r = run_real_run_app(t, sp)
    else:
        (log, r), excs, q = vloop.run(lambda: run_entry_guarded(e, t, sp))
    oracle_life(ctx, case, log, r)


def check(ctx):
    check_life(ctx)
    check_drain(ctx)


def replay(ctx, case):
    if case.get("kind") == "life":
        replay_life(ctx, case)
    elif case.get("kind") == "drain":
        replay_drain(ctx, case)
