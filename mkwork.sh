#!/bin/sh
# usage: ./mkwork.sh <name>   → /work/<name>/{verif,repo} private worktrees for a builder
set -e
n="$1"; mkdir -p /work/$n
git -C /verif worktree add -q -b "$n" /work/$n/verif HEAD
git -C /repo worktree add -q --detach /work/$n/repo HEAD
echo /work/$n
