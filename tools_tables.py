#!/usr/bin/env python3
"""Regenerates FINDINGS.md (from known_findings.json) and SEEDED.md (from seeded/*/meta.json)."""
import json, os, glob
H = os.path.dirname(os.path.abspath(__file__))
F = json.load(open(os.path.join(H, "known_findings.json")))["findings"]
out = ["# Findings on the unchanged tree (generated from known_findings.json by tools_tables.py)\n",
       "`fixed` = repaired in /repo by the named `fix:` commit; the stored case is replayed on every run of the property's check and a",
       "regression is a VIOLATION. `known` = genuine deviation recorded but not repaired; the check prints a KNOWN-FINDING line for it.\n",
       "| property | id | status | commit | signature | what fails |", "|---|---|---|---|---|---|"]
for e in sorted(F, key=lambda e: (e["property"], e["status"], e["id"])):
    out.append(f"| {e['property']} | {e['id']} | {e['status']} | {e.get('commit','')} | `{e['signature']}` | {e['what'].replace('|','/')[:260]} |")
n_fixed = sum(1 for e in F if e["status"] == "fixed"); n_known = len(F) - n_fixed
out.append(f"\n{n_fixed} fixed, {n_known} known.")
open(os.path.join(H, "FINDINGS.md"), "w").write("\n".join(out) + "\n")
rows = []
for p in sorted(glob.glob(os.path.join(H, "seeded", "*", "meta.json"))):
    m = json.load(open(p))
    caught = ", ".join(m.get("caught_by") or []) or "**missed**"
    how = []
    for c, v in (m.get("checks") or {}).items():
        for l in v.get("lines", [])[:1]:
            how.append(("no-failing-input-found" if "no-failing-input-found" in l else l.split("replay=")[-1].split("/")[-1].replace(".json", "")))
    rows.append(f"| {m['seed']} | {m['property']} | {(m.get('summary') or '')[:200].replace('|','/')} | {(m.get('needs_to_manifest') or '')[:160].replace('|','/')} | {'yes' if m.get('confirmed_breaks_property_demo') else 'NO'} | {caught} | {'; '.join(how)[:120]} |")
open(os.path.join(H, "SEEDED.md"), "w").write(
    "# Seeded changes (generated from seeded/*/meta.json by tools_tables.py)\n\n"
    "Each was written by a fresh sub-agent that saw only the property text and a scratch worktree; `demo` = its demonstration fails with the patch and "
    "passes without (re-confirmed by tools_seed.py); `caught by` = checks that exit 1 with the patch applied (via VERIF_REPO on a scratch worktree).\n\n"
    "| seed | property | change | needs | demo | caught by | replay / verdict |\n|---|---|---|---|---|---|---|\n" + "\n".join(rows) + "\n")
print(len(F), "findings;", len(rows), "seeds")
