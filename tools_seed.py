#!/usr/bin/env python3
"""Evaluate one seeded change: tools_seed.py <dir with patch.diff, demo.py, meta.json> <seed-id> [checks...]
Applies the patch to a scratch worktree of /repo HEAD, confirms the demo fails with it and passes
without it, runs the given checks (default: the property's own) against the patched tree via
VERIF_REPO, and writes /verif/seeded/<seed-id>/{patch.diff,demo.py,meta.json}."""
import json, os, shutil, subprocess, sys, time
HERE = os.path.dirname(os.path.abspath(__file__))
src, sid = os.path.abspath(sys.argv[1]), sys.argv[2]
meta = json.load(open(os.path.join(src, "meta.json")))
prop = meta["property"]
checks = sys.argv[3:] or [prop]
wt = f"/tmp/seedeval-{os.getpid()}"
subprocess.run(["git", "-C", "/repo", "worktree", "add", "-q", "--detach", wt, "HEAD"], check=True)
res = {"seed": sid, "property": prop, "summary": meta.get("summary"), "needs_to_manifest": meta.get("needs_to_manifest"),
       "files_touched": meta.get("files_touched"), "author_tests": meta.get("test_result") or meta.get("author_tests")}
env = dict(os.environ, PYTHONPATH=wt, AIOHTTP_NO_EXTENSIONS="1", REPO=wt)
def demo():
    r = subprocess.run(["/venv/bin/python", os.path.join(src, "demo.py"), wt], env=env, capture_output=True, text=True, timeout=180)
    return r.returncode, (r.stdout + r.stderr)[-400:]
try:
    res["demo_unpatched_rc"], _ = demo()
    a = subprocess.run(["git", "-C", wt, "apply", os.path.join(src, "patch.diff")], capture_output=True, text=True)
    res["applies"] = a.returncode == 0
    if a.returncode == 0:
        res["demo_patched_rc"], res["demo_patched_out"] = demo()
        if "--tests" in os.environ.get("SEED_OPTS", ""):
            t = subprocess.run(["/venv/bin/python", "-m", "pytest", "-q", "-p", "no:cacheprovider", "--timeout=900", "-x", "-q"], cwd=wt, capture_output=True, text=True)
            res["suite_tail"] = t.stdout[-300:]
        res["checks"] = {}
        for c in checks:
            t0 = time.time()
            r = subprocess.run([os.path.join(HERE, "check"), c], env=dict(os.environ, VERIF_REPO=wt), capture_output=True, text=True, cwd=HERE)
            lines = [l for l in r.stdout.splitlines() if l.startswith("VIOLATION") or l.startswith("MACHINERY")]
            res["checks"][c] = {"rc": r.returncode, "lines": lines[:6], "s": round(time.time() - t0, 1)}
finally:
    subprocess.run(["git", "-C", "/repo", "worktree", "remove", "--force", wt])
    # generated tables were rewritten from the patched tree: restore them from the real repo
    for c in checks:
        subprocess.run([os.path.join(HERE, "check"), c], capture_output=True, cwd=HERE)
confirmed = res.get("demo_unpatched_rc") == 0 and res.get("demo_patched_rc") not in (0, None)
res["confirmed_breaks_property_demo"] = confirmed
res["caught_by"] = [c for c, v in res.get("checks", {}).items() if v["rc"] == 1]
d = os.path.join(HERE, "seeded", sid)
os.makedirs(d, exist_ok=True)
for f in ("patch.diff", "demo.py"):
    if os.path.abspath(os.path.join(src, f)) != os.path.abspath(os.path.join(d, f)):
        shutil.copy(os.path.join(src, f), os.path.join(d, f))
json.dump(res, open(os.path.join(d, "meta.json"), "w"), indent=1)
print(json.dumps({k: res[k] for k in ("seed", "confirmed_breaks_property_demo", "caught_by")}), {c: v["lines"][:2] for c, v in res.get("checks", {}).items()})
