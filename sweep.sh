#!/bin/sh
# all claimed checks × several seeds on the unchanged tree; prints every run that is not exit 0
seeds=${SEEDS:-"1 2 3 4 5"}
(cd lean && lake build AioModel AioProps Driver aiodriver >/dev/null 2>&1)
for p in $(python3 -c "import json;print(' '.join(c['property_id'] for c in json.load(open('MANIFEST.json'))['checks']))"); do
  for s in $seeds; do
    out=$(VERIF_SEED=$s ./check $p 2>/dev/null); rc=$?
    if [ $rc -ne 0 ]; then echo "ALARM $p seed=$s rc=$rc"; echo "$out" | grep -v "^KNOWN" | tail -4; fi
  done
  echo "done $p"
done
