#!/usr/bin/env python3
"""Maintenance helper (never used at check run time): turn replay files written by a check into
`known` entries of known_findings.json after the coordinator has classified them.
usage: tools_findings.py adopt <Cnn> [signature-substring ...]"""
import json, sys, glob, os
HERE = os.path.dirname(os.path.abspath(__file__))
doc = json.load(open(os.path.join(HERE, "known_findings.json")))
F = doc["findings"]
prop = sys.argv[2]
subs = sys.argv[3:]
have = {(e["property"], e["signature"]) for e in F}
n = sum(1 for e in F if e["property"] == prop)
for p in sorted(glob.glob(os.path.join(HERE, "replays", prop + "-*.json"))):
    d = json.load(open(p))
    if "signature" not in d or (prop, d["signature"]) in have:
        continue
    if subs and not any(s in d["signature"] for s in subs):
        continue
    n += 1
    F.append({"property": prop, "id": f"{prop}-K{n}", "status": "known", "signature": d["signature"],
              "what": d["detail"][:300], "case": d["case"]})
    print("adopted", d["signature"])
json.dump(doc, open(os.path.join(HERE, "known_findings.json"), "w"), indent=1)
