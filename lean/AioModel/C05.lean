import AioModel.Basic
import AioModel.Generated.C05
/-!
# C05 model — one server connection (`aiohttp/web_protocol.py:RequestHandler`)

A state machine on the FIFO event-loop abstraction of DESIGN §4.3.  Labels are the only
nondeterminism: `data n` (the transport calls `data_received` with `n` bytes), `lost`
(the peer disconnects), `tick` (run the callback at the head of the ready queue),
`fire t` (nothing ready: let virtual time pass up to `t`, at most to the earliest timer).

Transcribed (Python → Lean):

* `RequestHandler.data_received`                → `dataReceived`
* `_pause_msg_queue_reading` / `_resume_msg_queue_reading` → `pauseMsgQ` / `resumeMsgQ`
* `BaseProtocol.resume_reading`                 → `protoResume` (with parser re-entry) / `protoResumeNoParse`
* `StreamReader.feed_data/feed_eof/set_exception` (waiter side) → `payloadEvent`
* `StreamReader.read/readany/_read_nowait`      → the `.read` case of `runProg`, the `.linger` continuation, `drainChunks`
* `RequestHandler.start` (loop phases)          → `startRun` with continuations `SCont`
* `_handle_request` + `Application._handle` (pre-handler error → 400, `Expect`) → `handlerStart`
* the handler itself (an oracle: a program of `HOp`s)   → `runProg`
* `finish_response` (declined-upgrade re-parse, prepare, write_eof) → `reparseTail`, `finishFresh`, `finishDone`
* `handle_error` (500/504, "response is sent already" → ConnectionError) → `handleError`
* `connection_lost`, `force_close`, `close`     → `connectionLost`, `forceClose`, `closeConn`
* `_process_keepalive`                          → `processKeepalive`
* `HttpParser._msg_in_flight` / `message_consumed` → `inFlight`, `consumeSlot`, `POut.respectsCap`
* `BaseRequest.__init__` raising on a lazily validated URL → `MsgInfo.badUrl`

The HTTP parser itself (`HttpParser.feed_data`) is **not** re-modelled here (that is
`AioModel.Http`): every call the connection makes to it consumes one recorded output `POut`
from `St.oracle` (messages with the attributes the server layer looks at, events on
payload streams, raised / upgraded / tail).  Theorems quantify over *all* oracles, i.e. hold
for any parser behaviour; the pipelining cap is the parser contract `POut.respectsCap`.

Not modelled: write-side back-pressure (`pause_writing`), the reader's high-water pause
(`BaseProtocol.pause_reading`; bodies stay below `read_bufsize`), WebSocket take-over
(`set_parser`), `shutdown()`, access logging.
-/
namespace Aio.C05
open Aio

/-! ## parser oracle -/

structure MsgInfo where
  hasPayload : Bool := false
  shouldClose : Bool := false
  v11 : Bool := true          -- version == HTTP/1.1
  vge11 : Bool := true        -- version >= HTTP/1.1
  noStream : Bool := false    -- HEAD / CONNECT: the test handler does not stream a body
  expect : Nat := 0           -- 0 no Expect header, 1 `100-continue`, 2 anything else, 3 anything else that is not UTF-8 encodable
  chunks : Nat := 0           -- StreamReader.feed_data calls on the new payload within the same parser call
  eof : Bool := false
  exc : Bool := false
  badUrl : Bool := false      -- `BaseRequest.__init__` raises ValueError on the lazily validated URL
deriving Repr, Inhabited, DecidableEq

/-- events of one parser call on the payload of a message queued by an earlier call -/
structure OldEv where
  idx : Nat
  chunks : Nat
  eof : Bool
  exc : Bool
deriving Repr, DecidableEq

/-- everything one `HttpParser.feed_data` call did, as far as the connection can observe -/
structure POut where
  olds : List OldEv := []
  msgs : List MsgInfo := []
  raised : Bool := false      -- HttpProcessingError left feed_data (messages of this call are lost)
  lost : Nat := 0             -- `_msg_in_flight` increments of the messages lost by the raise
  upgraded : Bool := false
  tailLen : Nat := 0
deriving Repr, Inhabited

/-! ## handler programs (the handler is an oracle) -/

inductive Fin where
  | ok      -- return the response (write_eof of the stream if one was prepared)
  | fc      -- return a Response with force_close()
  | e403    -- raise HTTPForbidden
  | ex      -- raise RuntimeError
  | et      -- raise asyncio.TimeoutError
  | ec      -- raise asyncio.CancelledError
  | none    -- return None
deriving Repr, DecidableEq

inductive HOp where
  | sleep (ms : Nat)
  | read               -- await request.read()
  | prepare (chunk : Bool)   -- StreamResponse().prepare(request) [+ write(chunk)]: the head is on the wire either way
  | write              -- stream.write(chunk)
  | fin (f : Fin)
deriving Repr, DecidableEq

abbrev Prog := List HOp

/-! ## state -/

structure Cfg where
  keepaliveMs : Nat := 75000
  lingerMs : Nat := 10000
  maxQ : Nat := Gen.C05.maxMsgQueueSize
  resumeQ : Nat := Gen.C05.msgQueueResumeSize
  readBuf : Nat := Gen.C05.readBufsize
  /-- time units per second (the harness uses 1024 so that the code's float arithmetic is exact) -/
  ups : Nat := 1024
  /-- the transport supports `pause_reading()` -/
  canPause : Bool := true
deriving Repr

inductive Waiter | none | pending | resolved | cancelled
deriving Repr, DecidableEq

inductive PWaiter | none | handler | start
deriving Repr, DecidableEq

/-- a request body stream (`StreamReader`; `empty` = `EMPTY_PAYLOAD`) -/
structure Payload where
  empty : Bool := true
  chunks : Nat := 0
  eof : Bool := true
  exc : Bool := false
  waiter : PWaiter := .none
  /-- the parked reader's future was completed *with the exception* (`set_exception` found a waiter) -/
  wakeExc : Bool := false
deriving Repr, DecidableEq

structure QMsg where
  idx : Nat
  err : Bool                 -- `_ErrInfo` entry
  info : MsgInfo
deriving Repr, DecidableEq

/-- what the wire saw, tagged with the index of the request being answered -/
inductive WEv where
  | interim (i : Nat)                                 -- `100 Continue`
  | hdr (i : Nat) (status : Nat) (closeDelim : Bool)  -- a status line + header block
  | chunk (i : Nat)
  | eof (i : Nat)
deriving Repr, DecidableEq

/-- result of the per-request task (`_handle_request`) -/
inductive HRes where
  | resp (keepAlive : Bool) (reset : Bool)
  | connErr        -- ConnectionError left `_handle_request`
  | cancelled      -- CancelledError left `_handle_request`
  | crashed        -- another exception left `_handle_request` (building the error response itself failed)
deriving Repr, DecidableEq

inductive HPc where
  | idle
  | sleeping (rest : Prog)
  | reading (rest : Prog)
  | finished (r : HRes)
deriving Repr, DecidableEq

inductive SPc where
  | init | waitMsg | awaitHandler | linger (endT : Nat) | done
deriving Repr, DecidableEq

/-- the request being handled -/
structure Cur where
  idx : Nat
  err : Bool
  info : MsgInfo
  outStarted : Bool := false   -- `writer.output_size > 0`
  streamOpen : Bool := false   -- a StreamResponse was prepared and not finished
  streamKa : Bool := false
deriving Repr, DecidableEq

inductive Cb where
  | startWake | handlerWake | connLost | kaFire | sleepFire | lingerFire
deriving Repr, DecidableEq

structure St where
  cfg : Cfg := {}
  progs : List Prog := []
  oracle : List POut := []
  calls : Nat := 0
  desync : Bool := false
  /-- a recorded parser output broke the pipelining-cap contract (`POut.respectsCap`) -/
  capViolated : Bool := false
  -- RequestHandler
  messages : List QMsg := []
  nextIdx : Nat := 0
  payloads : List Payload := []
  msgQueuePaused : Bool := false
  readingPaused : Bool := false
  waiter : Waiter := .none
  close : Bool := false
  forceClose : Bool := false
  keepalive : Bool := false
  upgraded : Bool := false
  messageTail : Nat := 0
  parserPresent : Bool := true
  managerPresent : Bool := true
  currentRequest : Option Nat := none
  nextKaClose : Nat := 0
  inFlight : Nat := 0
  invocations : Nat := 0
  errPopped : Bool := false
  /-- an exception left the connection task `start()` -/
  taskExc : Bool := false
  -- tasks
  spc : SPc := .init
  hpc : HPc := .idle
  cur : Option Cur := none
  sleepDone : Bool := false
  lingerTimedOut : Bool := false
  -- transport
  tPresent : Bool := true
  tClosing : Bool := false
  tLost : Bool := false
  tPaused : Bool := false
  wire : List WEv := []        -- newest first
  -- loop
  now : Nat := 0
  ready : List Cb := []
  kaTimer : Option (Nat × Nat) := none      -- (when, seq)
  sleepTimer : Option (Nat × Nat) := none
  lingerTimer : Option (Nat × Nat) := none
  seq : Nat := 0
deriving Repr

def getP (s : St) (i : Nat) : Payload := s.payloads.getD i {}
def setP (s : St) (i : Nat) (p : Payload) : St := { s with payloads := s.payloads.set i p }

def pushCb (s : St) (c : Cb) : St := { s with ready := s.ready ++ [c] }

/-- wake whoever is parked on payload `i`; `byExc`: the waiter future gets the exception (no data or
eof reached the stream before it in this parser call) -/
def wakeP (s : St) (i : Nat) (byExc : Bool := false) : St :=
  let p := getP s i
  match p.waiter with
  | .none => s
  | .handler => pushCb (setP s i { p with waiter := .none, wakeExc := byExc }) .handlerWake
  | .start => pushCb (setP s i { p with waiter := .none, wakeExc := byExc }) .startWake

/-- `BaseProtocol.resume_reading(resume_parser=False)` (called by `StreamReader.feed_eof`) -/
def protoResumeNoParse (s : St) : St :=
  let s := { s with readingPaused := false }
  if !s.msgQueuePaused && s.tPresent then { s with tPaused := false } else s

/-- `StreamReader.feed_data × chunks`, `feed_eof`, `set_exception` on payload `i` -/
def payloadEvent (s : St) (i chunks : Nat) (eof exc : Bool) : St :=
  let p := getP s i
  if p.empty then s else
  let s := setP s i { p with chunks := p.chunks + chunks, eof := p.eof || eof, exc := p.exc || exc }
  let s := if eof then protoResumeNoParse s else s
  if chunks > 0 || eof || exc then wakeP s i (exc && chunks == 0 && !eof) else s

/-- `_pause_msg_queue_reading` -/
def pauseMsgQ (s : St) : St :=
  let s := { s with msgQueuePaused := true }
  -- `transport.pause_reading()`; a transport without flow control raises NotImplementedError, which is ignored
  if s.tPresent && s.cfg.canPause then { s with tPaused := true } else s

/-- how many `_msg_in_flight` slots one parser call takes -/
def POut.slots (o : POut) : Nat := if o.raised then o.lost else o.msgs.length

/-- the parser's side of the pipelining cap (`HttpParser.feed_data`, "queue full" branch): it starts
no new message while `_msg_in_flight >= _max_msg_queue_size` -/
def POut.respectsCap (o : POut) (inFlight : Nat) : Bool :=
  o.slots == 0 || inFlight + o.slots ≤ Gen.C05.parserMaxMsgQueueSize

/-- take the next recorded parser output -/
def parserCall (s : St) : POut × St :=
  match s.oracle with
  | [] => ({}, { s with desync := true, calls := s.calls + 1 })
  | o :: rest => (o, { s with oracle := rest, calls := s.calls + 1,
                              capViolated := s.capViolated || !o.respectsCap s.inFlight })

def newPayload (m : MsgInfo) : Payload :=
  if m.hasPayload then { empty := false, chunks := m.chunks, eof := m.eof, exc := m.exc } else {}

/-- `_messages.append((msg, payload))` for a parsed request; the parser counted it in `_msg_in_flight` -/
def pushMsg (s : St) (m : MsgInfo) : St :=
  { s with messages := s.messages ++ [{ idx := s.nextIdx, err := false, info := m }],
           payloads := s.payloads ++ [newPayload m], nextIdx := s.nextIdx + 1,
           inFlight := s.inFlight + 1 }

/-- append the messages of one parser call to `_messages` -/
def appendMsgs (s : St) : List MsgInfo → St
  | [] => s
  | m :: ms =>
    let s := pushMsg s m
    let s := if m.hasPayload && m.eof then protoResumeNoParse s else s
    appendMsgs s ms

def appendErr (s : St) : St :=
  { s with messages := s.messages ++ [{ idx := s.nextIdx, err := true, info := { shouldClose := true, v11 := false, vge11 := false } }],
           payloads := s.payloads ++ [{}], nextIdx := s.nextIdx + 1 }

def applyOlds (s : St) : List OldEv → St
  | [] => s
  | e :: es => applyOlds (payloadEvent s e.idx e.chunks e.eof e.exc) es

/-- queue what one parser call produced: its messages, or one `_ErrInfo` entry if it raised -/
def enqueueOut (s : St) (o : POut) : St :=
  if o.raised then { appendErr s with inFlight := s.inFlight + o.lost } else appendMsgs s o.msgs

/-- `if messages and waiter is not None and not waiter.done(): waiter.set_result(None)` -/
def notifyWaiter (s : St) (got : Bool) : St :=
  if got && s.waiter == .pending then pushCb { s with waiter := .resolved } .startWake else s

/-- queue full → pause the transport -/
def checkPause (s : St) : St :=
  if !s.msgQueuePaused && s.messages.length ≥ s.cfg.maxQ then pauseMsgQ s else s

def setUpgraded (s : St) (o : POut) : St :=
  let up := !o.raised && o.upgraded
  let s := { s with upgraded := up }
  if up && o.tailLen > 0 then { s with messageTail := o.tailLen } else s

def bufferTail (s : St) (n : Nat) : St :=
  let s := { s with messageTail := s.messageTail + n }
  if !s.msgQueuePaused && s.messageTail ≥ s.cfg.readBuf then pauseMsgQ s else s

/-- `RequestHandler.data_received(data)` with `n = len(data)` -/
def dataReceived (s : St) (n : Nat) : St :=
  if s.forceClose || s.close then s else
  if !s.upgraded then
    let r := parserCall s
    let o := r.1
    setUpgraded (checkPause (notifyWaiter (enqueueOut (applyOlds r.2 o.olds) o) (o.raised || !o.msgs.isEmpty))) o
  else if n > 0 then bufferTail s n
  else s

/-- `_resume_msg_queue_reading` -/
def resumeMsgQ (s : St) : St :=
  if s.messageTail > 0 && s.messageTail ≥ s.cfg.readBuf then s else
  let up0 := s.upgraded
  let s := if !up0 then dataReceived s 0 else s
  if !up0 && s.messages.length ≥ s.cfg.maxQ then s else
  let s := { s with msgQueuePaused := false }
  if !s.readingPaused && s.tPresent then { s with tPaused := false } else s

/-- `BaseProtocol.resume_reading()` as called from `StreamReader._read_nowait_chunk` -/
def protoResume (s : St) : St :=
  let s := { s with readingPaused := false }
  let s := if !s.upgraded then dataReceived s 0 else s
  if !s.readingPaused && !s.msgQueuePaused && s.tPresent then { s with tPaused := false } else s

/-- a reader resumed from `StreamReader._wait()` raises at once: its future was completed with the exception, or
(sources that re-check `self._exception` after the wait — probed, `Gen.C05.waitRechecksException`) an exception
was recorded between the normal wake-up and the resumption -/
def resumeRaises (p : Payload) : Bool := p.wakeExc || (Gen.C05.waitRechecksException && p.exc)

/-- what `request.read()` does next when resumed: normally it goes on reading (`.read :: rest`, which raises if an
exception is recorded); a source that does *not* re-check reports a clean end of body — the error is lost — when it
was woken by `feed_eof()` alone and `set_exception()` came before it ran -/
def resumeProg (p : Payload) (rest : Prog) : Prog :=
  if !resumeRaises p && p.chunks == 0 && p.eof && p.exc then rest else .read :: rest

/-- `_read_nowait(-1)`: pop the `count` chunks present now; each pop re-enters the protocol -/
def drainChunks (s : St) (i : Nat) : Nat → St
  | 0 => s
  | count + 1 =>
    let p := getP s i
    let s := setP s i { p with chunks := p.chunks - 1 }
    drainChunks (protoResume s) i count

/-! ## transport / lifecycle -/

def writable (s : St) : Bool := s.tPresent && !s.tClosing && !s.tLost

def transportClose (s : St) : St :=
  if s.tClosing || s.tLost then s else pushCb { s with tClosing := true } .connLost

def cancelWaiter (s : St) : St :=
  if s.waiter == .pending then pushCb { s with waiter := .cancelled } .startWake else s

/-- `force_close()` -/
def forceClose (s : St) : St :=
  let s := cancelWaiter { s with forceClose := true }
  if s.tPresent then { transportClose s with tPresent := false } else s

/-- `close()` -/
def closeConn (s : St) : St := cancelWaiter { s with close := true }

/-- a cancelled timer handle never runs, even if it was already moved to the ready queue -/
def cancelLinger (s : St) : St := { s with lingerTimer := none, ready := s.ready.filter (· != .lingerFire) }
def cancelKa (s : St) : St := { s with kaTimer := none, ready := s.ready.filter (· != .kaFire) }

/-- `connection_lost(exc)` (handler_cancellation = False) -/
def connectionLost (s : St) : St :=
  if !s.managerPresent then s else
  let s := forceClose s
  let s := cancelKa { s with tPresent := false, managerPresent := false, parserPresent := false }
  match s.currentRequest with
  | some i => payloadEvent s i 0 false true
  | none => s

/-- `_process_keepalive` -/
def processKeepalive (s : St) : St :=
  let s := { s with kaTimer := none }
  if s.forceClose || !s.keepalive then s else
  if s.now < s.nextKaClose then { s with kaTimer := some (s.nextKaClose, s.seq), seq := s.seq + 1 } else
  if s.waiter == .pending then forceClose s else s

/-! ## the per-request task -/

def updCur (s : St) (f : Cur → Cur) : St := { s with cur := s.cur.map f }

def emit (s : St) (e : WEv) : St := { s with wire := e :: s.wire }

/-- the task ends with result `r` (`_current_request` was cleared by the inner `finally`) -/
def finishH (s : St) (r : HRes) : St := { s with hpc := .finished r, currentRequest := none }

/-- the declined-upgrade re-parse at the top of `finish_response` -/
def reparseTail (s : St) : St :=
  if s.upgraded && s.messages.isEmpty && s.parserPresent then
    let s := { s with upgraded := false }
    if s.messageTail > 0 then
      let r := parserCall s
      let o := r.1
      let s := r.2
      let s : St := enqueueOut (applyOlds s o.olds) o
      let up := !o.raised && o.upgraded
      let s : St := { s with upgraded := up, messageTail := if o.raised then 0 else o.tailLen }
      if s.messages.length ≥ s.cfg.maxQ then pauseMsgQ s
      else if s.msgQueuePaused then resumeMsgQ s else s
    else s
  else s

/-- `finish_response` for a response object that has not been started: header block + body -/
def finishFresh (s : St) (c : Cur) (status : Nat) (ka : Bool) : St :=
  let s := reparseTail { s with currentRequest := none }
  let s := updCur s (fun c => { c with outStarted := true })
  if !writable s then finishH s (.resp ka true) else
  let s := emit (emit s (.hdr c.idx status false)) (.eof c.idx)
  finishH s (.resp ka false)

/-- `finish_response` for a stream the handler already finished (`prepare`/`write_eof` are no-ops) -/
def finishDone (s : St) (ka : Bool) : St :=
  let s := reparseTail { s with currentRequest := none }
  finishH s (.resp ka false)

/-- `handle_error(request, status)` followed by `finish_response` -/
def handleError (s : St) (c : Cur) (status : Nat) : St :=
  if c.outStarted then finishH s .connErr   -- "Response is sent already" → ConnectionError
  else finishFresh s c status false

/-- `ceil_timeout(delay)`: deadlines further away than the threshold are rounded up to a whole second -/
def ceilDeadline (ups now delay : Nat) : Nat :=
  let w := now + delay
  if delay > Gen.C05.ceilThresholdS * ups then (w + (ups - 1)) / ups * ups else w

/-- run the handler program until it parks or the task finishes -/
def runProg : Nat → St → Prog → St
  | 0, s, _ => finishH s .connErr
  | fuel + 1, s, prog =>
    match s.cur with
    | none => finishH s .connErr
    | some c =>
    match prog with
    | [] => finishFresh s c 200 (!c.info.shouldClose)
    | .sleep ms :: rest =>
      { s with hpc := .sleeping rest, sleepDone := false, sleepTimer := some (s.now + ms, s.seq), seq := s.seq + 1 }
    | .read :: rest =>
      let p := getP s c.idx
      if p.empty then runProg fuel s rest
      else if p.exc then handleError s c 500
      else if p.chunks > 0 then runProg fuel (drainChunks s c.idx p.chunks) (.read :: rest)
      else if p.eof then runProg fuel s rest
      else if !s.tPresent then handleError s c 500
      else { setP s c.idx { p with waiter := .handler, wakeExc := false } with hpc := .reading rest }
    | .prepare withChunk :: rest =>
      if c.info.noStream then runProg fuel s rest else
      let s := updCur s (fun c => { c with outStarted := true })
      if !writable s then finishH s .connErr    -- reset error → handle_error → "sent already"
      else
        let cd := !c.info.vge11
        let s := emit s (.hdr c.idx 200 cd)
        let s := if withChunk then emit s (.chunk c.idx) else s
        -- `_prepare_headers` clears only its *local* keep_alive for a close-delimited body: `resp.keep_alive` stays
        let s := updCur s (fun c => { c with streamOpen := true, streamKa := !c.info.shouldClose })
        runProg fuel s rest
    | .write :: rest =>
      if c.info.noStream then runProg fuel s rest else
      if !c.streamOpen then handleError s c 500 else
      if !writable s then finishH s .connErr
      else runProg fuel (emit s (.chunk c.idx)) rest
    | .fin f :: _ =>
      match f with
      | .ok =>
        if c.streamOpen then
          if c.info.vge11 && !writable s then finishH s .connErr
          else finishDone (updCur (emit s (.eof c.idx)) (fun c => { c with streamOpen := false })) c.streamKa
        else finishFresh s c 200 (!c.info.shouldClose)
      | .fc => finishFresh s c 200 false
      | .e403 => finishFresh s c 403 (!c.info.shouldClose)
      | .ex => handleError { s with currentRequest := none } c 500
      | .et => handleError { s with currentRequest := none } c 504
      | .ec => finishH s .cancelled
      | .none => finishFresh s c 500 (!c.info.shouldClose)

/-- `_handle_request` up to the handler's first suspension (eager task start) -/
def handlerStart (fuel : Nat) (s : St) (m : QMsg) : St :=
  let c : Cur := { idx := m.idx, err := m.err, info := m.info }
  let s := { s with cur := some c, currentRequest := some m.idx, hpc := .idle }
  if m.err then finishFresh s c 400 false else
  if m.info.expect != 0 && m.info.v11 then
    if m.info.expect == 1 then
      if !writable s then finishH (updCur s (fun c => { c with outStarted := true })) .connErr
      else
        let s := emit s (.interim m.idx)
        let prog := s.progs.getD s.invocations [.fin .ok]
        runProg fuel { s with invocations := s.invocations + 1 } prog
    else if m.info.expect == 3 then
      -- `Response(text=exc.text)` for the 417 raises UnicodeEncodeError inside `except HTTPException`
      finishH s .crashed
    else finishFresh s c 417 (!m.info.shouldClose)
  else
    let prog := s.progs.getD s.invocations [.fin .ok]
    runProg fuel { s with invocations := s.invocations + 1 } prog

/-! ## `RequestHandler.start` -/

inductive SCont where
  | top
  | pop                      -- `message, payload = self._messages.popleft()` (also right after the waiter fired)
  | afterHandler (r : HRes)
  | linger (endT : Nat)
  | afterLinger
  | decide
  | epilogue
deriving Repr

/-- `parser.message_consumed()` -/
def consumeSlot (s : St) : St := if s.parserPresent then { s with inFlight := s.inFlight - 1 } else s
def markErr (s : St) (m : QMsg) : St := if m.err then { s with errPopped := true } else s
/-- low-water resume of a transport paused for the message queue -/
def lowWater (s : St) : St :=
  if s.msgQueuePaused && s.messages.length ≤ s.cfg.resumeQ then resumeMsgQ s else s
/-- `popleft()`, `parser.message_consumed()`, low-water resume -/
def popPrep (s : St) (m : QMsg) (rest : List QMsg) : St :=
  lowWater (markErr (consumeSlot { s with messages := rest }) m)

def startRun : Nat → St → SCont → St
  | 0, s, _ => { s with spc := .done }
  | fuel + 1, s, k =>
    match k with
    | .top =>
      if s.forceClose then startRun fuel s .epilogue else
      match s.messages with
      | [] => { s with waiter := .pending, spc := .waitMsg }
      | _ :: _ => startRun fuel s .pop
    | .pop =>
      match s.messages with
      | [] => { s with spc := .done }     -- IndexError (unreachable: the waiter fires only after an append)
      | m :: rest =>
        let s := popPrep s m rest
        -- `self._request_factory(...)` is outside every `try`: after `connection_lost` it is None (TypeError), and a lazily
        -- validated URL makes `BaseRequest.__init__` raise ValueError: either way the exception leaves `start()`
        if !s.managerPresent || (!m.err && m.info.badUrl) then { s with spc := .done, taskExc := true } else
        let s := handlerStart fuel s m
        match s.hpc with
        | .finished r => startRun fuel s (.afterHandler r)
        | _ => { s with spc := .awaitHandler }
    | .afterHandler r =>
      let s := { s with hpc := .idle }
      match r with
      | .connErr => startRun fuel s .epilogue
      | .cancelled => { forceClose s with spc := .done, cur := none }
      | .crashed => startRun fuel (forceClose s) .decide   -- `except Exception: log; force_close()`
      | .resp ka reset =>
        if reset then startRun fuel s .epilogue else
        let s := { s with keepalive := ka }
        match s.cur with
        | none => startRun fuel s .decide
        | some c =>
          if !(getP s c.idx).eof then
            if !s.forceClose && s.cfg.lingerMs > 0 then startRun fuel s (.linger (s.now + s.cfg.lingerMs))
            else startRun fuel s .afterLinger
          else startRun fuel s .afterLinger
    | .linger endT =>
      match s.cur with
      | none => startRun fuel s .decide
      | some c =>
        let p := getP s c.idx
        if s.lingerTimedOut then
          startRun fuel (cancelLinger { s with lingerTimedOut := false }) .afterLinger
        else if !p.eof && s.now < endT then
          if p.exc then startRun fuel (forceClose (cancelLinger s)) .decide
          else if p.chunks > 0 then startRun fuel (drainChunks (cancelLinger s) c.idx p.chunks) (.linger endT)
          else if !s.tPresent then startRun fuel (forceClose (cancelLinger s)) .decide
          else
            let s := setP s c.idx { p with waiter := .start, wakeExc := false }
            let s := match s.lingerTimer with
              | some _ => s
              | none => { s with lingerTimer := some (ceilDeadline s.cfg.ups s.now (endT - s.now), s.seq), seq := s.seq + 1 }
            { s with spc := .linger endT }
        else startRun fuel (cancelLinger s) .afterLinger
    | .afterLinger =>
      match s.cur with
      | none => startRun fuel s .decide
      | some c =>
        let s := if !(getP s c.idx).eof && !s.forceClose then closeConn s else s
        let s := payloadEvent s c.idx 0 false true
        startRun fuel s .decide
    | .decide =>
      let s := { s with cur := none }
      if s.keepalive && !s.close && !s.forceClose then
        let s := { s with nextKaClose := s.now + s.cfg.keepaliveMs }
        let s := match s.kaTimer with
          | some _ => s
          | none => { s with kaTimer := some (s.now + s.cfg.keepaliveMs, s.seq), seq := s.seq + 1 }
        startRun fuel s .top
      else startRun fuel s .epilogue
    | .epilogue =>
      let s := { s with cur := none, spc := .done }
      if !s.forceClose then (if s.tPresent then transportClose s else s) else s

/-! ## event loop -/

inductive Label where
  | data (n : Nat)
  | lost
  | tick
  | fire (limit : Nat)
deriving Repr

/-- fuel of the coroutine runs (each run handles finitely many queued messages and chunks) -/
def fuelOf (_s : St) : Nat := 1000000

def runCb (s : St) (c : Cb) : St :=
  match c with
  | .startWake =>
    match s.spc with
    | .waitMsg =>
      match s.waiter with
      | .resolved =>
        -- (if the source re-checks `_force_close` after the wait — probed by the generator — the loop ends here)
        if Gen.C05.recheckForceCloseAfterWait && s.forceClose then { s with waiter := .none, cur := none, spc := .done }
        else startRun (fuelOf s) { s with waiter := .none } .pop
      | .cancelled => { s with waiter := .none, spc := .done }   -- CancelledError leaves start()
      | _ => s
    | .awaitHandler =>
      match s.hpc with
      | .finished r => startRun (fuelOf s) s (.afterHandler r)
      | _ => s
    | .linger endT =>
      match s.cur with
      | some c =>
        let p := getP s c.idx
        let s := setP s c.idx { p with waiter := .none }
        -- resumed inside `readany()`: unless the timeout struck, a reader that raises does so before anything else is looked at
        -- (even if a later parser call has meanwhile fed the end of the body): `except Exception` → force_close()
        if !s.lingerTimedOut && resumeRaises p then startRun (fuelOf s) (forceClose (cancelLinger s)) .decide else
        -- otherwise the chunks present now are popped first
        let s := if !s.lingerTimedOut && p.chunks > 0 && !resumeRaises p then drainChunks (cancelLinger s) c.idx p.chunks else s
        startRun (fuelOf s) s (.linger endT)
      | none => s
    | _ => s
  | .handlerWake =>
    let s' :=
      match s.hpc with
      | .sleeping rest => if s.sleepDone then some (runProg (fuelOf s) { s with sleepDone := false } rest) else none
      | .reading rest =>
        match s.cur with
        | some c =>
          let p := getP s c.idx
          -- resumed inside `readany()`: the chunks present now are popped before anything is re-checked
          let s := setP s c.idx { p with waiter := .none }
          let s := if p.chunks > 0 && !resumeRaises p then drainChunks s c.idx p.chunks else s
          some (runProg (fuelOf s) s (resumeProg p rest))
        | none => none
      | _ => none
    match s' with
    | none => s
    | some s' =>
      match s'.hpc with
      | .finished _ => if s'.spc == .awaitHandler then pushCb s' .startWake else s'
      | _ => s'
  | .connLost => connectionLost { s with tLost := true }
  | .kaFire => processKeepalive s
  | .sleepFire => pushCb { s with sleepDone := true } .handlerWake
  | .lingerFire =>
    match s.spc with
    | .linger _ =>
      match s.cur with
      | some c =>
        let p := getP s c.idx
        let s := { s with lingerTimedOut := true }
        if p.waiter == .start then pushCb (setP s c.idx { p with waiter := .none }) .startWake else s
      | none => s
    | _ => s

/-- timers that are due at `s.now`, in `(when, seq)` order, moved to the ready queue -/
def dueTimers (s : St) : List (Nat × Nat × Cb) :=
  let l := (match s.kaTimer with | some (w, q) => [(w, q, Cb.kaFire)] | none => [])
        ++ (match s.sleepTimer with | some (w, q) => [(w, q, Cb.sleepFire)] | none => [])
        ++ (match s.lingerTimer with | some (w, q) => [(w, q, Cb.lingerFire)] | none => [])
  l.filter (fun t => t.1 ≤ s.now)

def insertT (t : Nat × Nat × Cb) : List (Nat × Nat × Cb) → List (Nat × Nat × Cb)
  | [] => [t]
  | u :: us => if t.1 < u.1 || (t.1 == u.1 && t.2.1 < u.2.1) then t :: u :: us else u :: insertT t us

def moveDue (s : St) : St :=
  let due := (dueTimers s).foldl (fun acc t => insertT t acc) []
  due.foldl (fun s t =>
    let s := match t.2.2 with
      | .kaFire => { s with kaTimer := none }
      | .sleepFire => { s with sleepTimer := none }
      | .lingerFire => { s with lingerTimer := none }
      | _ => s
    pushCb s t.2.2) s

def earliest (s : St) : Option Nat :=
  let ws := (match s.kaTimer with | some (w, _) => [w] | none => [])
        ++ (match s.sleepTimer with | some (w, _) => [w] | none => [])
        ++ (match s.lingerTimer with | some (w, _) => [w] | none => [])
  ws.foldl (fun acc w => match acc with | none => some w | some a => some (min a w)) none

def step (s : St) : Label → St
  | .data n => if s.tPaused || s.tClosing || s.tLost then s else dataReceived s n
  | .lost => if s.tLost then s else connectionLost { s with tLost := true }
  | .tick =>
    match s.ready with
    | [] => s
    | c :: rest => runCb { s with ready := rest } c
  | .fire limit =>
    if !s.ready.isEmpty then s else
    match earliest s with
    | some w =>
      if w ≤ limit then moveDue { s with now := max s.now w }
      else { s with now := max s.now limit }
    | none => { s with now := max s.now limit }

/-- `connection_made`: the `start()` task is started eagerly and parks on its waiter -/
def init (cfg : Cfg) (progs : List Prog) (oracle : List POut) : St :=
  startRun 8 { cfg, progs, oracle } .top

def run (s : St) (ls : List Label) : St := ls.foldl step s

/-! ## what the harness observes -/

/-- statuses of the complete responses on the wire (oldest first) and the state of the rest:
`0` nothing pending, `b<status>` a body in progress, `bad` a header block inside a body -/
def render : List WEv → List Nat → Option Nat → List Nat × String
  | [], acc, none => (acc.reverse, "0")
  | [], acc, some st => (acc.reverse, s!"b{st}")
  | e :: es, acc, opn =>
    match opn, e with
    | none, .interim _ => render es (100 :: acc) none
    | none, .hdr _ st cd => if cd then ((st :: acc).reverse, "0") else render es acc (some st)
    | none, .chunk _ => render es acc none
    | none, .eof _ => render es acc none
    | some _, .interim _ => (acc.reverse, "bad")
    | some _, .hdr _ _ _ => (acc.reverse, "bad")
    | some st, .chunk _ => render es acc (some st)
    | some st, .eof _ => render es (st :: acc) none

def b01 (b : Bool) : String := if b then "1" else "0"

def obs (s : St) : String :=
  let (codes, part) := render s.wire.reverse [] none
  let cs := if codes.isEmpty then "-" else ".".intercalate (codes.map toString)
  s!"r={cs} part={part} cl={b01 (s.tClosing || s.tLost)} lost={b01 s.tLost} q={s.messages.length} pa={b01 s.tPaused} w={b01 (s.waiter == .pending)} c={s.calls} f={if s.parserPresent then toString s.inFlight else "-"} x={if s.taskExc then "1" else "0"}{if s.desync then " DESYNC" else ""}{if s.capViolated then " CAPVIOLATED" else ""}"

end Aio.C05
