import AioModel.Generated.C18
/-!
# C18 — WebSocket close timeouts (`ClientSession._ws_connect` timeout plumbing, `ClientWebSocketResponse.close`)

* `effWs`    = how `_ws_connect` combines `timeout=` (a `ClientWSTimeout`, a deprecated float meaning
               `ws_close`, or absent → `DEFAULT_WS_CLIENT_TIMEOUT`) with the deprecated
               `receive_timeout=` (`dataclasses.replace(ws_timeout, ws_receive=receive_timeout)`)
* `wsClose`  = `ClientWebSocketResponse.close()` after the CLOSE frame was written at `tc`:
               `async with async_timeout.timeout(ws_close): msg = await reader.read()` against a peer
               that answers at `peer` or never, with the caller cancelled at `cancel` or never.
               At equal instants a cancellation wins over the deadline, which wins over the answer
               (callbacks of one loop iteration run before the task resumes; `Timeout.__aexit__`
               lets a foreign cancellation through).
Times in ms.
-/
namespace Aio.C18
structure WsT where
  recv : Option Nat
  close : Option Nat
deriving Repr, DecidableEq

inductive WsArg where
  | default
  | obj (t : WsT)
  | legacy (close : Nat)
deriving Repr

def wsDefault : WsT := ⟨none, some Gen.C18.wsCloseDefaultMs⟩

def effWs (a : WsArg) (recv : Option Nat) : WsT :=
  let t := match a with
    | .default => wsDefault
    | .obj t => t
    | .legacy c => ⟨none, some c⟩
  match recv with
  | some r => { t with recv := some r }
  | none => t

inductive WsOut where
  | closedOk (t : Nat)        -- the peer's CLOSE arrived: close code taken from it
  | closedAbnormal (t : Nat)  -- ws_close expired: 1006, connection closed, `close()` returns True
  | cancelled (t : Nat)       -- CancelledError re-raised after closing the connection
  | pending                   -- `close()` never returns
deriving Repr, DecidableEq

/-- deadline against answer: at equal instants the deadline wins -/
def wsRest (dl peer : Option Nat) : WsOut :=
  match dl, peer with
  | some d, some p => if d ≤ p then .closedAbnormal d else .closedOk p
  | some d, none => .closedAbnormal d
  | none, some p => .closedOk p
  | none, none => .pending

/-- earliest of (cancel, deadline, answer) with that priority at equal instants -/
def wsClose (w : WsT) (tc : Nat) (peer cancel : Option Nat) : WsOut :=
  let r := wsRest (w.close.map (tc + ·)) peer
  match cancel with
  | none => r
  | some x =>
    match r with
    | .pending => .cancelled x
    | .closedAbnormal d => if x ≤ d then .cancelled x else .closedAbnormal d
    | .closedOk p => if x ≤ p then .cancelled x else .closedOk p
    | .cancelled t => .cancelled t

def WsOut.time : WsOut → Option Nat
  | .closedOk t | .closedAbnormal t | .cancelled t => some t
  | .pending => none

end Aio.C18
