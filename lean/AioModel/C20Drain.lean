import AioModel.Basic
import AioModel.Generated.C20
/-!
# C20 model, part 2 — graceful shutdown of the connections (a small timed state machine)

Time is a `Nat` number of ticks (`Gen.C20.ticksPerSecond` per second).  One `Conn` is one
`web_protocol.RequestHandler` with its transport; the connections of a server do not
interact, `Server.shutdown` = `asyncio.gather` over them returns when the last one returns.

* `step … (.recv rs)` / `.recvBody` / `.recvPartial` = `RequestHandler.data_received`
  (`if self._force_close or self._close: return`) + the part of `start()` that takes the next
  message and starts `_handle_request` (eager task start: the handler runs at once).
* `step … .preShutdown` = `Server.pre_shutdown` → `RequestHandler.close()` (`_close = True`,
  `_waiter.cancel()`: an idle `start()` task ends *without* closing its transport — the
  `await self._waiter` is outside every `try … except`).
* `step … (.shutdownStart T)` = first synchronous part of `RequestHandler.shutdown(T)`
  (`_force_close = True`; with a request in progress wait for `_handler_waiter` under
  `ceil_timeout(T)`, else go on to the second wait).
* `fire … .handlerDone` = the handler returns: `finish_response` writes the response,
  `_handle_request`'s `finally` resolves `_handler_waiter`, `start()` either takes the next
  queued message (keep-alive and neither `_close` nor `_force_close`) or leaves its loop
  (`transport.close()` unless `_force_close`).
* `fire … .timeout` = a `ceil_timeout(T)` of `shutdown` expires: after the first wait
  `_current_request._cancel(CancelledError())` (only a handler parked in the request body
  sees it) and `await shield(_task_handler)` under a second `ceil_timeout(T)`; after the
  second `_task_handler.cancel()` and `force_close()`.
* `deadline` = `helpers.ceil_timeout` (`None`/`<= 0` → no timeout at all; `> 5 s` → rounded
  up to a whole second).

Handlers are oracles: a request is `get`/`postFull` (handler sleeps `dur` ticks and answers),
`postPart` (handler first awaits `request.read()`; half of the body arrived with the head) or
`postLate` (whole body arrived with the head; the handler sleeps `dur` ticks and only then
reads it — `StreamReader.read` raises an exception stored by `_current_request._cancel`
before it looks at buffered data).  `send > 0`: the response body is streamed; writing it
takes `send` more ticks after the handler returned (`finish_response`: `_current_request`
is already `None`, `_request_in_progress` still set).
-/
namespace Aio.C20.Drain
open Aio

def tps : Nat := Gen.C20.ticksPerSecond
def ceilThreshold : Nat := Gen.C20.ceilThresholdTicks

/-- `ceil_timeout(T)` entered at `now`: the absolute deadline, `none` when there is none -/
def deadline (now T : Nat) : Option Nat :=
  if T = 0 then none
  else if T > ceilThreshold then some (((now + T + (tps - 1)) / tps) * tps)
  else some (now + T)

inductive ReqKind where
  | get | postFull | postPart | postLate
deriving DecidableEq, Repr

structure Req where
  kind : ReqKind
  dur : Nat
  send : Nat := 0
deriving DecidableEq, Repr

/-- the request handler of the connection -/
inductive Cur where
  | idle                    -- no request in progress (`start()` waits for a message, or is over)
  | waitBody (dur : Nat)    -- handler parked in `request.read()`
  | sleeping (fin : Nat)    -- handler will return at `fin`
  | sleepRead (fin : Nat)   -- handler will read its (buffered) body at `fin` and return
  | sending (fin : Nat)     -- handler returned; the response body is complete at `fin`
deriving DecidableEq, Repr

/-- the `RequestHandler.shutdown` coroutine of the connection -/
inductive Sd where
  | none
  | wait1 (d : Option Nat)  -- `await self._handler_waiter` under the first timeout
  | wait2 (d : Option Nat)  -- `await shield(self._task_handler)` under the second
  | done
deriving DecidableEq, Repr

inductive Obs where
  | hs (t : Nat)      -- a handler starts
  | hr (t : Nat)      -- a handler returns its response
  | resp (t : Nat)    -- a complete response reaches the transport
  | hx (t : Nat)      -- a handler is cancelled
  | sx (t : Nat)      -- the writing of a response body is cancelled
  | close (t : Nat)   -- `transport.close()`
  | done (t : Nat)    -- `RequestHandler.shutdown` returns
deriving DecidableEq, Repr

structure Conn where
  transportOpen : Bool := true
  closeFlag : Bool := false      -- `_close`
  forceClose : Bool := false     -- `_force_close`
  taskAlive : Bool := true       -- the `start()` task has not finished
  queue : List Req := []         -- `_messages`
  cur : Cur := .idle
  sd : Sd := .none
  T : Nat := 0                   -- timeout given to `shutdown`
  obs : List Obs := []
  sendDur : Nat := 0             -- time the response of the request in progress will take to write
  payloadExc : Bool := false     -- `_current_request._cancel(…)` stored an exception in the payload
deriving Repr

inductive Label where
  | recv (rs : List Req)   -- bytes completing the heads of `rs` arrive (pipelined if several)
  | recvPartial            -- bytes that complete nothing
  | recvBody               -- the rest of the body of the request in progress
  | preShutdown
  | shutdownStart (T : Nat)
deriving Repr

inductive Internal where
  | handlerDone | timeout
deriving DecidableEq, Repr

def startReq (c : Conn) (t : Nat) (r : Req) : Conn :=
  { c with obs := c.obs ++ [.hs t], sendDur := r.send, payloadExc := false,
           cur := if r.kind = .postPart then .waitBody r.dur
                  else if r.kind = .postLate then .sleepRead (t + r.dur) else .sleeping (t + r.dur) }

/-- `transport.close()` (idempotent) -/
def closeTransport (c : Conn) (t : Nat) : Conn :=
  if c.transportOpen then { c with transportOpen := false, obs := c.obs ++ [.close t] } else c

/-- tail of `RequestHandler.shutdown`: `_task_handler.cancel(); force_close()`, then it returns -/
def finishShutdown (c : Conn) (t : Nat) : Conn :=
  let c := closeTransport c t
  { c with sd := .done, taskAlive := false, obs := c.obs ++ [.done t] }

/-- `start()` after a handler returned: next message, or leave the loop -/
def afterHandler (c : Conn) (t : Nat) : Conn :=
  if !c.closeFlag && !c.forceClose then
    match c.queue with
    | r :: q => startReq { c with queue := q, cur := .idle } t r
    | [] => { c with cur := .idle }
  else
    let c := { c with cur := .idle, taskAlive := false }
    if c.forceClose then c else closeTransport c t

/-- the request in progress is over (response written): `_handle_request`'s `finally`
resolves `_handler_waiter`, `start()` goes on -/
def requestDone (c : Conn) (t : Nat) : Conn :=
  let c := afterHandler c t
  match c.sd with
  | .wait1 _ => finishShutdown c t
  | .wait2 _ => finishShutdown c t
  | _ => c

def fire (c : Conn) (t : Nat) : Internal → Conn
  | .handlerDone =>
    match c.cur with
    | .sending _ =>
      requestDone { c with obs := c.obs ++ (if c.transportOpen then [.resp t] else []) } t
    | .sleepRead _ =>
      if c.payloadExc then
        -- `request.read()` raises the stored CancelledError; start() force-closes and ends
        requestDone { c with forceClose := true, obs := c.obs ++ [.hx t] } t
      else
        requestDone { c with obs := c.obs ++ (if c.transportOpen then [.hr t, .resp t] else [.hr t]) } t
    | _ =>
      if c.sendDur = 0 then
        requestDone { c with obs := c.obs ++ (if c.transportOpen then [.hr t, .resp t] else [.hr t]) } t
      else { c with obs := c.obs ++ [.hr t], cur := .sending (t + c.sendDur), sendDur := 0 }
  | .timeout =>
    match c.sd with
    | .wait1 _ =>
      match c.cur with
      | .waitBody _ =>
        -- the payload raises CancelledError in the handler; start() force-closes and ends
        finishShutdown { c with cur := .idle, obs := c.obs ++ [.hx t] } t
      | _ => { c with sd := .wait2 (deadline t c.T), payloadExc := true }
    | .wait2 _ =>
      let c := if c.cur = .idle then c
        else { c with cur := .idle, obs := c.obs ++ [match c.cur with | .sending _ => Obs.sx t | _ => Obs.hx t] }
      finishShutdown c t
    | _ => c

def step (c : Conn) (t : Nat) : Label → Conn
  | .recv rs =>
    if c.forceClose || c.closeFlag || !c.transportOpen then c
    else
      let c := { c with queue := c.queue ++ rs }
      if c.cur = .idle && c.taskAlive then
        match c.queue with
        | r :: q => startReq { c with queue := q } t r
        | [] => c
      else c
  | .recvPartial => c
  | .recvBody =>
    if c.forceClose || c.closeFlag || !c.transportOpen then c
    else match c.cur with
      | .waitBody d => { c with cur := .sleeping (t + d) }
      | _ => c
  | .preShutdown =>
    let c := { c with closeFlag := true }
    if c.cur = .idle then { c with taskAlive := false } else c
  | .shutdownStart T =>
    let c := { c with forceClose := true, T := T }
    if c.cur = .idle then
      if c.taskAlive then { c with sd := .wait2 (deadline t T) } else finishShutdown c t
    else { c with sd := .wait1 (deadline t T) }

/-- the earliest pending internal event (handler completion wins a tie) -/
def nextInternal (c : Conn) : Option (Nat × Internal) :=
  let h : Option Nat := match c.cur with
    | .sleeping fin => some fin
    | .sleepRead fin => some fin
    | .sending fin => some fin
    | _ => none
  let d : Option Nat := match c.sd with
    | .wait1 d => d
    | .wait2 d => d
    | _ => none
  match h, d with
  | some f, some d => if f ≤ d then some (f, .handlerDone) else some (d, .timeout)
  | some f, none => some (f, .handlerDone)
  | none, some d => some (d, .timeout)
  | none, none => none

/-- let time pass until `t`: fire the internal events that are due, in order -/
def advance : Nat → Nat → Conn → Conn
  | 0, _, c => c
  | fuel + 1, t, c =>
    match nextInternal c with
    | some (u, ev) => if u ≤ t then advance fuel t (fire c u ev) else c
    | none => c

/-- run to quiescence (no internal event left) -/
def settle : Nat → Conn → Conn
  | 0, c => c
  | fuel + 1, c =>
    match nextInternal c with
    | some (u, ev) => settle fuel (fire c u ev)
    | none => c

/-- enough fuel: every queued request can start and finish, plus the shutdown steps -/
def fuelFor (c : Conn) (evs : List (Nat × Label)) : Nat :=
  3 * (c.queue.length + (evs.map (fun e => match e.2 with | .recv rs => rs.length | _ => 0)).sum) + 8

def runFrom (F : Nat) (c : Conn) (evs : List (Nat × Label)) : Conn :=
  evs.foldl (fun c e => step (advance F e.1 c) e.1 e.2) c

/-- insert a server action into a time-ordered script: after every action that is not later
(client actions come first at equal times) -/
def insertEv (e : Nat × Label) : List (Nat × Label) → List (Nat × Label)
  | [] => [e]
  | x :: xs => if x.1 ≤ e.1 then x :: insertEv e xs else e :: x :: xs

/-- one connection through a whole scenario: its client script, `pre_shutdown` at `t0`,
`shutdown(T)` at `t0 + ds` (`ds` = time taken by the `on_shutdown` handlers), then to quiescence -/
def runConn (T t0 ds : Nat) (script : List (Nat × Label)) : Conn :=
  let evs := insertEv (t0 + ds, .shutdownStart T) (insertEv (t0, .preShutdown) script)
  let F := fuelFor {} evs
  settle F (runFrom F {} evs)

def doneTime (c : Conn) : Option Nat :=
  c.obs.findSome? (fun o => match o with | .done t => some t | _ => none)

/-- when `Server.shutdown` (hence `runner.cleanup`) returns: after the last connection
(`asyncio.gather`), not before it started at `ts`; never if some connection never finishes -/
def returnTime (ts : Nat) : List Conn → Option Nat
  | [] => some ts
  | c :: cs =>
    match doneTime c, returnTime ts cs with
    | some d, some r => some (max d r)
    | _, _ => none

end Aio.C20.Drain
