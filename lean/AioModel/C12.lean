import AioModel.Basic
import AioModel.Generated.C12
/-!
# C12 model — `aiohttp/_websocket/reader_py.py` (pure-Python WebSocket reader)

* `hdrStep` / `lenStep` / `maskStep` / `payStep` = the four `if self._state == …` blocks of
  `WebSocketReader._feed_data` (READ_HEADER, READ_PAYLOAD_LENGTH, READ_PAYLOAD_MASK,
  READ_PAYLOAD); `micro` dispatches on the state; `loop` = the `while True` around them;
  `feed` = `WebSocketReader.feed_data` (error latch `_exc`, `_tail` prepended, `_tail` saved).
* `handleFrame` = `WebSocketReader._handle_frame`.
* `deliver` = `WebSocketDataQueue.feed_data`; `read` = `WebSocketDataQueue._read_from_buffer`.
* `maskBytes` = `_websocket_mask_python` (XOR with `mask[i % 4]`).
* `utf8Valid` = "`bytes.decode('utf-8')` does not raise" (strict: no overlongs, no
  surrogates, ≤ U+10FFFF).

`_payload_fragments` is kept as its concatenation `frags` plus the list length `fragCount`
(the code only joins the fragments and counts them); `_frame_payload_len` is
`frags.length` (the code adds the length of every fragment it appends and resets it when the
frame completes) and is therefore not a separate field.

zlib is **not** modelled: `Inflater` is a parameter (state, `inflate st data maxLen`).
-/
namespace Aio.C12
open Aio

/-! ## parameters -/

structure Cfg where
  maxMsgSize : Nat      -- `max_msg_size` (0 = unlimited)
  compress : Bool       -- `compress` (permessage-deflate negotiated)
  decodeText : Bool     -- `decode_text`
  queueLimit : Nat      -- `WebSocketDataQueue._limit` (= 2 * limit)
deriving Repr

/-- result of `ZLibDecompressor.decompress_sync(data, max_length)` -/
inductive InflRes where
  | ok (out : Bytes)
  | tooMany            -- TooManyMembersError
  | error              -- zlib.error
deriving Repr, DecidableEq

/-- the un-modelled inflate context (`ZLibDecompressor(suppress_deflate_header=True)`) -/
structure Inflater where
  St : Type
  init : St
  inflate : St → Bytes → Nat → St × InflRes

inductive Err where
  | ws (code : Nat)    -- WebSocketError(code, …)
  | zlib               -- zlib.error escaping `_handle_frame`
deriving Repr, DecidableEq

inductive Msg where
  | text (data : Bytes)               -- WSMessageText / WSMessageTextBytes (payload bytes)
  | binary (data : Bytes)
  | ping (data : Bytes)
  | pong (data : Bytes)
  | close (code : Nat) (reason : Bytes)
deriving Repr, DecidableEq

/-- the `size` field the reader stores in the message -/
def Msg.size : Msg → Nat
  | .text d => d.length
  | .binary d => d.length
  | .ping d => d.length
  | .pong d => d.length
  | .close c r => if c = 0 ∧ r = [] then 0 else 2 + r.length

inductive Phase where
  | header | len | mask | payload
deriving Repr, DecidableEq

/-- parser + data-queue state that does not depend on how the input was cut (everything except
`_tail`, `_exc` — see `Reader` — and the two segmentation-dependent items of `P`) -/
structure K (Z : Inflater) where
  phase : Phase := .header
  frags : Bytes := []            -- b"".join(_payload_fragments)
  toRead : Nat := 0              -- _payload_bytes_to_read
  partialMsg : Bytes := []       -- _partial
  opcode : Option Nat := none    -- _opcode (None = OP_CODE_NOT_SET)
  frameFin : Bool := false       -- _frame_fin
  frameOpcode : Nat := 0         -- _frame_opcode
  hasMask : Bool := false
  mask : Bytes := []             -- _frame_mask
  lenFlag : Nat := 0             -- _payload_len_flag
  compressed : Option Bool := none   -- _compressed (None = COMPRESSED_NOT_SET)
  z : Z.St := Z.init             -- _decompressobj (created lazily = starts at init)
  msgs : List Msg := []          -- every message put on the queue so far, in order
  nread : Nat := 0               -- how many of them were consumed by `read`
  qsize : Nat := 0               -- WebSocketDataQueue._size

/-- full state: `K` plus the fragment count and the flow-control flag -/
structure P (Z : Inflater) where
  k : K Z := {}
  fragCount : Nat := 0           -- len(_payload_fragments)
  paused : Bool := false         -- protocol._reading_paused

/-! ## helpers -/

/-- big-endian value of a byte string (`struct.unpack("!H"/"!Q")`, `a << 8 | b`) -/
def beNat (bs : Bytes) : Nat := bs.foldl (fun acc b => acc * 256 + b.toNat) 0

def maskGo : Bytes → UInt8 → UInt8 → UInt8 → UInt8 → Bytes
  | [], _, _, _, _ => []
  | b :: t, k0, k1, k2, k3 => (b ^^^ k0) :: maskGo t k1 k2 k3 k0

/-- `_websocket_mask_python(mask, data)`; a mask that is not 4 bytes long is an assertion
error in the code and cannot arise (the reader slices exactly 4 bytes) — identity here -/
def maskBytes (key : Bytes) (data : Bytes) : Bytes :=
  match key with
  | [k0, k1, k2, k3] => maskGo data k0 k1 k2 k3
  | _ => data

def maskGoTR : Bytes → UInt8 → UInt8 → UInt8 → UInt8 → Bytes → Bytes
  | [], _, _, _, _, acc => acc.reverse
  | b :: t, k0, k1, k2, k3, acc => maskGoTR t k1 k2 k3 k0 ((b ^^^ k0) :: acc)

theorem maskGoTR_eq (d : Bytes) : ∀ k0 k1 k2 k3 acc,
    maskGoTR d k0 k1 k2 k3 acc = acc.reverse ++ maskGo d k0 k1 k2 k3 := by
  induction d with
  | nil => intros; simp [maskGoTR, maskGo]
  | cons b t ih => intros; simp [maskGoTR, maskGo, ih]

def maskGoFast (d : Bytes) (k0 k1 k2 k3 : UInt8) : Bytes := maskGoTR d k0 k1 k2 k3 []

@[csimp] theorem maskGo_eq_fast : @maskGo = @maskGoFast := by
  funext d k0 k1 k2 k3; simp [maskGoFast, maskGoTR_eq]

def isCont (b : UInt8) : Bool := 0x80 ≤ b.toNat && b.toNat ≤ 0xBF

/-- one UTF-8 scalar from the front: the rest, or `none` if the prefix is ill-formed
(Unicode table 3-7, which is what CPython's strict decoder accepts) -/
def utf8Step : Bytes → Option Bytes
  | [] => none
  | b0 :: t =>
    let n := b0.toNat
    if n < 0x80 then some t
    else if 0xC2 ≤ n ∧ n ≤ 0xDF then
      match t with
      | b1 :: t1 => if isCont b1 then some t1 else none
      | _ => none
    else if 0xE0 ≤ n ∧ n ≤ 0xEF then
      match t with
      | b1 :: b2 :: t2 =>
        let lo := if n = 0xE0 then 0xA0 else 0x80
        let hi := if n = 0xED then 0x9F else 0xBF
        if lo ≤ b1.toNat ∧ b1.toNat ≤ hi ∧ isCont b2 then some t2 else none
      | _ => none
    else if 0xF0 ≤ n ∧ n ≤ 0xF4 then
      match t with
      | b1 :: b2 :: b3 :: t3 =>
        let lo := if n = 0xF0 then 0x90 else 0x80
        let hi := if n = 0xF4 then 0x8F else 0xBF
        if lo ≤ b1.toNat ∧ b1.toNat ≤ hi ∧ isCont b2 ∧ isCont b3 then some t3 else none
      | _ => none
    else none

def utf8ValidAux : Nat → Bytes → Bool
  | 0, bs => bs.isEmpty
  | fuel + 1, bs =>
    if bs.isEmpty then true else
    match utf8Step bs with
    | none => false
    | some rest => utf8ValidAux fuel rest

/-- `bs.decode("utf-8")` succeeds -/
def utf8Valid (bs : Bytes) : Bool := utf8ValidAux bs.length bs

def E1002 : Err := .ws Gen.C12.codeProtocolError
def E1007 : Err := .ws Gen.C12.codeInvalidText
def E1009 : Err := .ws Gen.C12.codeMessageTooBig

/-- `self._max_fragments` -/
def maxFragments (c : Cfg) : Nat :=
  if c.maxMsgSize ≠ 0 then max Gen.C12.fragFloor (c.maxMsgSize / Gen.C12.fragDiv) else 0

/-! ## the data queue -/

variable {Z : Inflater}

/-- `WebSocketDataQueue.feed_data(msg)` without its `pause_reading()` (that part is in `micro`) -/
def deliver (p : K Z) (m : Msg) : K Z :=
  { p with msgs := p.msgs ++ [m], qsize := p.qsize + m.size }

inductive ReadRes where
  | msg (m : Msg)
  | raised (e : Err)    -- the stored exception is raised
  | empty               -- nothing queued and no exception: `read()` would wait (or EofStream)
deriving Repr, DecidableEq

/-! ## `_handle_frame` -/

def closeCodeOk (code : Nat) : Bool :=
  !(code > 4999 || (code < 3000 && !Gen.C12.allowedCloseCodes.contains code))

/-- the per-message inflate of `_handle_frame` (`if compressed:` … `decompress_sync(…, max+1)`,
post-check); `COMPRESSED_NOT_SET = -1` is truthy, but a data frame always sets the flag -/
def inflateMsg (c : Cfg) (p2 : K Z) (compressed : Option Bool) (assembled : Bytes) :
    Except (K Z × Err) (K Z × Bytes) :=
  if compressed ≠ some false then
    let maxLen := if c.maxMsgSize ≠ 0 then c.maxMsgSize + 1 else 0
    match Z.inflate p2.z (assembled ++ Gen.C12.deflateTrailing) maxLen with
    | (z', .ok out) =>
      if c.maxMsgSize ≠ 0 ∧ out.length > c.maxMsgSize then .error ({ p2 with z := z' }, E1009)
      else .ok ({ p2 with z := z' }, out)
    | (z', .tooMany) => .error ({ p2 with z := z' }, E1009)
    | (z', .error) => .error ({ p2 with z := z' }, .zlib)
  else .ok (p2, assembled)

def handleData (c : Cfg) (p : K Z) (fin : Bool) (opcode : Nat) (payload : Bytes)
    (compressed : Option Bool) : Except (K Z × Err) (K Z) :=
  if opcode = 0 ∧ p.opcode = none then .error (p, E1002)
  else if ¬ fin then
    .ok { p with opcode := if opcode ≠ 0 then some opcode else p.opcode,
                 partialMsg := p.partialMsg ++ payload }
  else
    let hasPartial := p.partialMsg ≠ []
    if opcode ≠ 0 ∧ hasPartial then .error (p, E1002) else
    let opc := if opcode = 0 then p.opcode.getD 0 else opcode
    let p1 : K Z := if opcode = 0 then { p with opcode := none } else p
    let assembled := p1.partialMsg ++ payload
    let p2 : K Z := { p1 with partialMsg := [] }
    match inflateMsg c p2 compressed assembled with
    | .error e => .error e
    | .ok (p3, merged) =>
      if opc = 1 then
        if c.decodeText ∧ ¬ utf8Valid merged then .error (p3, E1007)
        else .ok (deliver p3 (.text merged))
      else .ok (deliver p3 (.binary merged))

def handleClose (_c : Cfg) (p : K Z) (payload : Bytes) : Except (K Z × Err) (K Z) :=
  match payload with
  | b0 :: b1 :: reason =>
    let code := b0.toNat * 256 + b1.toNat
    if ¬ closeCodeOk code then .error (p, E1002)
    else if ¬ utf8Valid reason then .error (p, E1007)
    else .ok (deliver p (.close code reason))
  | [_] => .error (p, E1002)
  | [] => .ok (deliver p (.close 0 []))

/-- `_handle_frame(fin, opcode, payload, compressed)` -/
def handleFrame (c : Cfg) (p : K Z) (fin : Bool) (opcode : Nat) (payload : Bytes)
    (compressed : Option Bool) : Except (K Z × Err) (K Z) :=
  if opcode = 1 ∨ opcode = 2 ∨ opcode = 0 then handleData c p fin opcode payload compressed
  else if opcode = 8 then handleClose c p payload
  else if opcode = 9 then .ok (deliver p (.ping payload))
  else if opcode = 10 then .ok (deliver p (.pong payload))
  else .error (p, E1002)

/-! ## `_feed_data` -/

/-- result of one state block on the segmentation-independent part of the state -/
inductive StepK (Z : Inflater) where
  | need                          -- `break` with the unread bytes going to `_tail`
  | park (k : K Z)                -- `break` after buffering an incomplete payload (all bytes consumed)
  | fail (k : K Z) (e : Err)      -- exception (state as left behind; only z/msgs/queue fields matter afterwards)
  | adv (k : K Z) (rest : Bytes)  -- state advanced; continue with `rest`

/-- READ_HEADER on the two header bytes: the checks and the state update -/
def hdrCore (c : Cfg) (p : K Z) (b0 b1 : UInt8) : Except Err (K Z) :=
  let fin := b0.toNat / 128
  let rsv1 := b0.toNat / 64 % 2
  let rsv2 := b0.toNat / 32 % 2
  let rsv3 := b0.toNat / 16 % 2
  let op := b0.toNat % 16
  if rsv2 = 1 ∨ rsv3 = 1 ∨ (rsv1 = 1 ∧ ¬ c.compress) then .error E1002
  else if ¬ Gen.C12.knownOpcodes.contains op then .error E1002
  else if op > 7 ∧ fin = 0 then .error E1002
  else
    let hasMask := b1.toNat / 128 = 1
    let length := b1.toNat % 128
    if op > 7 ∧ length > 125 then .error E1002
    else if op > 7 then
      if rsv1 = 1 then .error E1002
      else .ok { p with frameOpcode := op, hasMask := hasMask, lenFlag := length, phase := .len }
    else if p.frameFin ∨ p.compressed = none then
      .ok { p with compressed := some (rsv1 = 1), frameFin := fin = 1, frameOpcode := op,
                   hasMask := hasMask, lenFlag := length, phase := .len }
    else if rsv1 = 1 then .error E1002
    else
      .ok { p with frameFin := fin = 1, frameOpcode := op,
                   hasMask := hasMask, lenFlag := length, phase := .len }

/-- READ_HEADER -/
def hdrStep (c : Cfg) (p : K Z) (buf : Bytes) : StepK Z :=
  match buf with
  | b0 :: b1 :: rest =>
    match hdrCore c p b0 b1 with
    | .error e => .fail p e
    | .ok p' => .adv p' rest
  | _ => .need

/-- the tail of READ_PAYLOAD_LENGTH: size cap, next state -/
def lenCore (c : Cfg) (p : K Z) (n : Nat) : Except Err (K Z) :=
  if c.maxMsgSize ≠ 0 ∧ (p.frameOpcode = 1 ∨ p.frameOpcode = 2 ∨ p.frameOpcode = 0) ∧
      n ≥ c.maxMsgSize - p.partialMsg.length then .error E1009
  else .ok { p with toRead := n, phase := if p.hasMask then .mask else .payload }

def setLen (c : Cfg) (p : K Z) (n : Nat) (rest : Bytes) : StepK Z :=
  match lenCore c p n with
  | .error e => .fail p e
  | .ok p' => .adv p' rest

/-- READ_PAYLOAD_LENGTH -/
def lenStep (c : Cfg) (p : K Z) (buf : Bytes) : StepK Z :=
  if p.lenFlag = 126 then
    match buf with
    | b0 :: b1 :: rest => setLen c p (b0.toNat * 256 + b1.toNat) rest
    | _ => .need
  else if p.lenFlag > 126 then
    if buf.length < 8 then .need
    else
      let n := beNat (buf.take 8)
      if n > Gen.C12.maxPayloadLen then .fail p E1009
      else setLen c p n (buf.drop 8)
  else setLen c p p.lenFlag buf

/-- READ_PAYLOAD_MASK -/
def maskStep (p : K Z) (buf : Bytes) : StepK Z :=
  if buf.length < 4 then .need
  else .adv { p with mask := buf.take 4, phase := .payload } (buf.drop 4)

/-- READ_PAYLOAD -/
def payStep (c : Cfg) (p : K Z) (buf : Bytes) : StepK Z :=
  let n := min p.toRead buf.length
  let chunk := buf.take n
  let rest := buf.drop n
  let toRead := p.toRead - n
  if toRead ≠ 0 then
    .park { p with toRead := toRead, frags := p.frags ++ chunk }
  else
    let raw := p.frags ++ chunk
    let payload := if p.hasMask then maskBytes p.mask raw else raw
    let p1 : K Z := { p with toRead := 0, frags := [] }
    match handleFrame c p1 p.frameFin p.frameOpcode payload p.compressed with
    | .error (pe, e) => .fail pe e
    | .ok p2 => .adv { p2 with phase := .header } rest

/-- one `if self._state == …` block, on the segmentation-independent state -/
def microK (c : Cfg) (p : K Z) (buf : Bytes) : StepK Z :=
  match p.phase with
  | .header => hdrStep c p buf
  | .len => lenStep c p buf
  | .mask => maskStep p buf
  | .payload => payStep c p buf

inductive Step (Z : Inflater) where
  | need
  | park (p : P Z)
  | fail (p : P Z) (e : Err)
  | adv (p : P Z) (rest : Bytes)

/-- the same block with the two segmentation-dependent items:
* an incomplete payload chunk is appended to `_payload_fragments`; above `_max_fragments`
  entries the transport is paused;
* when a frame completes the list is cleared only if earlier fragments were non-empty
  (`had_fragments = self._frame_payload_len`);
* `WebSocketDataQueue.feed_data` pauses the transport when `_size > _limit`. -/
def micro (c : Cfg) (p : P Z) (buf : Bytes) : Step Z :=
  match microK c p.k buf with
  | .need => Step.need
  | .park k1 =>
    let cnt := p.fragCount + 1
    let pz : Bool := if maxFragments c ≠ 0 ∧ cnt > maxFragments c ∧ ¬ p.paused then true else p.paused
    Step.park { k := k1, fragCount := cnt, paused := pz }
  | .fail k1 e => Step.fail { p with k := k1 } e
  | .adv k1 rest =>
    let cnt := if p.k.phase = .payload ∧ p.k.frags.length ≠ 0 then 0 else p.fragCount
    let pz : Bool := if k1.msgs.length ≠ p.k.msgs.length ∧ k1.qsize > c.queueLimit ∧ ¬ p.paused then true
                     else p.paused
    Step.adv { k := k1, fragCount := cnt, paused := pz } rest

/-- `WebSocketReader` as seen through `feed_data`: parser/queue state, `_tail`, `_exc` -/
structure Reader (Z : Inflater) where
  p : P Z := {}
  tail : Bytes := []
  exc : Option Err := none

/-- the `while True` loop of `_feed_data` -/
def loop (c : Cfg) : Nat → P Z → Bytes → Reader Z
  | 0, p, buf => { p := p, tail := buf, exc := none }
  | fuel + 1, p, buf =>
    match micro c p buf with
    | .need => { p := p, tail := buf, exc := none }
    | .park p' => { p := p', tail := [], exc := none }
    | .fail pe e => { p := pe, tail := [], exc := some e }
    | .adv p' rest => loop c fuel p' rest

/-- enough fuel for any buffer: every frame takes at most 4 blocks and ≥ 2 bytes -/
def fuelFor (buf : Bytes) : Nat := 4 * buf.length + 8

/-- `WebSocketReader.feed_data(data)` -/
def feed (c : Cfg) (r : Reader Z) (data : Bytes) : Reader Z :=
  if r.exc.isSome then r
  else loop c (fuelFor (r.tail ++ data)) r.p (r.tail ++ data)

def feedAll (c : Cfg) (r : Reader Z) : List Bytes → Reader Z
  | [] => r
  | d :: ds => feedAll c (feed c r d) ds

/-- `WebSocketDataQueue._read_from_buffer()` (the non-blocking part of `read()`) -/
def read (c : Cfg) (r : Reader Z) : Reader Z × ReadRes :=
  match r.p.k.msgs.drop r.p.k.nread with
  | m :: _ =>
    let size := r.p.k.qsize - m.size
    ({ r with p := { r.p with k := { r.p.k with nread := r.p.k.nread + 1, qsize := size },
                              paused := if size < c.queueLimit ∧ r.p.paused then false else r.p.paused } },
     .msg m)
  | [] =>
    match r.exc with
    | some e => (r, .raised e)
    | none => (r, .empty)

/-- bytes the reader keeps between two `feed_data` calls for the message being received -/
def retained (r : Reader Z) : Nat := r.tail.length + r.p.k.frags.length + r.p.k.partialMsg.length

end Aio.C12
