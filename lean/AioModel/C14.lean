import AioModel.Basic
import AioModel.Generated.C14
/-!
# C14 model — `aiohttp/web_urldispatcher.py`, `web_app.py` (sub-apps), `web_middlewares.py`

Strings are Python `str` = code-point lists (`Str`).  What each definition transcribes:

* `rpHead`, `rstripSlash`, `indexKey`   = `str.rpartition("/")[0]`, `str.rstrip("/")`,
                                           `UrlDispatcher._get_resource_index_key`
* `parent`, `walk`                      = the `while url_part:` loop of `UrlDispatcher.resolve`
* `splitTemplate`, `classify`, `compile`= `ROUTE_RE.split`, `DYN` / `DYN_WITH_RE`, and the body of
                                           `DynamicResource.__init__` (pattern + formatter)
* `matchFrom`, `dynMatch`               = `DynamicResource._match` (`re.fullmatch` of the compiled
                                           pattern, restricted to the grammar `literal | {v} | {v:C+} | {v:C*}`
                                           with `C` a character class; classes are expanded from the
                                           real `re` into `Generated/C14.lean`)
* `unquoteSafe`                         = `_unquote_path_safe`
* `Routes.lookup`, `ansLeaf`            = `Resource.resolve`, `PlainResource._match`,
                                           `StaticResource.resolve`
* `resolve`                             = `UrlDispatcher.resolve`, `PrefixedSubAppResource.resolve`,
                                           `MatchedSubAppResource.resolve`, `Domain.match`, `MaskDomain`
* `Table.register`, `indexAdd`, `indexRemove`, `addRoute`, `addStatic`, `addSubapp`, `addDomain`,
  `addPrefixRes`, `addPrefixTable`      = `register_resource`, `index_resource`, `unindex_resource`,
                                           `add_resource`+`Resource.add_route`, `add_static`,
                                           `Application.add_subapp/add_domain`, `*.add_prefix`,
                                           `PrefixedSubAppResource._add_prefix_to_resources`
* `urlFor`                              = `DynamicResource.url_for` (formatter substitution)
* `mwCandidates`, `mergeSlashes`, `stripLeadSlashes` = `normalize_path_middleware`
* `linear`                              = the *specification*: the documented lookup rule as a scan
                                           over **all** resources by (length of fixed prefix
                                           descending, registration order)

Not modelled (oracle columns supplied by the harness from the real libraries):
`yarl` quoting (`_requote_path` of every literal, `_quote_path` of url_for values,
`URL.path_safe` of the request path, `str(URL(candidate))`), `os.path.normpath`.
-/
namespace Aio.C14
open Aio

abbrev Dict := List (Str × Str)
/-- routes of one resource in registration order: (method, handler id) -/
abbrev Routes := List (Str × Nat)

def SL : Nat := 47     -- '/'
def LB : Nat := 123    -- '{'
def RB : Nat := 125    -- '}'
def PCT : Nat := 37    -- '%'
def STAR : Str := [42] -- hdrs.METH_ANY

/-! ## string helpers -/

/-- `s.rpartition("/")[0]` -/
def rpHead : Str → Str
  | [] => []
  | c :: t => if t.contains SL then c :: rpHead t else []

/-- `s.rstrip("/")` -/
def rstripSlash : Str → Str
  | [] => []
  | c :: t =>
    match rstripSlash t with
    | [] => if c = SL then [] else [c]
    | r => c :: r

/-- `x or "/"` -/
def orSlash (s : Str) : Str := if s.isEmpty then [SL] else s

/-- `s.partition("{")[0]` -/
def beforeBrace (s : Str) : Str := s.takeWhile (· ≠ LB)

/-- `UrlDispatcher._get_resource_index_key` applied to the canonical string -/
def indexKey (canonical : Str) : Str :=
  if canonical.contains LB then orSlash (rstripSlash (rpHead (beforeBrace canonical)))
  else orSlash (rstripSlash canonical)

/-- `url_part.rpartition("/")[0] or "/"` -/
def parent (p : Str) : Str := orSlash (rpHead p)

def walkAux : Nat → Str → List Str
  | 0, _ => []
  | f + 1, p => if p = [SL] then [p] else p :: walkAux f (parent p)

/-- the url parts visited by `UrlDispatcher.resolve`, in order (`while url_part:` …) -/
def walk (p : Str) : List Str := if p.isEmpty then [] else walkAux (p.length + 1) p

/-- `str.replace(pat, rep)` for a non-empty `pat` (left to right, non-overlapping) -/
def replaceGo (pat rep : Str) : Nat → Str → Str
  | _, [] => []
  | skip + 1, _ :: t => replaceGo pat rep skip t
  | 0, c :: t =>
    if isPrefix pat (c :: t) then rep ++ replaceGo pat rep (pat.length - 1) t
    else c :: replaceGo pat rep 0 t
def replaceSub (pat rep s : Str) : Str := replaceGo pat rep 0 s

/-- `_unquote_path_safe` -/
def unquoteSafe (v : Str) : Str :=
  if !v.contains PCT then v
  else replaceSub [37, 50, 53] [37] (replaceSub [37, 50, 70] [SL] v)

/-! ## templates -/

def inRanges (rs : List (Nat × Nat)) (c : Nat) : Bool := rs.any (fun r => r.1 ≤ c && c ≤ r.2)

inductive Part where
  | lit (s : Str)
  | var (name : Str) (ranges : List (Nat × Nat)) (minLen : Nat)
deriving Repr

inductive Err where
  | value        -- ValueError
  | runtime      -- RuntimeError ("Added route will never be executed")
  | assertion    -- AssertionError
  | key          -- KeyError (unindex_resource on a resource that was never indexed)
  | unsupported  -- outside the modelled template grammar (never produced by the generators)
  | oracle       -- a quoting oracle column is missing (harness bug)
  | fuel         -- model artefact: nesting deeper than the fuel
deriving Repr, DecidableEq

def isIdStart (c : Nat) : Bool := c = 95 || (65 ≤ c && c ≤ 90) || (97 ≤ c && c ≤ 122)
def isIdChar (c : Nat) : Bool := isIdStart c || (48 ≤ c && c ≤ 57)

/-- Try to match `ROUTE_RE` = `\{[_a-zA-Z][^{}]*(?:\{[^{}]*\}[^{}]*)*\}` at the start of `s`
(which starts with `{`).  `depth` 0 = outer level, 1 = inside an inner brace pair.
Returns the inside of the outer braces and the rest. -/
def braceBody : Nat → Str → Str → Option (Str × Str)
  | _, _, [] => none
  | 0, acc, c :: t =>
    if c = RB then some (acc.reverse, t)
    else if c = LB then braceBody 1 (c :: acc) t
    else braceBody 0 (c :: acc) t
  | _ + 1, acc, c :: t =>
    if c = RB then braceBody 0 (c :: acc) t
    else if c = LB then none
    else braceBody 1 (c :: acc) t

inductive Tok where
  | text (s : Str)
  | brace (inner : Str)     -- a `ROUTE_RE` match, without its outer braces
deriving Repr

/-- `ROUTE_RE.split(path)`: alternating text / brace tokens (`fuel` ≥ length) -/
def splitTemplate : Nat → Str → Str → List Tok
  | 0, cur, _ => [.text cur.reverse]
  | _ + 1, cur, [] => [.text cur.reverse]
  | f + 1, cur, c :: t =>
    if c = LB then
      match t with
      | d :: t' =>
        if isIdStart d then
          match braceBody 0 [d] t' with
          | some (inner, rest) => .text cur.reverse :: .brace inner :: splitTemplate f [] rest
          | none => splitTemplate f (c :: cur) t
        else splitTemplate f (c :: cur) t
      | [] => splitTemplate f (c :: cur) t
    else splitTemplate f (c :: cur) t

/-- regex text → (ranges, minLen) from the generated class table -/
def lookupClass (re : Str) : Option (List (Nat × Nat) × Nat) :=
  (Gen.C14.classTable.find? (fun e => e.1 == re)).map (fun e => e.2)

/-- `DYN.fullmatch` / `DYN_WITH_RE.fullmatch` on one brace token -/
def classify (inner : Str) : Except Err Part :=
  let name := inner.takeWhile isIdChar
  let rest := inner.dropWhile isIdChar
  match rest with
  | [] => match lookupClass Gen.C14.goodText with
          | some (rs, mn) => .ok (.var name rs mn)
          | none => .error .unsupported
  | c :: re =>
    if c = 58 ∧ !re.isEmpty ∧ !re.contains 10 then
      match lookupClass re with
      | some (rs, mn) => .ok (.var name rs mn)
      | none => .error .unsupported
    else .error .value       -- `"{" in part` → ValueError

def hasDupVar : List Part → List Str → Bool
  | [], _ => false
  | .lit _ :: ps, seen => hasDupVar ps seen
  | .var n _ _ :: ps, seen => seen.contains n || hasDupVar ps (n :: seen)

def compileToks (rq : List (Str × Str)) : List Tok → Except Err (List Part)
  | [] => .ok []
  | .brace inner :: ts => do
    let p ← classify inner
    let r ← compileToks rq ts
    pure (p :: r)
  | .text s :: ts =>
    if s.contains LB || s.contains RB then .error .value
    else match rq.find? (fun e => e.1 == s) with
      | none => .error .oracle
      | some e => do
        let r ← compileToks rq ts
        pure (.lit e.2 :: r)

/-- `DynamicResource.__init__`: the compiled pattern as a part list (`rq` = `_requote_path` oracle) -/
def compile (rq : List (Str × Str)) (path : Str) : Except Err (List Part) := do
  let ps ← compileToks rq (splitTemplate (path.length + 1) [] path)
  if hasDupVar ps [] then .error .value else pure ps   -- re.error "redefinition of group name"

/-- `DynamicResource._formatter` -/
def formatter : List Part → Str
  | [] => []
  | .lit s :: ps => s ++ formatter ps
  | .var n _ _ :: ps => [LB] ++ n ++ [RB] ++ formatter ps

/-- length of the longest prefix of `s` inside the class -/
def runLen (rs : List (Nat × Nat)) : Str → Nat
  | [] => 0
  | c :: t => if inRanges rs c then runLen rs t + 1 else 0

/-- greedy-with-backtracking choice of the length of one variable (longest first) -/
def tryLen (k : Str → Option Dict) (name s : Str) (mn : Nat) : Nat → Option Dict
  | 0 => if mn = 0 then (k s).map (fun d => (name, []) :: d) else none
  | n + 1 =>
    if n + 1 < mn then none
    else match k (s.drop (n + 1)) with
      | some d => some ((name, s.take (n + 1)) :: d)
      | none => tryLen k name s mn n

/-- `pattern.fullmatch(path).groupdict()` for the part-list pattern -/
def matchFrom : List Part → Str → Option Dict
  | [], s => if s.isEmpty then some [] else none
  | .lit l :: ps, s => if isPrefix l s then matchFrom ps (s.drop l.length) else none
  | .var n rs mn :: ps, s => tryLen (fun s' => matchFrom ps s') n s mn (runLen rs s)

/-- `DynamicResource._match` -/
def dynMatch (ps : List Part) (path : Str) : Option Dict :=
  (matchFrom ps path).map (fun d => d.map (fun kv => (kv.1, unquoteSafe kv.2)))

/-! ## resources, tables, requests -/

inductive Rule where
  | exact (domain : Str)            -- `Domain`
  | mask (pattern : Str)            -- `MaskDomain` (the original domain with `*`)
deriving Repr

mutual
inductive Res where
  | plain (path : Str) (routes : Routes)
  | dyn (orig : Str) (parts : List Part) (routes : Routes)
  | static (pfx : Str) (routes : Routes)
  | sub (pfx : Str) (t : Table)
  | dom (rule : Rule) (t : Table)
/-- `UrlDispatcher`: `_resources`, `_resource_index` (key ↦ positions in `_resources`),
`_matched_sub_app_resources` (positions) -/
inductive Table where
  | mk (rs : List Res) (index : List (Str × List Nat)) (matched : List Nat)
end

def Table.rs : Table → List Res | .mk rs _ _ => rs
def Table.index : Table → List (Str × List Nat) | .mk _ i _ => i
def Table.matched : Table → List Nat | .mk _ _ m => m
def Table.empty : Table := .mk [] [] []

structure Req where
  path : Str            -- `request.rel_url.path_safe` (yarl oracle)
  norm : Str            -- `os.path.normpath(path_safe)` (oracle)
  method : Str
  host : Option Str     -- Host header

inductive Result where
  | found (hid : Nat) (d : Dict)
  | e405 (allowed : List Str)
  | e404
  | nofuel
deriving Repr

/-- what one resource answers: a final verdict, or "not me" with its allowed methods -/
inductive Ans where
  | final (r : Result)
  | pass (allowed : List Str)
deriving Repr

def Routes.lookup (rts : Routes) (m : Str) : Option Nat :=
  match rts.find? (fun r => r.1 == m) with
  | some r => some r.2
  | none => (rts.find? (fun r => r.1 == STAR)).map (·.2)

def Routes.allowed (rts : Routes) : List Str := rts.map (·.1)

/-- `Resource.resolve` after `_match` gave `md` -/
def ansRoutes (rts : Routes) (md : Option Dict) (m : Str) : Ans :=
  match md with
  | none => .pass []
  | some d =>
    match rts.lookup m with
    | some h => .final (.found h d)
    | none => .pass rts.allowed

def canonical : Res → Str
  | .plain p _ => p
  | .dyn _ ps _ => formatter ps
  | .static p _ => p
  | .sub p _ => p
  | .dom (.exact d) _ => d
  | .dom (.mask d) _ => d       -- (the mask regex text; never used as a key that is looked up)

def keyOf (r : Res) : Str := indexKey (canonical r)

def isDom : Res → Bool
  | .dom _ _ => true
  | _ => false

/-- `norm_path.startswith(prefix + "/") or norm_path == prefix` -/
def underPrefix (pfx p : Str) : Bool := p == pfx || isPrefix (pfx ++ [SL]) p

def FILENAME : Str := [102, 105, 108, 101, 110, 97, 109, 101]  -- "filename"

/-- answer of the leaf resources (plain / dynamic / static) -/
def ansLeaf (r : Res) (q : Req) : Ans :=
  match r with
  | .plain p rts => ansRoutes rts (if p == q.path then some [] else none) q.method
  | .dyn _ ps rts => ansRoutes rts (dynMatch ps q.path) q.method
  | .static pfx rts =>
    if !underPrefix pfx q.norm then .pass []
    else match rts.find? (fun r => r.1 == q.method) with
      | some r => .final (.found r.2 [(FILENAME, unquoteSafe (q.path.drop (pfx.length + 1)))])
      | none => .pass rts.allowed
  | _ => .pass []

def lower (s : Str) : Str := s.map (fun c => if 65 ≤ c ∧ c ≤ 90 then c + 32 else c)

/-- try every split point for one `*` (longest remainder skipped first, as `.*` backtracks) -/
def starLoop (k : Str → Bool) (s : Str) : Nat → Bool
  | 0 => k s
  | n + 1 => k (s.drop (n + 1)) || starLoop k s n

/-- `fullmatch` of a `*`-glob (`MaskDomain._mask`: `.` escaped, `*` → `.*`) -/
def globMatch : Str → Str → Bool
  | [], s => s.isEmpty
  | c :: pt, s =>
    if c = 42 then starLoop (fun s' => globMatch pt s') s s.length
    else match s with
      | [] => false
      | d :: st => c == d && globMatch pt st

/-- the character class of `.` as Python `re` sees it (generated: regex text `.*`) -/
def dotClass : List (Nat × Nat) :=
  match lookupClass [46, 42] with
  | some (rs, _) => rs
  | none => []

/-- `Domain.match` / `MaskDomain.match_domain`: the mask regex (`.` escaped, `*` → `.*`) must match
the **whole** host (`fullmatch`); the literal characters of a validated domain are `[a-z0-9.:*-]`,
all inside the class of `.`, so "every `*` run avoids what `.` rejects" is "no host character is
outside the class of `.`" -/
def ruleMatch (rule : Rule) (host : Option Str) : Bool :=
  match host with
  | none => false
  | some h =>
    if h.isEmpty then false else
    match rule with
    | .exact d => lower h == d
    | .mask d => globMatch d h && h.all (inRanges dotClass)

/-- first `final` wins; otherwise 405 with everything accumulated, or 404 -/
def combine : List Ans → List Str → Result
  | [], acc => if acc.isEmpty then .e404 else .e405 acc
  | .final r :: _, _ => r
  | .pass a :: rest, acc => combine rest (acc ++ a)

/-- `candidate.resolve(request)` as called from `UrlDispatcher.resolve` (no prefix check for
sub-apps: `PrefixedSubAppResource.resolve` delegates unconditionally); `rec` = the sub-router -/
def ansWith (rec : Table → Req → Result) (r : Res) (q : Req) : Ans :=
  match r with
  | .sub _ t => .final (rec t q)
  | .dom rule t => if ruleMatch rule q.host then .final (rec t q) else .pass []
  | r => ansLeaf r q

def bucketOf (index : List (Str × List Nat)) (k : Str) : List Nat :=
  match index.find? (fun e => e.1 == k) with
  | some e => e.2
  | none => []

def atPositions (rs : List Res) (is : List Nat) : List Res := is.filterMap (fun i => rs[i]?)

/-- `UrlDispatcher.resolve` (`fuel` bounds sub-application nesting) -/
def resolve : Nat → Table → Req → Result
  | 0, _, _ => .nofuel
  | f + 1, t, q =>
    let doms := (atPositions t.rs t.matched).map (fun r => ansWith (resolve f) r q)
    let buckets := (walk q.path).flatMap (fun k =>
      (atPositions t.rs (bucketOf t.index k)).map (fun r => ansWith (resolve f) r q))
    combine (doms ++ buckets) []

/-! ## the specification: the documented lookup rule, without any index -/

/-- `n-1, …, 0` -/
def descFrom : Nat → List Nat
  | 0 => []
  | n + 1 => n :: descFrom n
/-- `n, n-1, …, 0` -/
def descRange (n : Nat) : List Nat := descFrom (n + 1)

/-- what a resource answers by the documentation: leaf resources by their own path/method
match; a prefixed sub-application takes over iff the path is its prefix or lies under it;
a static resource serves the paths under its prefix (that stay under it when normalised). -/
def ansSpecWith (rec : Table → Req → Result) (r : Res) (q : Req) : Ans :=
  match r with
  | .sub pfx t => if underPrefix pfx q.path then .final (rec t q) else .pass []
  | .dom rule t => if ruleMatch rule q.host then .final (rec t q) else .pass []
  | .static pfx rts => if underPrefix pfx q.path then ansLeaf (.static pfx rts) q else .pass []
  | r => ansLeaf r q

/-- **Linear reference rule.** Domain-matched sub-applications first (registration order);
then *every* other resource, ordered by length of its fixed prefix (longest first) and by
registration order among equals; the first resource that accepts path and method wins;
otherwise 405 with all methods of the path-matching resources, or 404. -/
def linear : Nat → Table → Req → Result
  | 0, _, _ => .nofuel
  | f + 1, t, q =>
    let doms := (t.rs.filter isDom).map (fun r => ansSpecWith (linear f) r q)
    let rest := (descRange q.path.length).flatMap (fun n =>
      (t.rs.filter (fun r => !isDom r && (keyOf r).length == n)).map (fun r => ansSpecWith (linear f) r q))
    combine (doms ++ rest) []

/-! ## registration -/

/-- `self._resource_index.setdefault(key, []).append(resource)` -/
def indexAdd : List (Str × List Nat) → Str → Nat → List (Str × List Nat)
  | [], k, i => [(k, [i])]
  | e :: es, k, i => if e.1 == k then (e.1, e.2 ++ [i]) :: es else e :: indexAdd es k i

/-- `self._resource_index[key].remove(resource)` -/
def indexRemove : List (Str × List Nat) → Str → Nat → Except Err (List (Str × List Nat))
  | [], _, _ => .error .key
  | e :: es, k, i =>
    if e.1 == k then
      if e.2.contains i then .ok ((e.1, e.2.erase i) :: es) else .error .value
    else (indexRemove es k i).map (e :: ·)

/-- `UrlDispatcher.register_resource` (names are not modelled) -/
def Table.register (t : Table) (r : Res) : Table :=
  if isDom r then .mk (t.rs ++ [r]) t.index (t.matched ++ [t.rs.length])
  else .mk (t.rs ++ [r]) (indexAdd t.index (keyOf r) t.rs.length) t.matched

/-- `resource.raw_match(path)` -/
def rawMatch : Res → Str → Bool
  | .plain p _, path => p == path
  | .dyn orig _ _, path => orig == path
  | _, _ => false

def Res.routes : Res → Routes
  | .plain _ r => r
  | .dyn _ _ r => r
  | .static _ r => r
  | _ => []

def Res.withRoutes : Res → Routes → Res
  | .plain p _, r => .plain p r
  | .dyn o ps _, r => .dyn o ps r
  | .static p _, r => .static p r
  | x, _ => x

/-- `Resource.add_route` conflict test: `self._routes.get(method, self._any_route)` -/
def routeConflict (rts : Routes) (m : Str) : Bool := (rts.lookup m).isSome

/-- `UrlDispatcher.add_route(method, path, handler)` = `add_resource(path)` + `Resource.add_route` -/
def addRoute (rq : List (Str × Str)) (t : Table) (m path : Str) (hid : Nat) : Except Err Table :=
  if !path.isEmpty && path.head? != some SL then .error .value else
  match t.rs.getLast? with
  | some last =>
    if rawMatch last path then
      if routeConflict last.routes m then .error .runtime
      else .ok (.mk (t.rs.dropLast ++ [last.withRoutes (last.routes ++ [(m, hid)])]) t.index t.matched)
    else fresh
  | none => fresh
where
  fresh : Except Err Table :=
    if !(path.contains LB || path.contains RB) then .ok (t.register (.plain path [(m, hid)]))
    else do
      let ps ← compile rq path
      pure (t.register (.dyn path ps [(m, hid)]))

def GETHEAD (hid : Nat) : Routes := [([71, 69, 84], hid), ([72, 69, 65, 68], hid + 1)]

/-- `UrlDispatcher.add_static(prefix, dir)`; `q` = `_requote_path(prefix')` -/
def addStatic (t : Table) (pfx q : Str) (hid : Nat) : Except Err Table :=
  if pfx.head? != some SL then .error .assertion else
  let p := if pfx.getLast? == some SL then pfx.dropLast else pfx
  if !(p.isEmpty || p == [SL] || p.getLast? != some SL) then .error .assertion
  else .ok (t.register (.static q (GETHEAD hid)))

def prefixOk (pfx : Str) : Bool := pfx.head? == some SL && pfx.getLast? != some SL && pfx.length > 1

/-- `PrefixedSubAppResource._add_prefix_to_resources`: for every resource from position `i` on:
unindex, `add_prefix` (= `g`), index.  `n` bounds the iterations. -/
def prefixLoop (g : Res → Except Err Res) : Nat → Table → Nat → Except Err Table
  | 0, t, _ => .ok t
  | n + 1, t, i =>
    match t.rs[i]? with
    | none => .ok t
    | some r =>
      match indexRemove t.index (keyOf r) i with
      | .error e => .error e
      | .ok idx =>
        match g r with
        | .error e => .error e
        | .ok r' =>
          prefixLoop g n (.mk (t.rs.set i r') (indexAdd idx (keyOf r') i) t.matched) (i + 1)

/-- `resource.add_prefix(prefix)` -/
def addPrefixRes : Nat → Str → Res → Except Err Res
  | 0, _, _ => .error .fuel
  | f + 1, pfx, r =>
    if !prefixOk pfx then .error .assertion else
    match r with
    | .plain p rts => .ok (.plain (pfx ++ p) rts)
    | .dyn o ps rts => .ok (.dyn o (.lit pfx :: ps) rts)
    | .static p rts => .ok (.static (pfx ++ p) rts)
    | .sub p t => (prefixLoop (addPrefixRes f pfx) t.rs.length t 0).map (fun t' => .sub (pfx ++ p) t')
    | .dom rule t => (prefixLoop (addPrefixRes f pfx) t.rs.length t 0).map (fun t' => .dom rule t')

def addPrefixTable (fuel : Nat) (pfx : Str) (t : Table) : Except Err Table :=
  prefixLoop (addPrefixRes fuel pfx) t.rs.length t 0

/-- `PlainResource.freeze`: the empty path becomes `/` -/
def freezeRes : Res → Res
  | .plain p rts => .plain (if p.isEmpty then [SL] else p) rts
  | r => r

/-- `UrlDispatcher.freeze` (called through `Application.pre_freeze` when an application is
mounted, and through `Application.freeze` before serving) -/
def Table.freeze (t : Table) : Table := .mk (t.rs.map freezeRes) t.index t.matched

/-- `Application.add_subapp(prefix, subapp)`; `q` = `_requote_path(prefix.rstrip("/"))` -/
def addSubapp (fuel : Nat) (t : Table) (pfx q : Str) (s : Table) : Except Err Table :=
  let p := rstripSlash pfx
  if p.isEmpty then .error .value
  else if p.head? != some SL then .error .assertion
  else do
    let s' ← addPrefixTable fuel p s
    pure (t.register (.sub q s'.freeze))

/-- `Application.add_domain(domain, subapp)` (`rule` already validated: oracle); the sub-application
is pre-frozen -/
def addDomain (t : Table) (rule : Rule) (s : Table) : Table := t.register (.dom rule s.freeze)

/-! ## registration on frozen applications (rejected operations change nothing) -/

/-- `add_resource` would hand back the last resource instead of registering a new one -/
def willReuse (t : Table) (path : Str) : Bool :=
  match t.rs.getLast? with
  | some last => rawMatch last path
  | none => false

/-- `add_route` on a possibly frozen router: `register_resource` raises RuntimeError when the
router is frozen (after the resource object was built, so template errors come first); re-using the
last resource registers nothing and is therefore *not* refused -/
def addRouteOn (frozen : Bool) (rq : List (Str × Str)) (t : Table) (m path : Str) (hid : Nat) :
    Except Err Table :=
  match addRoute rq t m path hid with
  | .error e => .error e
  | .ok t' => if frozen && !willReuse t path then .error .runtime else .ok t'

/-- `add_static` on a possibly frozen router -/
def addStaticOn (frozen : Bool) (t : Table) (pfx q : Str) (hid : Nat) : Except Err Table :=
  match addStatic t pfx q hid with
  | .error e => .error e
  | .ok t' => if frozen then .error .runtime else .ok t'

/-- `Application.add_subapp` with the `frozen` guards of `_add_subapp`: the empty-prefix ValueError
comes first, then "Cannot add sub application to frozen application" — **before** the
`PrefixedSubAppResource` is built, i.e. before the sub-application's resources are prefixed.
The result is a value: a rejected mount leaves parent and sub-application as they were. -/
def addSubappOn (parentFrozen : Bool) (fuel : Nat) (t : Table) (pfx q : Str) (s : Table) :
    Except Err Table :=
  if (rstripSlash pfx).isEmpty then .error .value
  else if parentFrozen then .error .runtime
  else addSubapp fuel t pfx q s

/-- `Application.add_domain` on a possibly frozen application -/
def addDomainOn (parentFrozen : Bool) (t : Table) (rule : Rule) (s : Table) : Except Err Table :=
  if parentFrozen then .error .runtime else .ok (addDomain t rule s)

/-! ## class-based views -/

/-- `View._raise_allowed_methods`: the standard methods (`hdrs.METH_ALL`) the class defines -/
def viewAllowed (defined : List Str) : List Str := Gen.C14.methAll.filter (fun m => defined.contains m)

/-- position of `m` in a list (the view's handler for `m` gets id `hid + 1 + position`) -/
def idxOf (m : Str) : List Str → Nat
  | [] => 0
  | x :: xs => if x == m then 0 else idxOf m xs + 1

/-- `View._iter` for a view registered with `add_view` (route method `*`) as handler `hid`;
`defined` = the standard methods for which the class has a (lower-case) coroutine attribute.
A method outside `hdrs.METH_ALL` is refused *before* any attribute lookup; an undefined one after. -/
def viewDispatch (defined : List Str) (hid : Nat) (d : Dict) (m : Str) : Result :=
  if !Gen.C14.methAll.contains m then .e405 (viewAllowed defined)
  else if defined.contains m then .found (hid + 1 + idxOf m Gen.C14.methAll) d
  else .e405 (viewAllowed defined)

/-- what the client gets: the router's answer, and for a found class-based view the view's own -/
def afterView (views : List (Nat × List Str)) (m : Str) (r : Result) : Result :=
  match r with
  | .found h d =>
    match views.find? (fun v => v.1 == h) with
    | some v => viewDispatch v.2 h d m
    | none => r
  | r => r

/-! ## url_for -/

/-- `self._formatter.format_map({k: _quote_path(v)})`; `vals` = (name, quoted value) -/
def urlFor (ps : List Part) (vals : List (Str × Str)) : Except Err Str :=
  match ps with
  | [] => .ok []
  | .lit s :: r => (urlFor r vals).map (s ++ ·)
  | .var n _ _ :: r =>
    match vals.find? (fun e => e.1 == n) with
    | none => .error .key
    | some e => (urlFor r vals).map (e.2 ++ ·)

/-! ## normalize_path_middleware -/

/-- `re.sub("//+", "/", path)` -/
def mergeSlashes : Str → Str
  | [] => []
  | [c] => [c]
  | a :: rest@(b :: _) => if a = SL ∧ b = SL then mergeSlashes rest else a :: mergeSlashes rest

/-- `re.sub("^//+", "/", path)` -/
def stripLeadSlashes (s : Str) : Str :=
  match s with
  | a :: b :: t => if a = SL ∧ b = SL then SL :: t.dropWhile (· = SL) else s
  | _ => s

structure MwFlags where
  append : Bool
  remove : Bool
  merge : Bool

/-- the `paths_to_check` list after the `^//+` sanitising; `path` = raw path without query,
`endsSlash` = `request.path.endswith("/")` (decoded path: oracle) -/
def mwCandidates (fl : MwFlags) (path : Str) (endsSlash : Bool) : List Str :=
  let c1 := if fl.merge then [mergeSlashes path] else []
  let c2 := if fl.append && !endsSlash then [path ++ [SL]] else []
  let c3 := if fl.remove && endsSlash then [path.dropLast] else []
  let c4 := if fl.merge && fl.append then [mergeSlashes (path ++ [SL])] else []
  let c5 := if fl.merge && fl.remove && path.getLast? == some SL then [(mergeSlashes path).dropLast] else []
  (c1 ++ c2 ++ c3 ++ c4 ++ c5).map stripLeadSlashes

end Aio.C14
