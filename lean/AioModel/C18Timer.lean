/-!
# C18 — `helpers.TimerContext` as a state machine over the task's cancel counter

One task enters the context (possibly nested `depth` times, as `ClientSession._request` →
`ClientResponse.start` do), parks on a future, and before it runs again any sequence of
* `fire`  — `TimerContext.timeout()`: first call cancels every task inside and sets `_cancelled`,
* `ext`   — somebody else calls `Task.cancel()`
happens (all within the window before the task resumes: a pending cancellation is delivered as
`CancelledError` at the await).  Then every `__exit__` runs, innermost first.

* `TC.enter`  = `__enter__`:  `self._cancelling = task.cancelling()` (one attribute, overwritten by a nested enter)
* `TC.op`     = `timeout()` / `Task.cancel()`
* `TC.exit1`  = `__exit__` for `CancelledError`: only if `_cancelled`: `if task.uncancel() > self._cancelling:
                return None  else: raise TimeoutError`
-/
namespace Aio.C18

inductive TOp where | fire | ext
deriving Repr, DecidableEq

structure TC where
  count : Nat            -- Task.cancelling()
  base : Nat := 0        -- TimerContext._cancelling
  fired : Bool := false  -- TimerContext._cancelled
deriving Repr, DecidableEq

inductive TRes where | result | timeout | cancelled
deriving Repr, DecidableEq

def TC.enter (s : TC) : TC := { s with base := s.count }

def TC.op (s : TC) : TOp → TC
  | .fire => if s.fired then s else { s with fired := true, count := s.count + 1 }
  | .ext => { s with count := s.count + 1 }

/-- one `__exit__` with exception state `r` -/
def TC.exit1 (s : TC) (r : TRes) : TC × TRes :=
  if r = .cancelled ∧ s.fired then
    let n := s.count - 1          -- uncancel()
    if n > s.base then ({ s with count := n }, .cancelled) else ({ s with count := n }, .timeout)
  else (s, r)

def TC.exits (s : TC) (r : TRes) : Nat → TC × TRes
  | 0 => (s, r)
  | d + 1 => let x := s.exit1 r; TC.exits x.1 x.2 d

/-- enter `depth` times with `c` earlier handled cancellations, let `ops` happen, resume, leave -/
def tcRun (c : Nat) (depth : Nat) (ops : List TOp) : TRes × Nat :=
  let s : TC := (List.range depth).foldl (fun s _ => s.enter) { count := c }
  let s := ops.foldl TC.op s
  -- some `Task.cancel()` happened while parked ⇒ `CancelledError` is thrown at the await
  let x := TC.exits s (if s.count > c then .cancelled else .result) depth
  (x.2, x.1.count)

end Aio.C18
