import AioModel.Basic
import AioModel.Utf8
import AioModel.Generated.C04
/-!
# C04 model — `aiohttp/http_writer.py`

* `serialize`      = `_py_serialize_headers` (+ `_safe_header`)
* `W`, `step`      = `StreamWriter` (`write_headers`, `send_headers`, `write`, `write_eof`,
                     `set_eof`, `enable_chunking`, `enable_compression`, `length`)
* `decodeChunked`  = reference RFC 9112 §7.1 chunked decoder (no extensions, no trailers),
                     the *specification* the writer's output is measured against.

The compressor (zlib) is not modelled: every `write`/`write_eof` op carries the bytes the
real compressor returned for that call as an oracle column (`cz`, `flush`).
-/
namespace Aio.C04
open Aio

def forbidden (c : Nat) : Bool := Gen.C04.forbiddenRanges.any (fun r => r.1 ≤ c && c ≤ r.2)
/-- `_safe_header` succeeds -/
def safeHeader (s : Str) : Bool := !s.any forbidden

inductive HErr where
  | forbidden   -- ValueError("Forbidden control character …")
  | encode      -- UnicodeEncodeError (lone surrogate)
deriving Repr, DecidableEq

def headerLine (kv : Str × Str) : Str := kv.1 ++ [58, 32] ++ kv.2

/-- `"\r\n".join(lines)` -/
def joinCRLF : List Str → Str
  | [] => []
  | [l] => l
  | l :: ls => l ++ [13, 10] ++ joinCRLF ls

def serializeStr (status : Str) (hs : List (Str × Str)) : Str :=
  status ++ [13, 10] ++ joinCRLF (hs.map headerLine) ++ [13, 10, 13, 10]

/-- `_py_serialize_headers(status_line, headers)` -/
def serialize (status : Str) (hs : List (Str × Str)) : Except HErr Bytes :=
  if !safeHeader status then .error .forbidden
  else if hs.any (fun kv => !safeHeader kv.1 || !safeHeader kv.2) then .error .forbidden
  else match utf8 (serializeStr status hs) with
    | some bs => .ok bs
    | none => .error .encode

/-! ## StreamWriter -/

structure W where
  length : Option Nat := none
  chunked : Bool := false
  eof : Bool := false
  headersBuf : Option Bytes := none
  headersWritten : Bool := false
  compress : Bool := false
  closing : Bool := false          -- transport is None / is_closing()
  out : Bytes := []                -- concatenation of everything handed to the transport
deriving Repr

inductive WErr where
  | header (e : HErr)
  | reset          -- ClientConnectionResetError
  | assertion      -- `assert chunks_len` in the compressed write_eof
deriving Repr, DecidableEq

inductive Op where
  | writeHeaders (status : Str) (hs : List (Str × Str))
  | sendHeaders
  | write (chunk : Bytes) (cz : Bytes)             -- cz: compressor output for this call
  | writeEof (chunk : Bytes) (cz flush : Bytes)    -- cz, flush: compressor outputs
  | setEof
  | enableChunking
  | enableCompression
  | setLength (n : Option Nat)
  | closeTransport
deriving Repr

/-- `_write` / `_writelines` (only the concatenation is modelled) -/
def emit (w : W) (bs : Bytes) : W × Option WErr :=
  if w.closing then (w, some .reset) else ({ w with out := w.out ++ bs }, none)

def chunkFrame (chunk : Bytes) : Bytes := toHex chunk.length ++ CRLF ++ chunk ++ CRLF
/-- `b"0\r\n\r\n"` -/
def lastChunk : Bytes := [48, 13, 10, 13, 10]

def pendingHeaders (w : W) : Option Bytes :=
  match w.headersBuf with
  | some hb => if !hb.isEmpty && !w.headersWritten then some hb else none
  | none => none

/-- `_send_headers_with_payload` -/
def sendHeadersWithPayload (w : W) (hb chunk : Bytes) (isEof : Bool) : W × Option WErr :=
  let w := { w with headersWritten := true, headersBuf := none }
  if !w.chunked then emit w (hb ++ chunk)
  else if !chunk.isEmpty then
    if isEof then emit w (hb ++ toHex chunk.length ++ CRLF ++ chunk ++ CRLF ++ lastChunk)
    else emit w (hb ++ chunkFrame chunk)
  else if isEof then emit w (hb ++ lastChunk)
  else emit w hb

def doWrite (w : W) (chunk cz : Bytes) : W × Option WErr :=
  let chunk := if w.compress then cz else chunk
  if w.compress && chunk.isEmpty then (w, none) else
  -- length accounting
  let (w, chunk, stop) :=
    match w.length with
    | none => (w, chunk, false)
    | some l =>
      if l ≥ chunk.length then ({ w with length := some (l - chunk.length) }, chunk, false)
      else
        let c := chunk.take l
        ({ w with length := some 0 }, c, c.isEmpty)
  if stop then (w, none) else
  match pendingHeaders w with
  | some hb => sendHeadersWithPayload w hb chunk false
  | none =>
    if chunk.isEmpty then (w, none)
    else if w.chunked then emit w (chunkFrame chunk) else emit w chunk

def doSetEof (w : W) : W × Option WErr :=
  if w.eof then (w, none) else
  match pendingHeaders w with
  | some hb =>
    let w := { w with headersWritten := true, headersBuf := none }
    let (w, e) := if w.chunked then emit w (hb ++ lastChunk) else emit w hb
    match e with
    | some e => (w, some e)
    | none => ({ w with eof := true }, none)
  | none =>
    if w.chunked && w.headersWritten then
      let (w, e) := emit w lastChunk
      match e with
      | some e => (w, some e)
      | none => ({ w with eof := true }, none)
    else ({ w with eof := true }, none)

def doWriteEof (w : W) (chunk cz flush : Bytes) : W × Option WErr :=
  if w.eof then (w, none) else
  if w.compress then
    let cz := if chunk.isEmpty then [] else cz
    let body := cz ++ flush
    if body.isEmpty then (w, some .assertion) else
    let (w, e) :=
      match pendingHeaders w with
      | some hb =>
        let w := { w with headersWritten := true, headersBuf := none }
        if w.chunked then emit w (hb ++ toHex body.length ++ CRLF ++ body ++ CRLF ++ lastChunk)
        else emit w (hb ++ body)
      | none =>
        if w.chunked then emit w (toHex body.length ++ CRLF ++ body ++ CRLF ++ lastChunk)
        else emit w body
    match e with
    | some e => (w, some e)
    | none => ({ w with eof := true }, none)
  else
    match pendingHeaders w with
    | some hb =>
      let (w, e) := sendHeadersWithPayload w hb chunk true
      match e with
      | some e => (w, some e)
      | none => ({ w with eof := true }, none)
    | none =>
      if w.chunked then
        let (w, e) :=
          if !chunk.isEmpty then emit w (toHex chunk.length ++ CRLF ++ chunk ++ CRLF ++ lastChunk)
          else emit w lastChunk
        match e with
        | some e => (w, some e)
        | none => ({ w with eof := true }, none)
      else if !chunk.isEmpty then
        let (w, e) := emit w chunk
        match e with
        | some e => (w, some e)
        | none => ({ w with eof := true }, none)
      else ({ w with eof := true }, none)

def step (w : W) : Op → W × Option WErr
  | .writeHeaders status hs =>
    match serialize status hs with
    | .error e => (w, some (.header e))
    | .ok buf => ({ w with headersWritten := false, headersBuf := some buf }, none)
  | .sendHeaders =>
    match pendingHeaders w with
    | some hb => emit { w with headersWritten := true, headersBuf := none } hb
    | none => (w, none)
  | .write chunk cz => doWrite w chunk cz
  | .writeEof chunk cz flush => doWriteEof w chunk cz flush
  | .setEof => doSetEof w
  | .enableChunking => ({ w with chunked := true }, none)
  | .enableCompression => ({ w with compress := true }, none)
  | .setLength n => ({ w with length := n }, none)
  | .closeTransport => ({ w with closing := true }, none)

/-- run a program; errors are recorded per op, execution continues (as a caller catching
the exception would observe) -/
def run (w : W) : List Op → W × List (Option WErr)
  | [] => (w, [])
  | op :: ops =>
    let (w', e) := step w op
    let (w'', es) := run w' ops
    (w'', e :: es)

/-! ## Reference chunked decoder (specification side) -/

/-- split at the first CRLF: `(line, rest-after-CRLF)` -/
def cutCRLF : Bytes → Option (Bytes × Bytes)
  | [] => none
  | [_] => none
  | a :: b :: t =>
    if a = 13 ∧ b = 10 then some ([], t)
    else match cutCRLF (b :: t) with
      | some (l, r) => some (a :: l, r)
      | none => none

/-- strict chunked body → `(data, bytes after the terminating CRLF)` -/
def decodeChunked : Nat → Bytes → Option (Bytes × Bytes)
  | 0, _ => none
  | fuel + 1, bs =>
    match cutCRLF bs with
    | none => none
    | some (line, rest) =>
      match ofHex line with
      | none => none
      | some 0 =>
        match rest with
        | 13 :: 10 :: r => some ([], r)
        | _ => none
      | some n =>
        if rest.length < n + 2 then none else
        let data := rest.take n
        match rest.drop n with
        | 13 :: 10 :: r =>
          match decodeChunked fuel r with
          | some (d, r') => some (data ++ d, r')
          | none => none
        | _ => none

/-- split a header block into lines at CRLF -/
def splitCRLF : Bytes → Bytes → List Bytes
  | [], cur => [cur.reverse]
  | [b], cur => [(b :: cur).reverse]
  | a :: b :: t, cur =>
    if a = 13 ∧ b = 10 then cur.reverse :: splitCRLF t []
    else splitCRLF (b :: t) (a :: cur)

end Aio.C04
