import AioModel.Basic
import AioModel.Generated.Http
/-!
# AioModel.Http — the pure-Python HTTP/1 parser (`aiohttp/http_parser.py`)

Shared by C01 (framing), C03 (segmentation independence), C10 (totality and limits).

* `parseHeaderLines`  = `HeadersParser.parse_headers`            (strict and lax)
* `interpretHeaders`  = `HttpParser.parse_headers`               (Connection / encoding / TE+CL)
* `parseRequestLine` + `parseRequest`   = `HttpRequestParser.parse_message`
* `parseResponse`     = `HttpResponseParser.parse_message`
* `payloadFeed`       = `HttpPayloadParser.feed_data`            (length / chunked / until-eof)
* `feed`              = `HttpParser.feed_data`  (the loop over `tail + data`)
* `feedEof`           = `HttpParser.feed_eof`

Header bytes stay bytes: every test the code makes on the `utf-8/surrogateescape`-decoded
text concerns code points `< 0x80`, which that decoding maps 1:1 (a byte `≥ 0x80` never
decodes to a code point `< 0x80`).  The one exception — `str.lower()` without `isascii()` in
`HttpResponseParser._is_chunked_te` (U+212A KELVIN SIGN lowers to `k`) — is modelled.

Not modelled here (see DESIGN): `yarl` (an oracle `urlOk`), decompression (`auto_decompress`
off; C09), the reader's back-pressure pause (`_paused`, `_more_data_available`; C09),
the pipelining queue cap (`max_msg_queue_size = 0`; C05).
-/
namespace Aio.Http
open Aio

def inRanges (rs : List (Nat × Nat)) (b : UInt8) : Bool := rs.any (fun r => r.1 ≤ b.toNat && b.toNat ≤ r.2)

def isTchar (b : UInt8) : Bool := inRanges Gen.Http.tcharRanges b
def isToken (bs : Bytes) : Bool := !bs.isEmpty && bs.all isTchar
def valueForbidden (b : UInt8) : Bool := inRanges Gen.Http.valueForbiddenRanges b
def targetForbidden (b : UInt8) : Bool := inRanges Gen.Http.targetForbiddenRanges b
def isDigitB (b : UInt8) : Bool := inRanges Gen.Http.digitRanges b
def isHexB (b : UInt8) : Bool := inRanges Gen.Http.hexRanges b
def isVersDigit (b : UInt8) : Bool := inRanges Gen.Http.versDigitRanges b
def isOWS (b : UInt8) : Bool := b == 32 || b == 9

def lowerB (b : UInt8) : UInt8 := if 65 ≤ b.toNat ∧ b.toNat ≤ 90 then b + 32 else b
def upperB (b : UInt8) : UInt8 := if 97 ≤ b.toNat ∧ b.toNat ≤ 122 then b - 32 else b
def lower (bs : Bytes) : Bytes := bs.map lowerB
def upper (bs : Bytes) : Bytes := bs.map upperB
def isAscii (bs : Bytes) : Bool := bs.all (fun b => b.toNat < 128)
def ofNats (l : List Nat) : Bytes := l.map (·.toUInt8)

def lstrip (p : UInt8 → Bool) : Bytes → Bytes
  | [] => []
  | b :: t => if p b then lstrip p t else b :: t
def rstrip (p : UInt8 → Bool) (bs : Bytes) : Bytes := (lstrip p bs.reverse).reverse
def strip (p : UInt8 → Bool) (bs : Bytes) : Bytes := rstrip p (lstrip p bs)

/-- split at the first occurrence of byte `c`: `(before, after)`; `none` if absent -/
def cut1 (c : UInt8) : Bytes → Option (Bytes × Bytes)
  | [] => none
  | b :: t => if b = c then some ([], t) else
    match cut1 c t with
    | some (x, y) => some (b :: x, y)
    | none => none

/-- `bs.split(c)` (every occurrence) -/
def splitAll (c : UInt8) : Bytes → List Bytes
  | [] => [[]]
  | b :: t =>
    if b = c then [] :: splitAll c t
    else match splitAll c t with
      | [] => [[b]]
      | x :: xs => (b :: x) :: xs

/-- index of the first CRLF -/
def findCRLF : Bytes → Option Nat
  | [] => none
  | [_] => none
  | a :: b :: t => if a = 13 ∧ b = 10 then some 0 else (findCRLF (b :: t)).map (· + 1)

def findByte (c : UInt8) : Bytes → Option Nat
  | [] => none
  | b :: t => if b = c then some 0 else (findByte c t).map (· + 1)

/-! ## errors (exception classes of `aiohttp.http_exceptions`) -/
inductive Err where
  | badHttpMessage | badHttpMethod | badStatusLine | invalidHeader | invalidURL
  | lineTooLong | transferEncoding | contentLength
deriving Repr, DecidableEq, BEq

def Err.name : Err → String
  | .badHttpMessage => "BadHttpMessage" | .badHttpMethod => "BadHttpMethod"
  | .badStatusLine => "BadStatusLine" | .invalidHeader => "InvalidHeader"
  | .invalidURL => "InvalidURLError" | .lineTooLong => "LineTooLong"
  | .transferEncoding => "TransferEncodingError" | .contentLength => "ContentLengthError"

/-! ## configuration -/
structure Cfg where
  maxLine : Nat := 8190
  maxField : Nat := 8190
  maxHeaders : Nat := 128
  /-- response parser (status line, lax mode when `lax`) instead of request parser -/
  response : Bool := false
  /-- lax mode: SEP = LF, obs-fold accepted, lax chunk sizes (response parser unless DEBUG) -/
  lax : Bool := false
  /-- `read_until_eof` (client) -/
  readUntilEof : Bool := false
  /-- `response_with_body` -/
  withBody : Bool := true
  /-- the `method` the response parser was configured with (client side); `[]` = None -/
  respMethod : Bytes := []
deriving Repr

/-! ## HeadersParser.parse_headers -/

def hasName (hs : List (Bytes × Bytes)) (lname : Bytes) : Bool := hs.any (fun kv => lower kv.1 == lname)
/-- `", ".join(vs)` -/
def joinCommaSp : List Bytes → Bytes
  | [] => []
  | [v] => v
  | v :: vs => v ++ [44, 32] ++ joinCommaSp vs

/-- `headers.get(name)` on a `HeadersDictProxy`: all values of that name (case-insensitive),
joined with `", "`; `none` if the name is absent -/
def getHeader (hs : List (Bytes × Bytes)) (lname : Bytes) : Option Bytes :=
  match (hs.filter (fun kv => lower kv.1 == lname)).map (·.2) with
  | [] => none
  | vs => some (joinCommaSp vs)

def isSingleton (lname : Bytes) : Bool := Gen.Http.singletonHeaders.any (fun s => ofNats s == lname)

/-- take the obs-fold continuation lines following a field line (lax only):
returns `(joined continuation bytes, remaining lines)` or an error when the folded field
outgrows `maxField` -/
def takeCont (maxField : Nat) : Nat → List Bytes → Nat → List Bytes → Except Err (List Bytes × List Bytes)
  | 0, rest, _, acc => .ok (acc.reverse, rest)
  | fuel + 1, rest, len, acc =>
    match rest with
    | [] => .ok (acc.reverse, [])
    | l :: more =>
      match l with
      | [] => .ok (acc.reverse, rest)
      | c :: _ =>
        if isOWS c then
          let len' := len + l.length
          if len' > maxField then .error .lineTooLong
          else takeCont maxField fuel more len' (l :: acc)
        else .ok (acc.reverse, rest)

/-- `HeadersParser.parse_headers(lines)`; `lines` ends with the empty line -/
def parseHeaderLines (lax : Bool) (maxField : Nat) : Nat → List Bytes → List (Bytes × Bytes) →
    Except Err (List (Bytes × Bytes))
  | 0, _, acc => .ok acc.reverse
  | fuel + 1, lines, acc =>
    match lines with
    | [] => .ok acc.reverse
    | line :: rest =>
      if line.isEmpty then .ok acc.reverse else
      match cut1 58 line with
      | none => .error .invalidHeader
      | some (bname, bvalue) =>
        if bname.isEmpty then .error .invalidHeader else
        if isOWS (bname.head!) || isOWS (bname.getLast!) then .error .invalidHeader else
        let bvalue := lstrip isOWS bvalue
        if !isToken bname then .error .invalidHeader else
        -- continuation lines (lax only)
        let contR : Except Err (List Bytes × List Bytes) :=
          if lax then
            match rest with
            | (c :: _) :: _ => if isOWS c then takeCont maxField rest.length rest bvalue.length [] else .ok ([], rest)
            | _ => .ok ([], rest)
          else .ok ([], rest)
        match contR with
        | .error e => .error e
        | .ok (conts, rest') =>
          let bvalue := if conts.isEmpty then bvalue else bvalue ++ conts.flatten
          let bvalue := strip isOWS bvalue
          let bad :=
            if lax then bvalue.any (fun b => b == 10 || b == 13 || b == 0)
            else bvalue.any valueForbidden
          if bad then .error .invalidHeader else
          if !lax && hasName acc (lower bname) && isSingleton (lower bname) then .error .badHttpMessage
          else parseHeaderLines lax maxField fuel rest' ((bname, bvalue) :: acc)

def parseHeaders (lax : Bool) (maxField : Nat) (lines : List Bytes) : Except Err (List (Bytes × Bytes)) :=
  parseHeaderLines lax maxField (lines.length + 1) lines []

/-! ## HttpParser.parse_headers -/

structure HdrInfo where
  headers : List (Bytes × Bytes)
  close : Option Bool
  encoding : Option Bytes
  upgrade : Bool
  chunked : Bool
deriving Repr

def bConnection : Bytes := [99, 111, 110, 110, 101, 99, 116, 105, 111, 110]
def bUpgrade : Bytes := [117, 112, 103, 114, 97, 100, 101]
def bContentEncoding : Bytes := [99, 111, 110, 116, 101, 110, 116, 45, 101, 110, 99, 111, 100, 105, 110, 103]
def bTransferEncoding : Bytes := [116, 114, 97, 110, 115, 102, 101, 114, 45, 101, 110, 99, 111, 100, 105, 110, 103]
def bContentLength : Bytes := [99, 111, 110, 116, 101, 110, 116, 45, 108, 101, 110, 103, 116, 104]
def bHost : Bytes := [104, 111, 115, 116]
def bSecWsKey1 : Bytes := [115, 101, 99, 45, 119, 101, 98, 115, 111, 99, 107, 101, 116, 45, 107, 101, 121, 49]
def bChunked : Bytes := [99, 104, 117, 110, 107, 101, 100]
def bClose : Bytes := [99, 108, 111, 115, 101]
def bKeepAlive : Bytes := [107, 101, 101, 112, 45, 97, 108, 105, 118, 101]

/-- request side `_is_chunked_te` -/
def isChunkedTEReq (te : Bytes) : Except Err Bool :=
  let parts := (splitAll 44 te).map (strip isOWS)
  let n := (parts.filter (fun p => isAscii p && lower p == bChunked)).length
  if n > 1 then .error .badHttpMessage else
  match parts.getLast? with
  | some last => if isAscii last && lower last == bChunked then .ok true else .error .badHttpMessage
  | none => .error .badHttpMessage

/-- `str.lower()` of the decoded text equals "chunked": besides ASCII case folding, U+212A
(KELVIN SIGN, bytes E2 84 AA) lowers to `k` -/
def lowerEqChunkedUnicode : Bytes → Bytes → Bool
  | [], [] => true
  | 0xE2 :: 0x84 :: 0xAA :: t, 107 :: p => lowerEqChunkedUnicode t p
  | b :: t, c :: p => b.toNat < 128 && lowerB b == c && lowerEqChunkedUnicode t p
  | _, _ => false

/-- response side `_is_chunked_te`: `te.rsplit(",", 1)[-1].strip(" \t").lower() == "chunked"` -/
def isChunkedTEResp (te : Bytes) : Bool :=
  match (splitAll 44 te).getLast? with
  | some last => lowerEqChunkedUnicode (strip isOWS last) bChunked
  | none => false

def encodings : List Bytes := [[103, 122, 105, 112], [100, 101, 102, 108, 97, 116, 101], [98, 114], [122, 115, 116, 100]]

def interpretHeaders (cfg : Cfg) (hs : List (Bytes × Bytes)) : Except Err HdrInfo :=
  let conn := getHeader hs bConnection
  let toks : List Bytes :=
    match conn with
    | some v =>
      if v.isEmpty then [] else
      ((splitAll 44 v).map (strip isOWS)).filterMap
        (fun t => if !t.isEmpty && isAscii t then some (lower t) else none)
    | none => []
  let close : Option Bool :=
    if toks.contains bClose then some true
    else if toks.contains bKeepAlive then some false else none
  let upgradeHdr := getHeader hs bUpgrade
  let upgrade := toks.contains bUpgrade && (match upgradeHdr with | some u => !u.isEmpty | none => false)
  let enc := (getHeader hs bContentEncoding).getD []
  let encoding := if isAscii enc && encodings.contains (lower enc) then some (lower enc) else none
  match getHeader hs bTransferEncoding with
  | none => .ok { headers := hs, close, encoding, upgrade, chunked := false }
  | some te =>
    let ch : Except Err Bool := if cfg.response then .ok (isChunkedTEResp te) else isChunkedTEReq te
    match ch with
    | .error e => .error e
    | .ok chunked =>
      if hasName hs bContentLength then .error .badHttpMessage
      else .ok { headers := hs, close, encoding, upgrade, chunked }

/-! ## messages -/

structure Msg where
  method : Bytes := []      -- requests (upper-cased)
  path : Bytes := []
  vmajor : Nat := 1
  vminor : Nat := 1
  code : Nat := 0           -- responses
  reason : Bytes := []
  headers : List (Bytes × Bytes) := []
  shouldClose : Bool := false
  compression : Option Bytes := none
  upgrade : Bool := false
  chunked : Bool := false
deriving Repr

/-- `version <= HttpVersion10` (tuple order) -/
def versionLe10 (maj min : Nat) : Bool := maj < 1 || (maj == 1 && min == 0)

/-- `VERSRE.fullmatch` : `HTTP/d.d` -/
def parseVersion (v : Bytes) : Option (Nat × Nat) :=
  match v with
  | [72, 84, 84, 80, 47, a, 46, b] =>
    if isVersDigit a && isVersDigit b then some (a.toNat - 48, b.toNat - 48) else none
  | _ => none

/-- `line.split(" ", maxsplit=2)` must give exactly three parts -/
def splitRequestLine (line : Bytes) : Option (Bytes × Bytes × Bytes) :=
  match cut1 32 line with
  | none => none
  | some (m, r) =>
    match cut1 32 r with
    | none => none
    | some (p, v) => some (m, p, v)

def bCONNECT : Bytes := [67, 79, 78, 78, 69, 67, 84]
def bOPTIONS : Bytes := [79, 80, 84, 73, 79, 78, 83]

/-- `HttpRequestParser.parse_message`; `urlOk isConnect path` is the yarl oracle
(`URL.build`/`URL()` accepted the target and, for the absolute-form branch, it is absolute) -/
def parseRequest (cfg : Cfg) (urlOk : Bool → Bytes → Bool) (lines : List Bytes) : Except Err Msg :=
  match lines with
  | [] => .error .badHttpMethod
  | line :: rest =>
    match splitRequestLine line with
    | none => .error .badHttpMethod
    | some (method, path, version) =>
      if !isToken method then .error .badHttpMethod else
      let method := upper method
      match parseVersion version with
      | none => .error .badStatusLine
      | some (vmaj, vmin) =>
        if path.any targetForbidden then .error .invalidURL else
        let isConnect := method == bCONNECT
        let needOracle := isConnect || !(path == [42] && method == bOPTIONS)
        if needOracle && !urlOk isConnect path then .error .invalidURL else
        match parseHeaders cfg.lax cfg.maxField rest with
        | .error e => .error e
        | .ok hs =>
          match interpretHeaders cfg hs with
          | .error e => .error e
          | .ok info =>
            if vmaj == 1 && vmin == 1 && !hasName hs bHost then .error .badHttpMessage else
            let close := match info.close with
              | some c => c
              | none => versionLe10 vmaj vmin
            .ok { method, path, vmajor := vmaj, vminor := vmin, headers := hs, shouldClose := close,
                  compression := info.encoding, upgrade := info.upgrade, chunked := info.chunked }

/-- Python `str.split()` whitespace for the status line (ASCII subset that can occur in a
line: SP, HT, VT, FF, CR, and 0x1c-0x1f, 0x85/0xa0 only after decoding — modelled on bytes:
SP HT LF VT FF CR FS GS RS US) -/
def isPyWs (b : UInt8) : Bool := b == 32 || (9 ≤ b.toNat && b.toNat ≤ 13) || (28 ≤ b.toNat && b.toNat ≤ 31)

/-- `s.split(maxsplit=1)` → `(first, rest-with-leading-ws-stripped)`; `none` if fewer than 2 parts -/
def splitWs1 (s : Bytes) : Option (Bytes × Bytes) :=
  let s := lstrip isPyWs s
  if s.isEmpty then none else
  let first := s.takeWhile (fun b => !isPyWs b)
  let rest := lstrip isPyWs (s.drop first.length)
  if rest.isEmpty then none else some (first, rest)

/-- `HttpResponseParser.parse_message` (status lines containing non-ASCII whitespace are
outside the model: the harness does not generate them) -/
def parseResponse (cfg : Cfg) (lines : List Bytes) : Except Err Msg :=
  match lines with
  | [] => .error .badStatusLine
  | line :: rest =>
    match splitWs1 line with
    | none => .error .badStatusLine
    | some (version, status) =>
      let (status, reason) :=
        match splitWs1 status with
        | some (s, r) => (s, r)
        | none => (strip isPyWs status, [])
      match parseVersion version with
      | none => .error .badStatusLine
      | some (vmaj, vmin) =>
        if status.length != 3 || !status.all isDigitB then .error .badStatusLine else
        -- strict mode: no control character (in particular no bare LF) anywhere in the status line
        if !cfg.lax && line.any valueForbidden then .error .badStatusLine else
        let code := status.foldl (fun a b => a * 10 + (b.toNat - 48)) 0
        match parseHeaders cfg.lax cfg.maxField rest with
        | .error e => .error e
        | .ok hs =>
          match interpretHeaders cfg hs with
          | .error e => .error e
          | .ok info =>
            let close := match info.close with
              | some c => c
              | none =>
                if versionLe10 vmaj vmin then true
                else if (100 ≤ code && code < 200) || code == 204 || code == 304 then false
                else if hasName hs bContentLength || hasName hs bTransferEncoding then false
                else true
            .ok { vmajor := vmaj, vminor := vmin, code, reason := strip isPyWs reason, headers := hs,
                  shouldClose := close, compression := info.encoding, upgrade := info.upgrade,
                  chunked := info.chunked }

/-! ## events -/
inductive Ev where
  | msg (m : Msg) (hasPayload : Bool)
  | data (bs : Bytes)
  | beginChunk
  | endChunk
  | eof
  | payloadErr (e : Err)      -- exception set on the payload and *not* re-raised
deriving Repr

/-! ## HttpPayloadParser -/
inductive PType | none | length | chunked | untilEof
deriving Repr, DecidableEq
inductive CState | size | chunk | chunkEof | trailers
deriving Repr, DecidableEq

structure PState where
  type : PType
  length : Nat := 0
  cstate : CState := .size
  chunkSize : Nat := 0
  tail : Bytes := []
  trailerLines : List Bytes := []
  maxTrailers : Nat := 0
deriving Repr

inductive PRes where
  | complete (rest : Bytes)
  | needs (p : PState)
  | err (e : Err) (reraise : Bool)     -- reraise: InvalidHeader / TransferEncodingError
deriving Repr

def dataEv (bs : Bytes) : List Ev := if bs.isEmpty then [] else [.data bs]

/-- index of SEP (CRLF strict, LF lax) and its length -/
def findSep (lax : Bool) (bs : Bytes) : Option Nat := if lax then findByte 10 bs else findCRLF bs
def sepLen (lax : Bool) : Nat := if lax then 1 else 2

/-- bytes.strip() default whitespace -/
def isBytesWs (b : UInt8) : Bool := b == 32 || (9 ≤ b.toNat && b.toNat ≤ 13)

/-- the value of a chunk-size line (the bytes before its separator): size digits up to the
first `;`, the extension may not contain LF (nor, when lines end in CRLF, a bare CR), lax mode
strips whitespace around the digits;
`none` = TransferEncodingError -/
def chunkSizeOf (cfg : Cfg) (line : Bytes) : Option Nat :=
  let (sizeB, extBad) :=
    match findByte 59 line with
    | some i => (line.take i, (line.drop i).any (fun b => b == 10 || (!cfg.lax && b == 13)))
    | none => (line, false)
  if extBad then none else
  let sizeB := if cfg.lax then strip isBytesWs sizeB else sizeB
  if sizeB.isEmpty || !sizeB.all isHexB then none else ofHex sizeB

/-- the rest of the `while chunk:` loop, as seen from one of its branches -/
abbrev LoopK := PState → Bytes → List Ev → PRes × List Ev

/-- lax mode skips one CR in front of the line feed that ends chunk data -/
def skipCR (lax : Bool) (c : Bytes) : Bytes := if lax then (match c with | 13 :: t => t | c => c) else c
/-- the separator: CRLF, in lax mode LF -/
def sepBytes (lax : Bool) : Bytes := if lax then [10] else [13, 10]

/-- `PARSE_CHUNKED_CHUNK_EOF`: the CRLF (lax: LF, one CR before it skipped) after chunk data -/
def chunkEofStep (cfg : Cfg) (k : LoopK) (p : PState) (chunk : Bytes) (evs : List Ev) : PRes × List Ev :=
  let unstripped := chunk
  let chunk := skipCR cfg.lax chunk
  let n := sepLen cfg.lax
  let sep := sepBytes cfg.lax
  if chunk.take n == sep then
    k { p with cstate := .size } (chunk.drop n) evs
  else if chunk.length ≥ n || chunk != sep.take chunk.length then (.err .transferEncoding true, evs)
  else (.needs { p with tail := unstripped }, evs)

/-- `PARSE_CHUNKED_CHUNK`: chunk data -/
def chunkStep (cfg : Cfg) (k : LoopK) (p : PState) (chunk : Bytes) (evs : List Ev) : PRes × List Ev :=
  let required := p.chunkSize
  let p := { p with chunkSize := required - chunk.length }
  let evs := evs ++ dataEv (chunk.take required)
  let chunk := chunk.drop required
  if p.chunkSize != 0 then (.needs p, evs)
  else chunkEofStep cfg k { p with cstate := .chunkEof } chunk (evs ++ [.endChunk])

/-- a trailer line without its separator; lax mode also drops CRs in front of the LF -/
def trailerLine (lax : Bool) (raw : Bytes) : Bytes := if lax then rstrip (· == 13) raw else raw
/-- the length that is compared with `max_field_size` -/
def trailerRawLen (lax : Bool) (raw : Bytes) : Nat :=
  if lax then raw.length - (if raw.getLast? == some 13 then 1 else 0) else raw.length

/-- `PARSE_TRAILERS`: one trailer line -/
def trailersStep (cfg : Cfg) (k : LoopK) (p : PState) (chunk : Bytes) (evs : List Ev) : PRes × List Ev :=
  match findSep cfg.lax chunk with
  | none =>
    if chunk.any (· == 10) then (.err .transferEncoding true, evs)
    else (.needs { p with tail := chunk }, evs)
  | some pos =>
    let raw := chunk.take pos
    let chunk := chunk.drop (pos + sepLen cfg.lax)
    let line := trailerLine cfg.lax raw
    if trailerRawLen cfg.lax raw > cfg.maxField then (.err .lineTooLong false, evs) else
    let tl := p.trailerLines ++ [line]
    if tl.length > p.maxTrailers then (.err .badHttpMessage false, evs) else
    if line.isEmpty then
      match parseHeaders cfg.lax cfg.maxField tl with
      | .error e => (.err e (e == .invalidHeader || e == .transferEncoding), evs)
      | .ok _ => (.complete chunk, evs ++ [.eof])
    else
      k { p with trailerLines := tl } chunk evs

/-- `PARSE_CHUNKED_SIZE`: the chunk-size line; a zero size falls through to the trailers branch
and a non-zero one to the chunk-data branch in the same iteration -/
def sizeStep (cfg : Cfg) (k : LoopK) (p : PState) (chunk : Bytes) (evs : List Ev) : PRes × List Ev :=
  match findSep cfg.lax chunk with
  | some pos =>
    if pos > cfg.maxLine then (.err .lineTooLong false, evs) else
    match chunkSizeOf cfg (chunk.take pos) with
    | none => (.err .transferEncoding true, evs)
    | some size =>
      let chunk := chunk.drop (pos + sepLen cfg.lax)
      if size == 0 then trailersStep cfg k { p with cstate := .trailers } chunk evs
      else chunkStep cfg k { p with cstate := .chunk, chunkSize := size } chunk (evs ++ [.beginChunk])
  | none =>
    if chunk.any (· == 10) then (.err .transferEncoding true, evs)
    else (.needs { p with tail := chunk }, evs)

/-- the `while chunk:` loop of the chunked branch. `fuel` bounds iterations (each iteration
consumes at least one byte or returns). -/
def chunkedLoop (cfg : Cfg) : Nat → LoopK
  | 0, p, chunk, evs => (.needs { p with tail := chunk }, evs)
  | fuel + 1, p, chunk, evs =>
    if chunk.isEmpty then (.needs p, evs) else
    match p.cstate with
    | .size => sizeStep cfg (chunkedLoop cfg fuel) p chunk evs
    | .chunk => chunkStep cfg (chunkedLoop cfg fuel) p chunk evs
    | .chunkEof => chunkEofStep cfg (chunkedLoop cfg fuel) p chunk evs
    | .trailers => trailersStep cfg (chunkedLoop cfg fuel) p chunk evs

/-- the early check on a buffered partial line of the chunked parser -/
def chunkTailTooLong (cfg : Cfg) (p : PState) : Bool :=
  if p.tail.isEmpty || p.cstate == .chunk then false else
  let maxLen := if p.cstate == .trailers then cfg.maxField else cfg.maxLine
  let tl :=
    if !cfg.lax || p.cstate == .trailers then p.tail.length - (if p.tail.getLast? == some 13 then 1 else 0)
    else p.tail.length
  tl > maxLen

/-- `HttpPayloadParser.feed_data(chunk)` -/
def payloadFeed (cfg : Cfg) (p : PState) (chunk : Bytes) : PRes × List Ev :=
  match p.type with
  | .length =>
    let required := p.length
    let p' := { p with length := required - chunk.length }
    let evs := dataEv (chunk.take required)
    if p'.length == 0 then (.complete (chunk.drop required), evs ++ [.eof])
    else (.needs p', evs)
  | .chunked =>
    if chunkTailTooLong cfg p then (.err .lineTooLong false, []) else
    let chunk := p.tail ++ chunk
    chunkedLoop cfg (chunk.length + 1) { p with tail := [] } chunk []
  | .untilEof => (.needs p, dataEv chunk)
  | .none => (.needs p, [])

/-! ## HttpParser -/
structure St where
  lines : List Bytes := []
  tail : Bytes := []
  upgraded : Bool := false
  pendingUpgrade : Bool := false
  payload : Option PState := none
  /-- `_should_close`: the last message asked for the connection to be closed after it -/
  shouldClose : Bool := false
  failed : Bool := false
deriving Repr

structure FeedOut where
  st : St
  evs : List Ev
  /-- bytes handed back to the caller (upgraded connections) -/
  rest : Bytes
  err : Option Err
deriving Repr

def isEmptyBodyStatus (code : Nat) : Bool := Gen.Http.emptyBodyStatus.any (fun r => r.1 ≤ code && code ≤ r.2)
def isEmptyBodyMethod (m : Bytes) : Bool := !m.isEmpty && Gen.Http.emptyBodyMethods.any (fun s => ofNats s == m)
def supportedUpgrade (hs : List (Bytes × Bytes)) : Bool :=
  let u := (getHeader hs bUpgrade).getD []
  isAscii u && (lower u == [116, 99, 112] || lower u == [119, 101, 98, 115, 111, 99, 107, 101, 116])

/-- `get_content_length` -/
def contentLength (hs : List (Bytes × Bytes)) : Except Err (Option Nat) :=
  match getHeader hs bContentLength with
  | none => .ok none
  | some v => if v.isEmpty || !v.all isDigitB then .error .invalidHeader
              -- CPython's int() refuses more than 4300 digits (ValueError → InvalidHeader)
              else if v.length > Gen.Http.intMaxStrDigits then .error .invalidHeader
              else .ok (some (v.foldl (fun a b => a * 10 + (b.toNat - 48)) 0))

/-- what happens once the blank line closes a header block: parse, pick the body framing.
Returns the new parser state pieces and events, or an error. -/
def onHeaderBlock (cfg : Cfg) (urlOk : Bool → Bytes → Bool) (st : St) (lines : List Bytes) :
    Except Err (St × List Ev × Bool) :=
  let maxTrailers := cfg.maxHeaders - lines.length
  let r := if cfg.response then parseResponse cfg lines else parseRequest cfg urlOk lines
  match r with
  | .error e => .error e
  | .ok msg =>
    match contentLength msg.headers with
    | .error e => .error e
    | .ok length =>
      if hasName msg.headers bSecWsKey1 then .error .invalidHeader else
      let upgraded := msg.upgrade && supportedUpgrade msg.headers
      let method := if cfg.response then cfg.respMethod else msg.method
      -- only a *response* to HEAD is bodiless; `self.method` is None in the request parser
      let emptyBody := isEmptyBodyStatus msg.code || (cfg.response && isEmptyBodyMethod cfg.respMethod)
      let st := { st with lines := [] }
      let lenPos := match length with | some n => n > 0 | none => false
      if !emptyBody && (lenPos || msg.chunked) then
        if !cfg.withBody then
          -- payload parser is `done` at construction; its stream gets eof at once
          .ok (st, [.msg msg true, .eof], msg.shouldClose)
        else
          let p : PState :=
            if msg.chunked then { type := .chunked, maxTrailers }
            else { type := .length, length := length.getD 0, maxTrailers }
          .ok ({ st with payload := some p, pendingUpgrade := upgraded }, [.msg msg true], msg.shouldClose)
      else if method == bCONNECT then
        .ok ({ st with upgraded := true, payload := some { type := .untilEof, maxTrailers } },
             [.msg msg true], msg.shouldClose)
      else if !emptyBody && length.isNone && cfg.readUntilEof then
        if !cfg.withBody then .ok (st, [.msg msg true, .eof], msg.shouldClose)
        else .ok ({ st with payload := some { type := .untilEof, maxTrailers } }, [.msg msg true], msg.shouldClose)
      else if upgraded then
        .ok ({ st with upgraded := true }, [.msg msg false], msg.shouldClose)
      else .ok (st, [.msg msg false], msg.shouldClose)

/-- length of a buffered partial line as the early limit check measures it -/
def tailLen (_cfg : Cfg) (tail : Bytes) : Nat :=
  tail.length - (if tail.getLast? == some 13 then 1 else 0)

/-- length of a completed line as the limit check measures it: in lax mode (LF terminator)
the raw line minus at most one trailing CR; in strict mode the line itself -/
def lineLen (cfg : Cfg) (raw : Bytes) : Nat :=
  if cfg.lax then raw.length - (if raw.getLast? == some 13 then 1 else 0) else raw.length

/-- the limit in force for the next line: `max_line_size` for a start line, `max_field_size`
for everything after it -/
def maxLenFor (cfg : Cfg) (st : St) : Nat := if st.lines.isEmpty then cfg.maxLine else cfg.maxField

/-- a complete line (raw bytes before the terminator) is checked and appended to `lines` -/
def acceptLine (cfg : Cfg) (st : St) (raw : Bytes) : Except Err (List Bytes) :=
  let line := if cfg.lax then rstrip (· == 13) raw else raw
  if lineLen cfg raw > maxLenFor cfg st then .error .lineTooLong else
  let lines := st.lines ++ [line]
  if lines.length > cfg.maxHeaders then .error .badHttpMessage else .ok lines

/-- no terminator in the buffer: the early checks, then the buffer is kept as the tail -/
def partialLine (cfg : Cfg) (st : St) (data : Bytes) (evs : List Ev) : FeedOut :=
  if data.any (· == 10) then
    { st := { st with tail := data, failed := true }, evs, rest := [], err := some .badHttpMessage }
  else if tailLen cfg data > maxLenFor cfg st then
    { st := { st with tail := data, failed := true }, evs, rest := [], err := some .lineTooLong }
  else { st := { st with tail := data }, evs, rest := [], err := none }

/-- result of one iteration of the `while` loop of `feed_data` -/
inductive Step where
  /-- something was consumed: go round the loop again with the rest of the buffer -/
  | cont (st : St) (data : Bytes) (evs : List Ev)
  /-- `feed_data` returns (`evs` are the events of this iteration only) -/
  | stop (o : FeedOut)

/-- one iteration of the `while` loop on a non-empty buffer `data` -/
def stepOnce (cfg : Cfg) (urlOk : Bool → Bytes → Bool) (st : St) (data : Bytes) : Step :=
  match st.payload with
  | none =>
    if st.upgraded then .stop { st, evs := [], rest := data, err := none } else
    match findSep cfg.lax data with
    | some pos =>
      if pos == 0 && st.lines.isEmpty then .cont st (data.drop (sepLen cfg.lax)) []
      else if st.shouldClose then
        .stop { st := { st with failed := true }, evs := [], rest := [], err := some .badHttpMessage }
      else
        match acceptLine cfg st (data.take pos) with
        | .error e => .stop { st := { st with failed := true }, evs := [], rest := [], err := some e }
        | .ok lines =>
          let data := data.drop (pos + sepLen cfg.lax)
          if (lines.getLast?.getD []).isEmpty then
            match onHeaderBlock cfg urlOk st lines with
            | .error e => .stop { st := { st with lines := [], failed := true }, evs := [], rest := [], err := some e }
            | .ok (st', evs', sc) => .cont { st' with shouldClose := sc } data evs'
          else .cont { st with lines } data []
    | none => .stop (partialLine cfg st data [])
  | some p =>
    let (r, pevs) := payloadFeed cfg p data
    match r with
    | .needs p' => .stop { st := { st with payload := some p' }, evs := pevs, rest := [], err := none }
    | .complete rest =>
      let st := { st with payload := none }
      let st := if st.pendingUpgrade then { st with upgraded := true, pendingUpgrade := false } else st
      .cont st rest pevs
    | .err e reraise =>
      if reraise then
        .stop { st := { st with failed := true }, evs := pevs ++ [.payloadErr e], rest := [], err := some e }
      else
        -- swallowed: exception set on the payload, parser dropped, rest of this read discarded; the stream cannot be
        -- resynchronised, so anything that arrives later is refused (`_should_close`)
        let st := { st with payload := none, shouldClose := true }
        let st := if st.pendingUpgrade then { st with upgraded := true, pendingUpgrade := false } else st
        .stop { st, evs := pevs ++ [.payloadErr e], rest := [], err := none }

/-- the `while` loop of `feed_data` over `data` (already `tail + data`).  Every iteration that
continues has consumed at least one byte (guarded), so `fuel = |data| + 1` suffices. -/
def feedLoop (cfg : Cfg) (urlOk : Bool → Bytes → Bool) :
    Nat → St → Bytes → List Ev → FeedOut
  | 0, st, data, evs => { st := { st with tail := data }, evs, rest := [], err := none }
  | fuel + 1, st, data, evs =>
    if data.isEmpty then { st, evs, rest := [], err := none } else
    match stepOnce cfg urlOk st data with
    | .stop o => { o with evs := evs ++ o.evs }
    | .cont st' data' evs' =>
      if data'.length < data.length then feedLoop cfg urlOk fuel st' data' (evs ++ evs')
      -- (never taken: every continuing iteration consumes input; kept so that the loop is total)
      else { st := { st' with failed := true }, evs := evs ++ evs', rest := [], err := some .badHttpMessage }

/-- `HttpParser.feed_data(data)` -/
def feed (cfg : Cfg) (urlOk : Bool → Bytes → Bool) (st : St) (data : Bytes) : FeedOut :=
  if st.failed then { st, evs := [], rest := [], err := none } else
  let data := st.tail ++ data
  feedLoop cfg urlOk (data.length + 1) { st with tail := [] } data []

/-- `HttpParser.feed_eof()` : events, error raised -/
def feedEof (cfg : Cfg) (urlOk : Bool → Bytes → Bool) (st : St) : List Ev × Option Err :=
  if st.failed then ([], none) else
  match st.payload with
  | some p =>
    match p.type with
    | .untilEof => ([.eof], none)
    | .length => if p.length != 0 then ([], some .contentLength) else ([.eof], none)
    | .chunked => ([], some .transferEncoding)
    | .none => ([], none)
  | none =>
    let lines := if st.tail.isEmpty then st.lines else st.lines ++ [st.tail]
    if lines.isEmpty then ([], none) else
    let lines := lines ++ [[]]
    let r := if cfg.response then parseResponse cfg lines else parseRequest cfg urlOk lines
    match r with
    | .ok m => ([.msg m false], none)
    | .error _ => ([], none)

end Aio.Http
