import AioModel.Basic
import AioModel.Generated.C13
/-!
# C13 model — WebSocket session close state machine on the FIFO event-loop abstraction

Transcribes, side by side (`Side.server` / `Side.client`):

* `aiohttp/web_ws.py:WebSocketResponse`  — `close`, `receive`, `send_*`/`ping`, `_set_closed`,
  `_set_closing`, `_set_code_close_transport`, `_close_transport`, `_cancel_heartbeat`,
  `_on_data_received`, `_flush_heartbeat_reset`, `_reset_heartbeat`, `_send_heartbeat`,
  `_ping_task_done`, `_pong_not_received`, `_handle_ping_pong_exception`
* `aiohttp/client_ws.py:ClientWebSocketResponse` — the same methods
* `aiohttp/_websocket/writer.py:WebSocketWriter` — `send_frame` (uncompressed path), `close`,
  `_closing`, `_output_size`/`_limit` flow control
* `aiohttp/_websocket/reader_py.py:WebSocketDataQueue` — `feed_data`, `feed_eof`,
  `set_exception`, `read`, `_read_from_buffer`, `_release_waiter` (the frame *parser* is C12's;
  here a peer frame arrives already parsed, `bad` = a frame the parser rejects with 1002)
* `aiohttp/base_protocol.py:BaseProtocol` — `pause_writing`, `resume_writing`, `_drain_helper`,
  `connection_lost` (one shared `_drain_waiter` future)
* `aiohttp/web_protocol.py:RequestHandler.connection_lost/data_received` and
  `aiohttp/client_proto.py:ResponseHandler.connection_lost/data_received/close` (upgraded part)
* what CPython's asyncio guarantees and the code relies on: FIFO `call_soon`, `Task.cancel`
  (`_fut_waiter.cancel()` else `_must_cancel`), `Task.cancelling/uncancel`, `asyncio.timeout`
  (`_on_timeout`, `__aexit__`), eager task start of the heartbeat ping task.

Each coroutine is cut at its awaits (`Pc`); `step` runs the atomic section between two awaits.
Labels (`Label`) are the only nondeterminism.  Times are milliseconds.
-/
namespace Aio.C13
open Aio

inductive Side | server | client
deriving DecidableEq, Repr

structure Cfg where
  side : Side := .server
  autoclose : Bool := true
  autoping : Bool := true
  heartbeat : Option Nat := none      -- ms
  recvTimeout : Option Nat := none    -- ms (`receive_timeout` / `ws_receive`)
  closeTimeout : Nat := 10000         -- ms (`timeout` / `ws_close`)
  limit : Nat := 65536                -- `WebSocketWriter._limit`
  /-- `true` = the repaired writer of finding F17 (`_closing` set as soon as the CLOSE frame is written) -/
  fixed : Bool := false
deriving Repr

/-- messages in the `WebSocketDataQueue` -/
inductive Msg | text | ping | pong | close (code : Nat) | closing | error
deriving DecidableEq, Repr

/-- exceptions that travel through the coroutines (kinds only) -/
inductive Exc
  | cancelled | timeout | pongTimeout | reset | conn | eof | wserr (code : Nat) | assertion | runtime
deriving DecidableEq, Repr

/-- frames on the wire, in write order -/
inductive Frame | data | ping | pong | close (code : Nat)
deriving DecidableEq, Repr

def Frame.isClose : Frame → Bool | .close _ => true | _ => false
def Frame.isData : Frame → Bool | .data => true | _ => false
/-- `opcode & WSMsgType.CLOSE` — which frames `send_frame` still lets through once `_closing` -/
def Frame.passesClosing : Frame → Bool
  | .data => Gen.C13.passClosingText
  | .ping => Gen.C13.passClosingPing
  | .pong => Gen.C13.passClosingPong
  | .close _ => Gen.C13.passClosingClose

abbrev Tid := Nat

inductive Op | recv | close (code : Nat) | send (n : Nat) | ping | hbPing
deriving DecidableEq, Repr

/-- state of the future a parked task awaits -/
inductive FutSt | none | pending | result | exc (e : Exc) | cancelled
deriving DecidableEq, Repr

inductive Pc
  | start
  | recvRead      -- receive(): parked in `reader.read()`
  | recvPong      -- receive(): auto-pong parked in the writer's drain
  | sendDrain     -- send_*/ping/heartbeat ping: parked in the writer's drain
  | closeDrain1   -- close(): parked in the drain of the CLOSE frame (`writer.close` → `send_frame`)
  | closeDrain2   -- server close(): parked in `payload_writer.drain()`
  | closeWait     -- close(): awaiting `_close_wait`
  | closeRead     -- close(): parked in `reader.read()` waiting for the peer's CLOSE
  | done
deriving DecidableEq, Repr

def Pc.isDrain : Pc → Bool
  | .recvPong | .sendDrain | .closeDrain1 | .closeDrain2 => true
  | _ => false

/-- what `receive()` returns -/
inductive RecvRes | msg (m : Msg) | closed
deriving DecidableEq, Repr

inductive Outcome
  | recv (r : RecvRes) | closeRet (b : Bool) | sent | raised (e : Exc)
deriving DecidableEq, Repr

inductive Tmo | none | armed | expiring
deriving DecidableEq, Repr

structure Task where
  op : Op := .recv
  pc : Pc := .done
  /-- `some r`: this `close()` was called from inside `receive()`, which returns `r` afterwards -/
  ret : Option RecvRes := none
  cdrain : Bool := true               -- `drain=` argument of the running server close()
  fut : FutSt := .none
  mustCancel : Bool := false
  ncancel : Nat := 0                  -- `Task.cancelling()`
  tmo : Tmo := .none                  -- the `asyncio.timeout` block the task is inside, if any
  startedAt : Nat := 0                -- virtual time at which close() began (for the time bound)
  outcome : Option Outcome := none
deriving Repr

inductive Cb
  | task (t : Tid)
  | connLost (withExc : Bool)
  | flushHb
  | sendHb
  | pongTimeout
  | timeout (t : Tid)
  | pingDone (t : Tid)
deriving DecidableEq, Repr

inductive FutRef | none | pending (t : Tid) | done | cancelled
deriving DecidableEq, Repr

inductive DrainSt | none | pending | cancelled
deriving DecidableEq, Repr

structure St where
  cfg : Cfg := {}
  now : Nat := 0
  ready : List Cb := []
  timers : List (Nat × Cb) := []
  tasks : List Task := []
  -- session flags (`_closed/_closing/_close_code/_waiting/_close_wait/_exception/_conn_lost`)
  closed : Bool := false
  closing : Bool := false
  closeCode : Option Nat := none
  waiting : Bool := false
  closeWait : FutRef := .none
  exc : Option Exc := none
  connLostCnt : Nat := 0
  -- heartbeat (`_heartbeat_when/_heartbeat_cb/_pong_response_cb/_ping_task/_need_heartbeat_reset`)
  hbWhen : Nat := 0
  hbCb : Bool := false
  pongCb : Bool := false
  pingTask : Option Tid := none
  needReset : Bool := false
  -- writer
  wClosing : Bool := false
  outSize : Nat := 0
  frames : List Frame := []
  -- transport / protocol
  trClosing : Bool := false          -- `transport.is_closing()`
  lost : Bool := false               -- `connection_lost` has run
  protoTransport : Bool := true      -- `protocol.transport is not None`
  paused : Bool := false             -- `protocol._paused`
  drain : DrainSt := .none           -- `protocol._drain_waiter`
  drainWaiters : List Tid := []
  protoClose : Bool := false         -- server `RequestHandler._close` / client `_payload_parser is None`
  -- reader queue
  buf : List Msg := []
  eof : Bool := false
  rexc : Option Nat := none          -- `WebSocketError` code stored on the queue
  rwaiter : Option Tid := none       -- `_waiter` (may point at an already done future)
  /-- time at which the transport was first asked to close (observation only) -/
  trClosedAt : Option Nat := none
deriving Repr

inductive PeerFrame | text | ping | pong | close (code : Nat) | bad
deriving DecidableEq, Repr

inductive Label
  | call (t : Tid) (op : Op)
  | cancel (t : Tid)
  | peer (f : PeerFrame)
  | drop (withExc : Bool)
  | pauseW
  | resumeW
  | tick
  /-- virtual time passes (the peer stays silent for `d` ms) — never beyond the next timer deadline,
  and only while nothing is ready -/
  | adv (d : Nat)
deriving DecidableEq, Repr

/-- number of application task slots (heartbeat ping tasks are appended after them) -/
def appTasks : Nat := 3

def init (cfg : Cfg) : St :=
  let s : St := { cfg := cfg, tasks := List.replicate appTasks {} }
  match cfg.heartbeat with
  | none => s
  | some hb =>
    -- `_reset_heartbeat()` at prepare()/construction, at time 0
    let w := if hb > Gen.C13.ceilThresholdMs then (hb + 999) / 1000 * 1000 else hb
    { s with hbWhen := w, hbCb := true, timers := [(w, .sendHb)] }

/-! ## small helpers -/

def getT (s : St) (t : Tid) : Task := s.tasks.getD t {}

def setT (s : St) (t : Tid) (f : Task → Task) : St :=
  { s with tasks := s.tasks.mapIdx (fun i x => if i = t then f x else x) }

/-- `call_at`: timers are kept sorted by deadline, FIFO among equal deadlines -/
def insertTimer (w : Nat) (cb : Cb) : List (Nat × Cb) → List (Nat × Cb)
  | [] => [(w, cb)]
  | (w', cb') :: rest => if w' ≤ w then (w', cb') :: insertTimer w cb rest else (w, cb) :: (w', cb') :: rest

/-- `handle.cancel()` for a callback that is either still a timer or already moved to ready -/
def cancelCb (s : St) (cb : Cb) : St :=
  { s with timers := s.timers.filter (fun p => p.2 != cb), ready := s.ready.filter (· != cb) }

def ceilSec (ms : Nat) : Nat := (ms + 999) / 1000 * 1000

/-- `calculate_timeout_when(loop.time(), timeout, 5)` -/
def calcWhen (now t : Nat) : Nat :=
  if t > Gen.C13.ceilThresholdMs then ceilSec (now + t) else now + t

/-- a future the task `t` awaits becomes done: store the value, schedule the wake-up -/
def wakeTask (s : St) (t : Tid) (v : FutSt) : St :=
  let s := setT s t (fun x => { x with fut := v })
  { s with ready := s.ready ++ [.task t] }

def wakeAll (s : St) (ts : List Tid) (v : FutSt) : St := ts.foldl (fun s t => wakeTask s t v) s

/-! ## transport -/

/-- `transport.close()` (also `abort()`) -/
def trClose (s : St) : St :=
  if s.trClosing then s
  else { s with trClosing := true, ready := s.ready ++ [.connLost false], trClosedAt := some s.now }

/-- server `_close_transport()`: `if self._req.transport is not None: transport.close()` -/
def srvCloseTransport (s : St) : St := if s.protoTransport then trClose s else s

/-- server `_set_code_close_transport(code)` -/
def srvSetCodeCloseTransport (s : St) (code : Nat) : St :=
  srvCloseTransport { s with closeCode := some code }

/-- client `self._response.close()` → `Connection.close()` → `ResponseHandler.close()` -/
def cliRespClose (s : St) : St :=
  if s.protoTransport then { trClose s with protoTransport := false } else s

/-! ## reader queue (`WebSocketDataQueue`) -/

def releaseWaiter (s : St) : St :=
  match s.rwaiter with
  | none => s
  | some t =>
    let s := { s with rwaiter := none }
    if (getT s t).fut = .pending then wakeTask s t .result else s

def feedData (s : St) (m : Msg) : St := releaseWaiter { s with buf := s.buf ++ [m] }

def feedEof (s : St) : St := { releaseWaiter { s with eof := true } with rexc := none }

/-- `set_exception(queue, WebSocketError(code))` -/
def queueSetException (s : St) (code : Nat) : St :=
  let s := { s with eof := true, rexc := some code }
  match s.rwaiter with
  | none => s
  | some t =>
    let s := { s with rwaiter := none }
    if (getT s t).fut = .pending then wakeTask s t (.exc (.wserr code)) else s

/-- `_read_from_buffer()` -/
def readFromBuffer (s : St) : St × Except Exc Msg :=
  match s.buf with
  | m :: rest => ({ s with buf := rest }, .ok m)
  | [] => match s.rexc with
    | some c => (s, .error (.wserr c))
    | none => (s, .error .eof)

/-! ## Task.cancel -/

/-- `task.cancel()` -/
def cancelTask (s : St) (t : Tid) : St :=
  let x := getT s t
  if x.pc = .done then s
  else
    let s := setT s t (fun x => { x with ncancel := x.ncancel + 1 })
    if x.fut = .pending then
      if x.pc.isDrain then
        -- the shared `_drain_waiter` future is cancelled: every task awaiting it is woken
        let s := wakeAll s s.drainWaiters .cancelled
        { s with drain := .cancelled, drainWaiters := [] }
      else if x.pc = .closeWait then
        wakeTask { s with closeWait := .cancelled } t .cancelled
      else
        wakeTask s t .cancelled
    else setT s t (fun x => { x with mustCancel := true })

/-! ## heartbeat -/

def cancelPong (s : St) : St :=
  if s.pongCb then { cancelCb s .pongTimeout with pongCb := false } else s

/-- `_cancel_heartbeat()` -/
def cancelHeartbeat (s : St) : St :=
  let s := cancelPong s
  let s := { cancelCb s .flushHb with needReset := false }
  let s := if s.hbCb then { cancelCb s .sendHb with hbCb := false } else s
  match s.pingTask with
  | none => s
  | some p => { cancelTask s p with pingTask := none }

def setClosed (s : St) : St := cancelHeartbeat { s with closed := true }

/-- server `_set_closing(code)` -/
def srvSetClosing (s : St) (code : Nat) : St :=
  cancelHeartbeat { s with closing := true, closeCode := some code }

/-- client `_set_closing()` -/
def cliSetClosing (s : St) : St := cancelHeartbeat { s with closing := true }

/-- `_reset_heartbeat()` -/
def resetHeartbeat (s : St) : St :=
  match s.cfg.heartbeat with
  | none => s
  | some hb =>
    let s := cancelPong s
    let w := calcWhen s.now hb
    let s := { s with hbWhen := w }
    if s.hbCb then s else { s with hbCb := true, timers := insertTimer w .sendHb s.timers }

/-- `_on_data_received()` (only registered when a heartbeat is configured) -/
def onDataReceived (s : St) : St :=
  if s.cfg.heartbeat.isNone || s.needReset then s
  else { s with needReset := true, ready := s.ready ++ [.flushHb] }

/-- `_handle_ping_pong_exception(exc)` -/
def handlePingPongExc (s : St) (e : Exc) : St :=
  if s.closed then s
  else
    let s := setClosed s
    let s := match s.cfg.side with
      | .server => { srvSetCodeCloseTransport s Gen.C13.codeAbnormal with exc := some e }
      | .client => cliRespClose { s with closeCode := some Gen.C13.codeAbnormal, exc := some e }
    if s.waiting && !s.closing then feedData s .error else s

/-! ## writer (`WebSocketWriter.send_frame`, `BaseProtocol._drain_helper`) -/

def headerLen (n : Nat) : Nat := if n < 126 then 2 else if n < 65536 then 4 else 10

def frameSize (c : Cfg) (n : Nat) : Nat :=
  headerLen n + n + (match c.side with | .client => Gen.C13.maskLen | .server => 0)

inductive SendRes | ok | raised (e : Exc) | park
deriving DecidableEq, Repr

/-- `await protocol._drain_helper()` up to its await; `park` = the caller now awaits `_drain_waiter` -/
def drainHelper (s : St) : St × SendRes :=
  if !s.protoTransport then (s, .raised .reset)
  else if !s.paused then (s, .ok)
  else match s.drain with
    | .none => ({ s with drain := .pending }, .park)
    | .pending => (s, .park)
    | .cancelled => (s, .raised .cancelled)   -- awaiting an already cancelled future

/-- `_write_websocket_frame`: the frame goes to the transport, `_output_size` grows -/
def writeFrame (s : St) (fr : Frame) (n : Nat) : St :=
  { s with frames := s.frames ++ [fr], outSize := s.outSize + frameSize s.cfg n,
           -- finding F17's repair (`cfg.fixed`): `_closing` is set as soon as the CLOSE frame is written
           wClosing := s.wClosing || (s.cfg.fixed && fr.isClose) }

/-- the tail of `send_frame`: `if self._output_size > self._limit: …; if protocol._paused: await _drain_helper()` -/
def flowControl (s : St) : St × SendRes :=
  if s.outSize > s.cfg.limit then
    if s.paused then drainHelper { s with outSize := 0 } else ({ s with outSize := 0 }, .ok)
  else (s, .ok)

/-- `WebSocketWriter.send_frame(payload of n bytes, opcode)` up to its first await -/
def sendFrame (s : St) (fr : Frame) (n : Nat) : St × SendRes :=
  if s.wClosing && !fr.passesClosing then (s, .raised .reset)
  else if s.trClosing then (s, .raised .reset)
  else flowControl (writeFrame s fr n)

/-! ## task bookkeeping -/

/-- park task `t` at `pc` on a pending future; drain pcs join the shared drain future -/
def park (s : St) (t : Tid) (pc : Pc) : St :=
  let s := setT s t (fun x => { x with pc := pc, fut := .pending })
  if pc.isDrain then { s with drainWaiters := s.drainWaiters ++ [t] } else s

/-- the coroutine of task `t` finishes -/
def finish (s : St) (t : Tid) (o : Outcome) : St :=
  let x := getT s t
  let s := setT s t (fun x => { x with pc := .done, fut := .none, outcome := some o, tmo := .none })
  if x.op = .hbPing then { s with ready := s.ready ++ [.pingDone t] } else s

/-- leave the `asyncio.timeout` block of task `t` (`__aexit__`); converts a cancellation that the
timeout caused into `TimeoutError` unless somebody else also cancelled the task -/
def exitTmo (s : St) (t : Tid) (e : Option Exc) : St × Option Exc :=
  let x := getT s t
  match x.tmo with
  | .none => (s, e)
  | .armed => (setT (cancelCb s (.timeout t)) t (fun x => { x with tmo := .none }), e)
  | .expiring =>
    let n := x.ncancel - 1
    let s := setT (cancelCb s (.timeout t)) t (fun x => { x with tmo := .none, ncancel := n })
    if n = 0 && e = some .cancelled then (s, some .timeout) else (s, e)

def armTmo (s : St) (t : Tid) (d : Nat) : St :=
  let s := setT s t (fun x => { x with tmo := .armed })
  { s with timers := insertTimer (s.now + d) (.timeout t) s.timers }

/-- `close()` returns `b` / raises: either the task is done, or the enclosing `receive()` returns -/
def closeReturn (s : St) (t : Tid) (r : Except Exc Bool) : St :=
  let x := getT s t
  match r, x.ret with
  | .error e, _ => finish s t (.raised e)
  | .ok b, none => finish s t (.closeRet b)
  | .ok _, some rr => finish s t (.recv rr)

/-- first CLOSE message in the buffer; everything before it is read and dropped by close()'s loop -/
def scanClose : List Msg → Option (Nat × List Msg)
  | [] => none
  | .close c :: rest => some (c, rest)
  | _ :: rest => scanClose rest

/-! ## server `close()` -/

/-- handlers of the first `try` of server close() -/
def srvCloseExc1 (s : St) (t : Tid) (e : Exc) : St :=
  match e with
  | .cancelled | .timeout =>
    closeReturn (srvSetCodeCloseTransport s Gen.C13.codeAbnormal) t (.error e)
  | e => closeReturn (srvSetCodeCloseTransport { s with exc := some e } Gen.C13.codeAbnormal) t (.ok true)

/-- handlers of the second `try` (around the timeout block) -/
def srvCloseExc2 (s : St) (t : Tid) (e : Exc) : St :=
  match e with
  | .cancelled => closeReturn (srvSetCodeCloseTransport s Gen.C13.codeAbnormal) t (.error e)
  | e => closeReturn (srvSetCodeCloseTransport { s with exc := some e } Gen.C13.codeAbnormal) t (.ok true)

/-- `while True: msg = await reader.read(); if msg.type is CLOSE: …` inside the timeout block -/
def srvCloseRead (s : St) (t : Tid) : St :=
  match scanClose s.buf with
  | some (c, rest) =>
    let s := (exitTmo { s with buf := rest } t none).1
    closeReturn (srvSetCodeCloseTransport s c) t (.ok true)
  | none =>
    let s := { s with buf := [] }
    if s.eof then
      let e := match s.rexc with | some c => Exc.wserr c | none => Exc.eof
      let s := (exitTmo s t none).1
      srvCloseExc2 s t e
    else if s.rwaiter.isSome then
      let s := (exitTmo s t none).1
      srvCloseExc2 s t .assertion
    else park { s with rwaiter := some t } t .closeRead

def srvCloseAfterWait (s : St) (t : Tid) : St :=
  if s.closing then closeReturn (srvCloseTransport s) t (.ok true)
  else srvCloseRead (armTmo s t s.cfg.closeTimeout) t

def srvCloseAfterDrain (s : St) (t : Tid) : St :=
  if s.waiting then
    if s.closeWait != .none then closeReturn s t (.error .assertion)
    else park (feedData { s with closeWait := .pending t } .closing) t .closeWait
  else srvCloseAfterWait s t

def srvCloseAfterFrame (s : St) (t : Tid) : St :=
  if (getT s t).cdrain && s.protoTransport && s.paused then
    let r := drainHelper s
    match r.2 with
    | .park => park r.1 t .closeDrain2
    | .raised e => srvCloseExc1 r.1 t e
    | .ok => srvCloseAfterDrain r.1 t
  else srvCloseAfterDrain s t

def srvCloseEnter (s : St) (t : Tid) (code : Nat) (drain : Bool) : St :=
  if s.closed then closeReturn s t (.ok false)
  else
    let s := setT (setClosed s) t (fun x => { x with cdrain := drain, startedAt := s.now })
    let r := sendFrame s (.close code) 2
    match r.2 with
    | .park => park r.1 t .closeDrain1
    | .raised e => srvCloseExc1 { r.1 with wClosing := true } t e
    | .ok => srvCloseAfterFrame { r.1 with wClosing := true } t

/-! ## client `close()` -/

def cliCloseExc (s : St) (t : Tid) (e : Exc) : St :=
  match e with
  | .cancelled =>
    closeReturn (cliRespClose { s with closeCode := some Gen.C13.codeAbnormal }) t (.error e)
  | e =>
    closeReturn (cliRespClose { s with closeCode := some Gen.C13.codeAbnormal, exc := some e }) t (.ok true)

/-- `while True: async with timeout(ws_close): msg = await reader.read()` — a fresh timeout per message -/
def cliCloseRead (s : St) (t : Tid) : St :=
  let s := armTmo s t s.cfg.closeTimeout
  match scanClose s.buf with
  | some (c, rest) =>
    let s := (exitTmo { s with buf := rest } t none).1
    closeReturn (cliRespClose { s with closeCode := some c }) t (.ok true)
  | none =>
    let s := { s with buf := [] }
    if s.eof then
      let e := match s.rexc with | some c => Exc.wserr c | none => Exc.eof
      let s := (exitTmo s t none).1
      cliCloseExc s t e
    else if s.rwaiter.isSome then
      let s := (exitTmo s t none).1
      cliCloseExc s t .assertion
    else park { s with rwaiter := some t } t .closeRead

def cliCloseAfterFrame (s : St) (t : Tid) : St :=
  match s.closeCode with
  | some (_ + 1) => closeReturn (cliRespClose s) t (.ok true)   -- `if self._close_code:` (0 is falsy)
  | _ => cliCloseRead s t

def cliCloseAfterWait (s : St) (t : Tid) (code : Nat) : St :=
  if s.closed then closeReturn s t (.ok false)
  else
    let s := setT (setClosed s) t (fun x => { x with startedAt := s.now })
    let r := sendFrame s (.close code) 2
    match r.2 with
    | .park => park r.1 t .closeDrain1
    | .raised e => cliCloseExc { r.1 with wClosing := true } t e
    | .ok => cliCloseAfterFrame { r.1 with wClosing := true } t

def cliCloseEnter (s : St) (t : Tid) (code : Nat) : St :=
  if s.waiting && !s.closing then
    let s := cliSetClosing { s with closeWait := .pending t }
    park (feedData s .closing) t .closeWait
  else cliCloseAfterWait s t code

def closeEnter (s : St) (t : Tid) (code : Nat) (drain : Bool) : St :=
  match s.cfg.side with
  | .server => srvCloseEnter s t code drain
  | .client => cliCloseEnter s t code

/-- the code argument of the `close()` task `t` is running (needed again after `_close_wait` on the client) -/
def closeArg (x : Task) : Nat :=
  match x.op with
  | .close c => c
  | _ => Gen.C13.codeOk

/-! ## `receive()` -/

/-- nested `await self.close(code=…, drain=…)` from inside receive(), which then returns `rr` -/
def recvNestedClose (s : St) (t : Tid) (code : Nat) (drain : Bool) (rr : RecvRes) : St :=
  closeEnter (setT s t (fun x => { x with ret := some rr })) t code drain

/-- the `finally:` of receive(): `_waiting = False`, wake a closer blocked on `_close_wait` -/
def recvFinally (s : St) : St :=
  let s := { s with waiting := false }
  match s.closeWait with
  | .pending c => wakeTask { s with closeWait := .done } c .result
  | _ => s

/-- the `except` clauses of receive() -/
def recvExc (s : St) (t : Tid) (e : Exc) : St :=
  match s.cfg.side, e with
  | .server, .timeout => finish s t (.raised e)
  | .server, .cancelled => finish s t (.raised e)
  | .server, .eof =>
    recvNestedClose { s with closeCode := some Gen.C13.codeOk } t Gen.C13.codeOk true .closed
  | .server, .wserr c => recvNestedClose { s with closeCode := some c } t c true (.msg .error)
  | .server, e =>
    recvNestedClose (srvSetClosing { s with exc := some e } Gen.C13.codeAbnormal) t Gen.C13.codeOk true (.msg .error)
  | .client, .timeout => finish { s with closeCode := some Gen.C13.codeAbnormal } t (.raised e)
  | .client, .cancelled => finish { s with closeCode := some Gen.C13.codeAbnormal } t (.raised e)
  | .client, .eof =>
    recvNestedClose { s with closeCode := some Gen.C13.codeOk } t Gen.C13.codeOk true .closed
  | .client, .wserr c => recvNestedClose { s with closeCode := some c } t c true (.msg .error)
  | .client, e =>
    recvNestedClose { cliSetClosing { s with exc := some e } with closeCode := some Gen.C13.codeAbnormal }
      t Gen.C13.codeOk true (.msg .error)

/-- after `msg = await reader.read()` completed (value or exception) and the timeout block and the
`finally` are done: the rest of the loop body.  `true` = `continue` (next iteration of `while True`) -/
def recvGot (s : St) (t : Tid) (r : Except Exc Msg) : St × Bool :=
  match r with
  | .error e => (recvExc s t e, false)
  | .ok .text => (finish s t (.recv (.msg .text)), false)
  | .ok .error => (finish s t (.recv (.msg .error)), false)
  | .ok (.close c) =>
    (match s.cfg.side with
    | .server =>
      let s := srvSetClosing s c
      if !s.closed && s.cfg.autoclose then (recvNestedClose s t Gen.C13.codeOk false (.msg (.close c)), false)
      else (finish s t (.recv (.msg (.close c))), false)
    | .client =>
      let s := { cliSetClosing s with closeCode := some c }
      if !s.closed && s.cfg.autoclose then (recvNestedClose s t Gen.C13.codeOk true (.msg (.close c)), false)
      else (finish s t (.recv (.msg (.close c))), false))
  | .ok .closing =>
    (match s.cfg.side with
    | .server => (finish (srvSetClosing s Gen.C13.codeOk) t (.recv (.msg .closing)), false)
    | .client => (finish (cliSetClosing s) t (.recv (.msg .closing)), false))
  | .ok .ping =>
    if s.cfg.autoping then
      let r := sendFrame s .pong 0
      match r.2 with
      | .ok => (r.1, true)
      | .raised e => (finish r.1 t (.raised e), false)
      | .park => (park r.1 t .recvPong, false)
    else (finish s t (.recv (.msg .ping)), false)
  | .ok .pong =>
    if s.cfg.autoping then (s, true) else (finish s t (.recv (.msg .pong)), false)

/-- `self._waiting = True` and, with a receive timeout, entering `async_timeout.timeout(receive_timeout)` -/
def recvBegin (s : St) (t : Tid) : St :=
  let s := { s with waiting := true }
  match s.cfg.recvTimeout with
  | some d => if d = 0 then s else armTmo s t d
  | none => s

/-- `receive()` from the top of its `while True` (fuel = number of buffered messages it may skip) -/
def recvLoop (s : St) (t : Tid) : Nat → St
  | 0 => finish s t (.raised .runtime)   -- unreachable: fuel = buffer length + 2
  | fuel + 1 =>
    if s.waiting then finish s t (.raised .runtime)
    else if s.closed then
      match s.cfg.side with
      | .server =>
        let s := { s with connLostCnt := s.connLostCnt + 1 }
        if s.connLostCnt ≥ Gen.C13.thresholdConnLostAccess then finish s t (.raised .runtime)
        else finish s t (.recv .closed)
      | .client => finish s t (.recv .closed)
    else if s.closing then
      match s.cfg.side with
      | .server => finish s t (.recv (.msg .closing))
      | .client => recvNestedClose s t Gen.C13.codeOk true .closed
    else
      let s := recvBegin s t
      if s.buf.isEmpty && !s.eof then
        if s.rwaiter.isSome then recvExc (recvFinally (exitTmo s t none).1) t .assertion
        else park { s with rwaiter := some t } t .recvRead
      else
        let rb := readFromBuffer s
        let g := recvGot (recvFinally (exitTmo rb.1 t none).1) t rb.2
        if g.2 then recvLoop g.1 t fuel else g.1

def recvFuel (s : St) : Nat := s.buf.length + 2

/-! ## running a task (`Task.__step`) -/

/-- the value with which the coroutine is resumed: `none` = normally, `some e` = exception thrown in -/
def resumeValue (x : Task) : Option Exc :=
  if x.mustCancel then some .cancelled
  else match x.fut with
    | .exc e => some e
    | .cancelled => some .cancelled
    | _ => none

def sendStart (s : St) (t : Tid) (fr : Frame) (n : Nat) : St :=
  let r := sendFrame s fr n
  match r.2 with
  | .ok => finish r.1 t .sent
  | .raised e => finish r.1 t (.raised e)
  | .park => park r.1 t .sendDrain

/-- `read()` resumes after `await self._waiter`: `except (CancelledError, TimeoutError): self._waiter = None; raise`,
otherwise `return self._read_from_buffer()` -/
def resumeReadValue (s : St) (rv : Option Exc) : St × Except Exc Msg :=
  let s := if rv = some .cancelled then { s with rwaiter := none } else s
  match rv with
  | some e => (s, .error e)
  | none => readFromBuffer s

/-- receive() after `reader.read()` produced `r`: leave the timeout block, run the `finally`, then the
rest of the loop body -/
def recvAfterRead (s : St) (t : Tid) (r : Except Exc Msg) : St :=
  let x := exitTmo s t (match r with | .error e => some e | .ok _ => none)
  let r' : Except Exc Msg := match r with
    | .error e => .error (x.2.getD e)
    | .ok m => .ok m
  let g := recvGot (recvFinally x.1) t r'
  if g.2 then recvLoop g.1 t (recvFuel g.1) else g.1

/-- resume of a task parked in `reader.read()` inside receive() -/
def resumeRecvRead (s : St) (t : Tid) (rv : Option Exc) : St :=
  let rb := resumeReadValue s rv
  recvAfterRead rb.1 t rb.2

/-- resume of a task parked in `reader.read()` inside close() -/
def resumeCloseRead (s : St) (t : Tid) (rv : Option Exc) : St :=
  let s := if rv = some .cancelled then { s with rwaiter := none } else s
  match rv with
  | some e =>
    let x := exitTmo s t (some e)
    let e := x.2.getD e
    match s.cfg.side with
    | .server => srvCloseExc2 x.1 t e
    | .client => cliCloseExc x.1 t e
  | none =>
    -- `read()` resumes with `return self._read_from_buffer()` — no second emptiness check:
    -- if another reader took the message meanwhile this raises EofStream / the stored exception
    let rb := readFromBuffer s
    let s1 := (exitTmo rb.1 t none).1
    match rb.2, s.cfg.side with
    | .ok (.close c), .server => closeReturn (srvSetCodeCloseTransport s1 c) t (.ok true)
    | .ok _, .server => srvCloseRead rb.1 t
    | .error e, .server => srvCloseExc2 s1 t e
    | .ok (.close c), .client => closeReturn (cliRespClose { s1 with closeCode := some c }) t (.ok true)
    | .ok _, .client => cliCloseRead s1 t
    | .error e, .client => cliCloseExc s1 t e

def runTask (s : St) (t : Tid) : St :=
  let x := getT s t
  let rv := resumeValue x
  let s := setT s t (fun x => { x with mustCancel := false, fut := .none })
  match x.pc with
  | .done => s
  | .start =>
    (match rv with
    | some e => finish s t (.raised e)     -- cancelled before the first step: no code runs
    | none =>
      match x.op with
      | .recv => recvLoop s t (recvFuel s)
      | .close c => closeEnter s t c true
      | .send n => sendStart s t .data n
      | .ping => sendStart s t .ping 0
      | .hbPing => sendStart s t .ping 0)
  | .sendDrain =>
    (match rv with
    | some e => finish s t (.raised e)
    | none => finish s t .sent)
  | .recvPong =>
    (match rv with
    | some e => finish s t (.raised e)
    | none => recvLoop s t (recvFuel s))
  | .recvRead => resumeRecvRead s t rv
  | .closeDrain1 =>
    let s := { s with wClosing := true }      -- `finally: self._closing = True` of `WebSocketWriter.close`
    (match s.cfg.side, rv with
    | .server, some e => srvCloseExc1 s t e
    | .server, none => srvCloseAfterFrame s t
    | .client, some e => cliCloseExc s t e
    | .client, none => cliCloseAfterFrame s t)
  | .closeDrain2 =>
    (match rv with
    | some e => srvCloseExc1 s t e
    | none => srvCloseAfterDrain s t)
  | .closeWait =>
    (match rv with
    | some e => closeReturn s t (.error e)     -- not inside any try: no cleanup
    | none =>
      match s.cfg.side with
      | .server => srvCloseAfterWait s t
      | .client => cliCloseAfterWait s t (closeArg x))
  | .closeRead => resumeCloseRead s t rv

/-! ## loop callbacks -/

/-- `_ping_task_done(task)` -/
def pingTaskDone (s : St) (o : Option Outcome) : St :=
  let s := match o with
    | some (.raised .cancelled) => s
    | some (.raised e) => handlePingPongExc s e
    | _ => s
  { s with pingTask := none }

/-- `_send_heartbeat()` once it decides to ping: arm the pong timer, create the (eager) ping task -/
def hbBegin (s : St) (hb : Nat) : St :=
  let s := cancelPong s
  let s := { s with pongCb := true, timers := insertTimer (calcWhen s.now (hb / 2)) .pongTimeout s.timers }
  -- `asyncio.Task(send_frame(b"", PING), eager_start=True)`
  { s with tasks := s.tasks ++ [{ op := .hbPing, pc := .start }] }

/-- `_send_heartbeat()` -/
def sendHeartbeat (s : St) : St :=
  let s := { s with hbCb := false }
  if s.needReset then s
  else if s.now < s.hbWhen then { s with hbCb := true, timers := insertTimer s.hbWhen .sendHb s.timers }
  else
    match s.cfg.heartbeat with
    | none => s
    | some hb =>
      let p := s.tasks.length
      let r := sendFrame (hbBegin s hb) .ping 0
      match r.2 with
      | .park => { park r.1 p .sendDrain with pingTask := some p }
      | .ok =>
        let s := setT r.1 p (fun x => { x with pc := .done, outcome := some .sent })
        pingTaskDone s (some .sent)
      | .raised e =>
        let s := setT r.1 p (fun x => { x with pc := .done, outcome := some (.raised e) })
        pingTaskDone s (some (.raised e))

/-- `_pong_not_received()` -/
def pongNotReceived (s : St) : St :=
  match s.cfg.side with
  | .server => if s.protoTransport then handlePingPongExc s .timeout else s
  | .client => handlePingPongExc s .pongTimeout

/-- `BaseProtocol.connection_lost(exc)` -/
def baseConnLost (s : St) (withExc : Bool) : St :=
  let s := { s with protoTransport := false }
  if !s.paused then s
  else match s.drain with
    | .none => s
    | .cancelled => { s with drain := .none }
    | .pending =>
      let ws := s.drainWaiters
      let s := { s with drain := .none, drainWaiters := [] }
      wakeAll s ws (if withExc then .exc .conn else .result)

def connLost (s : St) (withExc : Bool) : St :=
  if s.lost then s
  else
    let s := { s with lost := true }
    match s.cfg.side with
    | .server => feedEof (baseConnLost s withExc)
    | .client =>
      let s := if s.protoClose then s else feedEof s
      -- `super().connection_lost(reraised_exc)`: the handler's own queue is never at EOF on an
      -- upgraded connection, so `reraised_exc` is `ServerDisconnectedError` even for a clean EOF
      baseConnLost s true

def runCb (s : St) : Cb → St
  | .task t => runTask s t
  | .connLost e => connLost s e
  | .flushHb => if !s.needReset then s else { resetHeartbeat s with needReset := false }
  | .sendHb => sendHeartbeat s
  | .pongTimeout => pongNotReceived s
  | .timeout t => setT (cancelTask s t) t (fun x => { x with tmo := .expiring })
  | .pingDone t => pingTaskDone s (getT s t).outcome

/-- move every timer that is due at `now` to the ready queue -/
def fireDue (s : St) : St :=
  let due := s.timers.filter (fun p => p.1 ≤ s.now)
  { s with timers := s.timers.filter (fun p => !(p.1 ≤ s.now)), ready := s.ready ++ due.map (·.2) }

def peerFrame (s : St) (f : PeerFrame) : St :=
  if s.trClosing || s.protoClose then s
  else
    let s := onDataReceived s
    match f with
    | .text => feedData s .text
    | .ping => feedData s .ping
    | .pong => feedData s .pong
    | .close c => feedData s (.close c)
    | .bad => { queueSetException s Gen.C13.codeProtocolError with protoClose := true }

/-- one transition of the whole system -/
def step (s : St) : Label → St
  | .call t op =>
    if t < appTasks && (getT s t).pc = .done then
      let s := setT s t (fun _ => { op := op, pc := .start })
      { s with ready := s.ready ++ [.task t] }
    else s
  | .cancel t => if t < appTasks then cancelTask s t else s
  | .peer f => peerFrame s f
  | .drop e =>
    if s.trClosing then s
    else { s with trClosing := true, ready := s.ready ++ [.connLost e], trClosedAt := some s.now }
  | .pauseW => if !s.paused && !s.trClosing then { s with paused := true } else s
  | .resumeW =>
    if s.paused && !s.lost then
      let s := { s with paused := false }
      match s.drain with
      | .none => s
      | .cancelled => { s with drain := .none }
      | .pending =>
        let ws := s.drainWaiters
        wakeAll { s with drain := .none, drainWaiters := [] } ws .result
    else s
  | .tick =>
    match s.ready with
    | cb :: rest => runCb { s with ready := rest } cb
    | [] =>
      match s.timers with
      | [] => s
      | (w, _) :: _ => fireDue { s with now := max s.now w }
  | .adv d =>
    if !s.ready.isEmpty then s
    else match s.timers with
      | [] => { s with now := s.now + d }
      | (w, _) :: _ => { s with now := max s.now (min (s.now + d) w) }

def run (s : St) (ls : List Label) : St := ls.foldl step s

end Aio.C13
