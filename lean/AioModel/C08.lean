import AioModel.Basic
import AioModel.Generated.C08
/-!
# C08 model — `aiohttp/streams.py:StreamReader` + `aiohttp/base_protocol.py:BaseProtocol`
(pause/resume of reading)

Transcription table (Python → Lean):

* `StreamReader.__init__`                  → `init`
* `set_read_chunk_size`                    → `setChunk`
* `BaseProtocol.pause_reading`             → `pauseReading`
* `BaseProtocol.resume_reading`            → `resumeReading`  (no parser attached: `data_received(b"")`
                                              is a no-op, i.e. no re-entrant feeding)
* waking `self._waiter` (`set_result`)     → `wake`;  `set_exception(waiter, exc)` → `wakeExc`
* `feed_data`, `begin_http_chunk_receiving`, `end_http_chunk_receiving`, `feed_eof`,
  `set_exception`                          → `feed`, `beginChunk`, `endChunk`, `feedEof`, `setExc`
* `_read_nowait_chunk`                     → `rnc`      (the single consumption primitive)
* `_read_nowait`                           → `readNowait`
* `_wait`                                  → `park`
* `read(n>0)` / `readany` loops            → `contRead` / `contReadAny`
* `read(-1)`                               → `startRead none` / `contReadAll`
* `readuntil` / `readline`                 → `startReadUntil` / `contReadUntil` / `untilInner`
* `readexactly`                            → `startReadExactly` / `contReadExactly`
* `readchunk`                              → `contReadChunk` / `chunkSplits`
* `read_nowait`                            → `doReadNowait`
* `AsyncStreamIterator.__anext__`, `ChunkTupleAsyncStreamIterator.__anext__` → `iterOut`
* resumption of a parked coroutine by the event loop → `Op.wakeup` / `resume`

A consumer coroutine is run until it returns, raises, or parks at `await waiter`
(`Out.blocked`; the continuation is stored in `S.parked`).  Producer operations may then be
applied in any number and order; `Op.wakeup` resumes the parked coroutine once its future
is resolved.  One consumer coroutine at a time (the documented discipline of the class);
`read_nowait` and `set_read_chunk_size` are synchronous and allowed at any time.

Ghost fields (never read by the transcribed code, only by theorems): `fed`, `taken`,
`bounds`, `delivered`, `lost`.
-/
namespace Aio.C08
open Aio

inductive Ev where
  | pause    -- transport.pause_reading()
  | resume   -- transport.resume_reading()
deriving DecidableEq, Repr

inductive Err where
  | exc (id : Nat)   -- the exception installed by set_exception
  | runtime          -- RuntimeError
  | assertion        -- AssertionError (feed_data after feed_eof)
  | value            -- ValueError (empty separator)
  | lineTooLong      -- LineTooLong
  | fuel             -- model loop bound exhausted (never produced; a mismatch if it were)
deriving DecidableEq, Repr

/-- where a parked consumer coroutine is waiting -/
inductive Kind where
  | read (n : Nat)                          -- `read(n)`, n > 0
  | readAny
  | readAll                                 -- `read(-1)`, inside its `readany()`
  | readUntil (sep : Bytes) (maxSize : Nat)
  | readExactly (n : Nat)                   -- bytes still wanted; inside its `read(n)`
  | readChunk
deriving DecidableEq, Repr

structure Pend where
  kind : Kind
  acc : Bytes     -- bytes already taken out of the buffer by this call, not yet returned
  iter : Bool     -- called through an async iterator
deriving DecidableEq, Repr

/-- state of the future the parked coroutine awaits -/
inductive Fut where
  | pending | ok | exc (id : Nat)
deriving DecidableEq, Repr

inductive Out where
  | ok                                    -- producer / setter returned
  | data (b : Bytes)
  | chunk (b : Bytes) (endOfChunk : Bool) -- readchunk
  | stop                                  -- StopAsyncIteration
  | blocked                               -- the coroutine parked in `_wait`
  | err (e : Err)
  | incomplete (part : Bytes) (expected : Nat)  -- asyncio.IncompleteReadError
  | bad                                   -- op not admissible in this state (driver misuse)
deriving DecidableEq, Repr

structure S where
  -- StreamReader
  bufs : List Bytes := []            -- `_buffer`
  off : Nat := 0                     -- `_buffer_offset`
  size : Nat := 0                    -- `_size`
  cursor : Nat := 0                  -- `_cursor`
  total : Nat := 0                   -- `total_bytes`
  splits : Option (List Nat) := none -- `_http_chunk_splits`
  eof : Bool := false
  exc : Option Nat := none           -- `_exception`
  low : Nat
  high : Nat
  lowChunks : Nat
  highChunks : Nat
  /-- behaviour flag (configuration, never changes): `_wait()` re-checks `self._exception` after the
  awaited future resolved normally (present from the `fix:` commit on; probed from the source) -/
  recheck : Bool := false
  waiter : Bool := false             -- `_waiter is not None`
  -- the consumer coroutine
  parked : Option Pend := none
  fut : Fut := .ok
  -- BaseProtocol
  connected : Bool := true           -- `transport is not None`
  paused : Bool := false             -- `_reading_paused`
  tpaused : Bool := false            -- the transport itself (last of pause/resume calls)
  evs : List Ev := []                -- transport calls made during the current step
  -- ghost
  fed : Bytes := []                  -- every byte accepted by feed_data, in order
  taken : Bytes := []                -- every byte removed from the buffer, in order
  bounds : List Nat := []            -- `total_bytes` at every end_http_chunk_receiving (chunked mode)
  delivered : Bytes := []            -- concatenation of the bytes returned to the consumer
  lost : Bool := false               -- a call raised after taking bytes it never returned
deriving DecidableEq, Repr

/-- `StreamReader(protocol, limit)`, for either value of the `_wait` behaviour flag -/
def initF (recheck : Bool) (limit : Nat) : S :=
  let hc := max Gen.C08.chunkFloor (limit / Gen.C08.chunkDiv)
  { low := limit, high := limit * Gen.C08.highMul, highChunks := hc, lowChunks := hc / Gen.C08.lowDiv,
    recheck := recheck }

/-- `StreamReader(protocol, limit)` of the source as it is now (flag probed on every run) -/
def init (limit : Nat) : S := initF Gen.C08.waitRechecksException limit

/-- `set_read_chunk_size(n)` -/
def setChunk (s : S) (n : Nat) : S :=
  if n > s.low then { s with low := n, high := n * 2 } else s

/-- `BaseProtocol.pause_reading()` -/
def pauseReading (s : S) : S :=
  if s.connected then { s with paused := true, tpaused := true, evs := s.evs ++ [.pause] }
  else { s with paused := true }

/-- `BaseProtocol.resume_reading()` (with or without `resume_parser`; no parser attached) -/
def resumeReading (s : S) : S :=
  if s.connected then { s with paused := false, tpaused := false, evs := s.evs ++ [.resume] }
  else { s with paused := false }

/-- `waiter = self._waiter; if waiter is not None: self._waiter = None; set_result(waiter, None)` -/
def wake (s : S) : S := if s.waiter then { s with waiter := false, fut := .ok } else s

def wakeExc (s : S) (e : Nat) : S := if s.waiter then { s with waiter := false, fut := .exc e } else s

/-! ## producer side -/

def feed (s : S) (d : Bytes) : S × Out :=
  if s.eof then (s, .err .assertion)
  else if d.isEmpty then (s, .ok)
  else
    let s := { s with size := s.size + d.length, bufs := s.bufs ++ [d], total := s.total + d.length,
                      fed := s.fed ++ d }
    let s := wake s
    let s := if s.size > s.high then pauseReading s else s
    (s, .ok)

def beginChunk (s : S) : S × Out :=
  match s.splits with
  | some _ => (s, .ok)
  | none => if s.total ≠ 0 then (s, .err .runtime) else ({ s with splits := some [] }, .ok)

def endChunk (s : S) : S × Out :=
  match s.splits with
  | none => (s, .err .runtime)
  | some sp =>
    let s := { s with bounds := s.bounds ++ [s.total] }
    let pos := sp.getLast?.getD 0
    if s.total = pos then (s, .ok)
    else
      let s := { s with splits := some (sp ++ [s.total]) }
      let s := if sp.length + 1 > s.highChunks then pauseReading s else s
      (wake s, .ok)

def feedEof (s : S) : S × Out :=
  let s := { s with eof := true }
  let s := wake s
  (resumeReading s, .ok)

def setExc (s : S) (e : Nat) : S × Out :=
  let s := { s with exc := some e }
  (wakeExc s e, .ok)

/-! ## the consumption primitive -/

/-- `while chunk_splits and chunk_splits[0] < self._cursor: chunk_splits.popleft()` -/
def dropSplits (sp : Option (List Nat)) (cursor : Nat) : Option (List Nat) :=
  sp.map (fun l => l.dropWhile (· < cursor))

def chunksLow (s : S) : Bool :=
  match s.splits with
  | none => true
  | some l => l.length < s.lowChunks

/-- which bytes `_read_nowait_chunk(n)` takes from the first buffer `b` (rest `t`) at offset
`off`: `(data, new deque, new offset)`; `none` = -1 -/
def rncSel (b : Bytes) (t : List Bytes) (off : Nat) : Option Nat → Bytes × List Bytes × Nat
  | some k => if b.length - off > k then ((b.drop off).take k, b :: t, off + k) else (b.drop off, t, 0)
  | none => (b.drop off, t, 0)

/-- bookkeeping of `_read_nowait_chunk` after the data was selected -/
def rncUpd (s : S) (data : Bytes) (bufs : List Bytes) (off : Nat) : S :=
  { s with bufs := bufs, off := off, size := s.size - data.length, cursor := s.cursor + data.length,
           splits := dropSplits s.splits (s.cursor + data.length), taken := s.taken ++ data }

/-- `if self._size < self._low_water and (splits is None or len(splits) < low_water_chunks): resume_reading()` -/
def maybeResume (s : S) : S := if s.size < s.low && chunksLow s then resumeReading s else s

/-- `_read_nowait_chunk(n)`; `none` = -1.  Callers guarantee a non-empty buffer
(the real code would raise IndexError otherwise). -/
def rnc (s : S) (n : Option Nat) : S × Bytes :=
  match s.bufs with
  | [] => (s, [])
  | b :: t =>
    let sel := rncSel b t s.off n
    (maybeResume (rncUpd s sel.1 sel.2.1 sel.2.2), sel.1)

/-- `[self._read_nowait_chunk(-1) for _ in range(count)]` joined -/
def drainN : Nat → S → Bytes → S × Bytes
  | 0, s, acc => (s, acc)
  | k + 1, s, acc => let (s, d) := rnc s none; drainN k s (acc ++ d)

/-- the `while self._buffer:` loop of `_read_nowait(n)`, n ≥ 0 -/
def takeN : Nat → S → Nat → Bytes → S × Bytes
  | 0, s, _, acc => (s, acc)
  | fuel + 1, s, n, acc =>
    if s.bufs.isEmpty then (s, acc)
    else
      let (s, d) := rnc s (some n)
      let n := n - d.length
      if n = 0 then (s, acc ++ d) else takeN fuel s n (acc ++ d)

/-- `_read_nowait(n)`; `none` = -1 -/
def readNowait (s : S) : Option Nat → S × Bytes
  | none => drainN s.bufs.length s []
  | some n => takeN (s.bufs.length + 1) s n []

/-! ## consumer coroutines -/

/-- raise out of a consumer call that had already taken `acc` out of the buffer -/
def raise (s : S) (acc : Bytes) (e : Err) : S × Out :=
  ({ s with lost := s.lost || !acc.isEmpty }, .err e)

/-- `await self._wait(...)` up to the suspension point -/
def park (s : S) (p : Pend) : S × Out :=
  if !s.connected then raise s p.acc .runtime
  else if s.waiter then raise s p.acc .runtime
  else ({ s with waiter := true, fut := .pending, parked := some p }, .blocked)

/-- `read(n)`, n > 0, from its `while not self._buffer and not self._eof` loop -/
def contRead (s : S) (n : Nat) (iter : Bool) : S × Out :=
  if s.bufs.isEmpty && !s.eof then park s ⟨.read n, [], iter⟩
  else let (s, d) := readNowait s (some n); (s, .data d)

/-- `readany()` from its wait loop -/
def contReadAny (s : S) (iter : Bool) : S × Out :=
  if s.bufs.isEmpty && !s.eof then park s ⟨.readAny, [], iter⟩
  else let (s, d) := readNowait s none; (s, .data d)

/-- `read(-1)`: `while True: block = await self.readany(); if not block: break`, entered inside
`readany`'s wait loop with `acc` = the blocks so far -/
def contReadAll : Nat → S → Bytes → Bool → S × Out
  | 0, s, acc, _ => raise s acc .fuel
  | fuel + 1, s, acc, iter =>
    if s.bufs.isEmpty && !s.eof then park s ⟨.readAll, acc, iter⟩
    else
      let (s, d) := readNowait s none
      if d.isEmpty then (s, .data acc)
      else
        let acc := acc ++ d
        match s.exc with                      -- next `readany()` re-checks the exception
        | some e => raise s acc (.exc e)
        | none => contReadAll fuel s acc iter

/-- inner loop of `readuntil`: `while self._buffer and not_enough`.
Result: `(state, chunk, found, tooLong)` -/
def untilInner : Nat → S → Bytes → Nat → Bytes → S × Bytes × Bool × Bool
  | 0, s, _, _, acc => (s, acc, false, false)
  | fuel + 1, s, sep, maxSize, acc =>
    match s.bufs with
    | [] => (s, acc, false, false)
    | b :: _ =>
      let r := findSub sep (b.drop s.off) 0
      let (s, d) := rnc s (r.map (· + sep.length))
      let acc := acc ++ d
      if acc.length > maxSize then (s, acc, r.isSome, true)
      else if r.isSome then (s, acc, true, false)
      else untilInner fuel s sep maxSize acc

/-- `readuntil` from the top of `while not_enough` -/
def contReadUntil (s : S) (sep : Bytes) (maxSize : Nat) (acc : Bytes) (iter : Bool) : S × Out :=
  let (s, acc, found, tooLong) := untilInner (s.bufs.length + 1) s sep maxSize acc
  if tooLong then raise s acc .lineTooLong
  else if found then (s, .data acc)
  else if s.eof then (s, .data acc)
  else park s ⟨.readUntil sep maxSize, acc, iter⟩

/-- `readexactly`: inside the wait loop of its current `read(n)` (n > 0) -/
def contReadExactly : Nat → S → Nat → Bytes → S × Out
  | 0, s, _, acc => raise s acc .fuel
  | fuel + 1, s, n, acc =>
    if s.bufs.isEmpty && !s.eof then park s ⟨.readExactly n, acc, false⟩
    else
      let (s, d) := readNowait s (some n)
      if d.isEmpty then (s, .incomplete acc (acc.length + n))
      else
        let acc := acc ++ d
        let n := n - d.length
        if n = 0 then (s, .data acc)
        else match s.exc with               -- next `read(n)` re-checks the exception
          | some e => raise s acc (.exc e)
          | none => contReadExactly fuel (setChunk s n) n acc

/-- `while self._http_chunk_splits: pos = popleft() …` of `readchunk` -/
def chunkSplits (s : S) : List Nat → S × Option Out
  | [] => ({ s with splits := some [] }, none)
  | p :: rest =>
    let s := { s with splits := some rest }
    if p = s.cursor then (s, some (.chunk [] true))
    else if p > s.cursor then
      let (s, d) := readNowait s (some (p - s.cursor))
      (s, some (.chunk d true))
    else chunkSplits s rest

/-- `readchunk` from the top of its `while True` -/
def contReadChunk (s : S) (iter : Bool) : S × Out :=
  match s.exc with
  | some e => raise s [] (.exc e)
  | none =>
    let (s, r) := match s.splits with
      | some l => chunkSplits s l
      | none => (s, none)
    match r with
    | some o => (s, o)
    | none =>
      if !s.bufs.isEmpty then let (s, d) := rnc s none; (s, .chunk d false)
      else if s.eof then (s, .chunk [] false)
      else park s ⟨.readChunk, [], iter⟩

def allFuel (s : S) : Nat := s.bufs.length + 3

/-- `await read(n)`; `none` = -1 -/
def startRead (s : S) (n : Option Nat) (iter : Bool) : S × Out :=
  match s.exc with
  | some e => raise s [] (.exc e)
  | none =>
    match n with
    | some 0 => (s, .data [])
    | some n => contRead (setChunk s n) n iter
    | none => let s := setChunk s Gen.C08.maxsize; contReadAll (allFuel s) s [] iter

def startReadAny (s : S) (iter : Bool) : S × Out :=
  match s.exc with
  | some e => raise s [] (.exc e)
  | none => contReadAny s iter

/-- `readuntil(sep, max_size=m)`; `m = 0` stands for `None` (`max_size or self._high_water`) -/
def startReadUntil (s : S) (sep : Bytes) (m : Nat) (iter : Bool) : S × Out :=
  if sep.isEmpty then (s, .err .value)
  else match s.exc with
    | some e => raise s [] (.exc e)
    | none => contReadUntil s sep (if m = 0 then s.high else m) [] iter

def startReadExactly (s : S) (n : Nat) : S × Out :=
  match s.exc with
  | some e => raise s [] (.exc e)
  | none => if n = 0 then (s, .data []) else contReadExactly (allFuel s) (setChunk s n) n []

/-- `read_nowait(n)` -/
def doReadNowait (s : S) (n : Option Nat) : S × Out :=
  if s.parked.isSome && !s.waiter then (s, .bad)   -- a woken coroutine is about to run: second consumer
  else match s.exc with
  | some e => raise s [] (.exc e)
  | none =>
    if s.waiter then (s, .err .runtime)
    else let (s, d) := readNowait s n; (s, .data d)

/-- the event loop resumes the parked coroutine after its future was resolved -/
def resume (s : S) (p : Pend) : S × Out :=
  let s := { s with parked := none }
  match s.fut with
  | .pending => (s, .bad)   -- excluded by `step`
  | .exc e => raise s p.acc (.exc e)
  | .ok =>
    -- `_wait()` after the `finally`: `if self._exception is not None: raise self._exception` (flag)
    match (if s.recheck then s.exc else none) with
    | some e => raise s p.acc (.exc e)
    | none =>
    match p.kind with
    | .read n => contRead s n p.iter
    | .readAny => contReadAny s p.iter
    | .readAll => contReadAll (allFuel s) s p.acc p.iter
    | .readUntil sep m => contReadUntil s sep m p.acc p.iter
    | .readExactly n => contReadExactly (allFuel s) s n p.acc
    | .readChunk => contReadChunk s p.iter

inductive Op where
  | feed (d : Bytes)
  | beginChunk
  | endChunk
  | feedEof
  | setExc (id : Nat)
  | disconnect                                  -- connection_lost: `transport = None`
  | setChunkSize (n : Nat)
  | read (n : Option Nat) (iter : Bool)         -- `read(n)` / `iter_chunked(n).__anext__()`
  | readAny (iter : Bool)
  | readUntil (sep : Bytes) (maxSize : Nat) (iter : Bool)  -- readline = readUntil [10]
  | readExactly (n : Nat)
  | readChunk (iter : Bool)
  | readNowait (n : Option Nat)
  | wakeup
deriving DecidableEq, Repr

/-- `AsyncStreamIterator.__anext__` / `ChunkTupleAsyncStreamIterator.__anext__` -/
def iterOut (iter : Bool) (o : Out) : Out :=
  if iter then
    match o with
    | .data [] => .stop
    | .chunk [] false => .stop
    | o => o
  else o

def outBytes : Out → Bytes
  | .data b => b
  | .chunk b _ => b
  | .incomplete b _ => b
  | _ => []

/-- start a consumer coroutine: only when none is parked -/
def consumer (s : S) (iter : Bool) (f : S → S × Out) : S × Out :=
  if s.parked.isSome then (s, .bad)
  else let (s, o) := f s; (s, iterOut iter o)

def core (s : S) : Op → S × Out
  | .feed d => feed s d
  | .beginChunk => beginChunk s
  | .endChunk => endChunk s
  | .feedEof => feedEof s
  | .setExc e => setExc s e
  | .disconnect => ({ s with connected := false }, .ok)
  | .setChunkSize n => (setChunk s n, .ok)
  | .read n iter =>
    -- `iter_chunked(n)` calls `set_read_chunk_size(n)` before the first `read(n)`
    consumer s iter (fun s => startRead (if iter then setChunk s (n.getD 0) else s) n iter)
  | .readAny iter => consumer s iter (fun s => startReadAny s iter)
  | .readUntil sep m iter => consumer s iter (fun s => startReadUntil s sep m iter)
  | .readExactly n => consumer s false (fun s => startReadExactly s n)
  | .readChunk iter => consumer s iter (fun s => contReadChunk s iter)
  | .readNowait n => doReadNowait s n
  | .wakeup =>
    match s.parked with
    | none => (s, .bad)
    | some p =>
      if s.waiter then (s, .bad)
      else let (s, o) := resume s p; (s, iterOut p.iter o)

/-- one operation; `evs` holds the transport calls of this step, `delivered` accumulates
what the operation returned -/
def step (s : S) (op : Op) : S × Out :=
  let (s, o) := core { s with evs := [] } op
  ({ s with delivered := s.delivered ++ outBytes o }, o)

def run (s : S) : List Op → S × List Out
  | [] => (s, [])
  | op :: ops =>
    let (s, o) := step s op
    let (s, os) := run s ops
    (s, o :: os)

/-- state after a run -/
def exec (s : S) (ops : List Op) : S := ops.foldl (fun s op => (step s op).1) s

end Aio.C08
