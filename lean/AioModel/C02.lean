import AioModel.Basic
import AioModel.Http
import AioModel.C04
import AioModel.Generated.C02
/-!
# C02 model — the framing / keep-alive *decision* layers of both aiohttp endpoints

Sender side, server (`aiohttp/web_response.py`):
* `respApiCheck`  = `StreamResponse.enable_chunked_encoding` / `content_length.setter` guards
* `respStart`     = `Response._start` (Content-Length computation for the non-streaming class)
* `startCompression`, `doStartCompression`
                  = `StreamResponse._start_compression`, `StreamResponse._do_start_compression`,
                    `Response._do_start_compression`
* `respPrep`      = `StreamResponse.prepare` → `_start` → `_prepare_headers`
                    (keep-alive, chunked-by-version, empty-body statuses, Connection header)
* `respSent`      = `Response.write_eof` / handler `write()` calls: which bytes reach the writer
* `frameBody`     = what `StreamWriter` (model `AioModel/C04.lean`) makes of them

Sender side, client (`aiohttp/client_reqrep.py`):
* `reqPrep`       = `ClientRequest.__init__` steps `_update_content_encoding`,
                    `_update_body_from_data`, `_update_transfer_encoding`, `_update_expect_continue`,
                    then `ClientRequestBase._send` (Connection header by version) and
                    `ClientRequest._create_writer`, `_should_write`, `_get_content_length`
* `reqSent`       = `ClientRequest._write_bytes` → `Payload.write_with_length(writer, content_length)`

Receive side (`aiohttp/http_parser.py`, shared model `AioModel/Http.lean`):
* `cascade`       = the payload-selection cascade of `HttpParser.feed_data`
                    (`empty_body / length>0 or chunked / CONNECT / read_until_eof / none`);
                    `onHeaderBlock_eq_cascade` (AioProps/C02Lemmas) proves it *is* the tail of
                    `Aio.Http.onHeaderBlock`, not a second transcription
* `respClose`     = the `close` computation of `HttpResponseParser.parse_message`
* `reqClose`      = the `close` computation of `HttpRequestParser.parse_message`
* `clientKeeps`   = `ResponseHandler.should_close` at release + `BaseConnector._release`
* `serverKeeps`   = `RequestHandler.start`: `self._keepalive = bool(resp.keep_alive)` …

zlib is not modelled: the length of a whole-body compression is an oracle column (`zlen`).
-/
namespace Aio.C02
open Aio

/-! ## small vocabulary -/

structure Ver where
  maj : Nat
  min : Nat
deriving Repr, DecidableEq, BEq

def Ver.is11 (v : Ver) : Bool := v.maj == 1 && v.min == 1
def Ver.is10 (v : Ver) : Bool := v.maj == 1 && v.min == 0
/-- `version >= HttpVersion11` (tuple order) -/
def Ver.ge11 (v : Ver) : Bool := v.maj > 1 || (v.maj == 1 && v.min ≥ 1)

inductive Coding | deflate | gzip | identity
deriving Repr, DecidableEq, BEq

def Coding.name : Coding → Bytes
  | .deflate => ascii "deflate" | .gzip => ascii "gzip" | .identity => ascii "identity"

def codingOfIdx : Nat → Coding
  | 0 => .deflate | 1 => .gzip | _ => .identity

/-- `CONTENT_CODINGS` in dictionary (= enum definition) order, from the generated table -/
def contentCodings : List Coding :=
  Gen.C02.contentCodings.filterMap (fun s =>
    if Http.ofNats s == ascii "deflate" then some .deflate
    else if Http.ofNats s == ascii "gzip" then some .gzip
    else if Http.ofNats s == ascii "identity" then some .identity else none)

def bHEAD : Bytes := ascii "HEAD"
def bCONNECT : Bytes := ascii "CONNECT"

def inList (tbl : List (List Nat)) (m : Bytes) : Bool := tbl.any (fun s => Http.ofNats s == m)

/-- `helpers.must_be_empty_body(method, code)` -/
def mustBeEmptyBody (method : Bytes) (code : Nat) : Bool :=
  Http.isEmptyBodyStatus code || inList Gen.Http.emptyBodyMethods method ||
    (200 ≤ code && code < 300 && method == bCONNECT)

/-- `helpers.should_remove_content_length(method, code)` -/
def shouldRemoveCL (method : Bytes) (code : Nat) : Bool :=
  Http.isEmptyBodyStatus code || (200 ≤ code && code < 300 && method == bCONNECT)

/-! ## server: response preparation -/

/-- body given to `web.Response(...)` -/
inductive RBody where
  | none                          -- `body=None`
  | bytes (n : Nat)               -- bytes / bytearray / text of encoded length n
  | payload (size : Option Nat)   -- a `Payload` with that `.size`
deriving Repr, DecidableEq

structure RespIn where
  ver : Ver                       -- `request.version`
  method : Bytes                  -- `request.method`
  status : Nat
  /-- `web.Response` (True) or plain `StreamResponse` / `FileResponse` (False) -/
  isResponse : Bool
  body : RBody := .none           -- only read when `isResponse`
  /-- a `Content-Length` header is present (value) -/
  userCL : Option Nat := none
  /-- `enable_chunked_encoding()` was called -/
  chunked : Bool := false
  /-- `enable_compression(force)` was called -/
  compression : Bool := false
  force : Option Coding := none
  /-- a `Content-Encoding` header was already present when `enable_compression` was called -/
  userCE : Bool := false
  /-- request's `Accept-Encoding` header value -/
  acceptEnc : Bytes := []
  /-- the handler put a `Connection` header on the response: `some true` = close,
  `some false` = keep-alive -/
  userConn : Option Bool := none
  userCT : Bool := false
  /-- `request.keep_alive` -/
  reqKeepAlive : Bool := true
  /-- `resp.force_close()` was called -/
  forceClose : Bool := false
  /-- oracle: `len(compress(body) + flush())` for the whole-body compression -/
  zlen : Nat := 0
deriving Repr

inductive PErr where
  | chunkedWithCL        -- RuntimeError: enable_chunked_encoding() with a Content-Length header
  | chunkedNot11         -- RuntimeError: "Using chunked encoding is forbidden for HTTP/x.y"
  | compressNoBody       -- AssertionError: `assert self._body is not None` in Response._do_start_compression
deriving Repr, DecidableEq

def PErr.name : PErr → String
  | .chunkedWithCL => "chunked-with-cl" | .chunkedNot11 => "chunked-not-11" | .compressNoBody => "compress-no-body"

structure RespOut where
  /-- final `Content-Length` header -/
  cl : Option Nat
  /-- final `Transfer-Encoding: chunked` header -/
  te : Bool
  /-- `Connection` header added by the server: `some true` = close, `some false` = keep-alive -/
  conn : Option Bool
  /-- `Content-Encoding` header added -/
  ce : Option Coding
  /-- `Content-Type: application/octet-stream` added by default -/
  ctDefault : Bool
  wlength : Option Nat
  wchunked : Bool
  /-- the writer compresses what is written -/
  wcompress : Bool
  /-- the whole body was compressed up front (`_compressed_body`) -/
  bodyCompressed : Bool
  /-- `resp.keep_alive` after prepare — what `RequestHandler.start` consults -/
  keepAlive : Bool
  emptyBody : Bool
deriving Repr, DecidableEq

/-- guards evaluated when the handler configures the response -/
def respApiCheck (x : RespIn) : Option PErr :=
  if x.chunked && x.userCL.isSome then some .chunkedWithCL else none

/-- `Response._start`: the Content-Length header before `_prepare_headers` -/
def respStart (x : RespIn) : Option Nat :=
  if !x.isResponse then x.userCL else
  match x.userCL with
  | some n => if shouldRemoveCL x.method x.status then none else some n
  | none =>
    if x.chunked then none else
    match x.body with
    | .payload size => size
    | .bytes n =>
      if n != 0 || (x.status != 304 && x.method != bHEAD) then some n else none
    | .none => if x.status != 304 && x.method != bHEAD then some 0 else none

/-- `_start_compression`: the coding that `_do_start_compression` is called with, if any -/
def startCompression (x : RespIn) : Option Coding :=
  if !(x.compression && !x.userCE) then none else
  match x.force with
  | some c => some c
  | none =>
    let ae := Http.lower x.acceptEnc
    contentCodings.find? (fun c => (findSub c.name ae 0).isSome)

/-- state threaded through `_prepare_headers` -/
structure Prep where
  cl : Option Nat
  ce : Option Coding := none
  wcompress : Bool := false
  bodyCompressed : Bool := false
deriving Repr

/-- `_do_start_compression(coding)` for both classes -/
def doStartCompression (x : RespIn) (p : Prep) (c : Coding) : Except PErr Prep :=
  let streaming := !x.isResponse || x.chunked || (match x.body with | .payload _ => true | _ => false)
  if streaming then
    if c = .identity then .ok p
    else .ok { p with ce := some c, wcompress := true, cl := none }
  else
    if c = .identity then .ok p
    else match x.body with
      | .none => .error .compressNoBody
      | _ => .ok { p with ce := some c, bodyCompressed := true, cl := some x.zlen }

/-- `Response.content_length` / `StreamResponse.content_length` as read by `_prepare_headers` -/
def contentLengthProp (x : RespIn) (p : Prep) : Option Nat :=
  if !x.isResponse then p.cl else
  if x.chunked then none else
  match p.cl with
  | some n => some n
  | none =>
    if p.bodyCompressed then some x.zlen else
    match x.body with
    | .payload _ => none
    | .bytes n => some n
    | .none => some 0

/-- `StreamResponse.prepare` → `_start` → `_prepare_headers` -/
def respPrep (x : RespIn) : Except PErr RespOut :=
  match respApiCheck x with
  | some e => .error e
  | none =>
  let emptyBody := mustBeEmptyBody x.method x.status
  let p0 : Prep := { cl := respStart x }
  let keepAlive := if x.forceClose then false else x.reqKeepAlive
  let pc : Except PErr Prep :=
    match startCompression x with
    | some c => doStartCompression x p0 c
    | none => .ok p0
  match pc with
  | .error e => .error e
  | .ok p =>
    if x.chunked && !x.ver.is11 then .error .chunkedNot11 else
    -- (wlength, wchunked, te, local keep_alive)
    let (wlength, wchunked, te, kaLocal) :=
      if x.chunked then
        if !emptyBody then (none, true, true, keepAlive) else (none, false, false, keepAlive)
      else
        let wl := contentLengthProp x p
        match wl with
        | some n => (some n, false, false, keepAlive)
        | none =>
          if x.ver.ge11 then
            if !emptyBody then (none, true, true, keepAlive) else (none, false, false, keepAlive)
          else if !emptyBody then (none, false, false, false)
          else (none, false, false, keepAlive)
    -- HTTP/1.0 without a length: the unchanged code clears only the *local* keep_alive; the flag
    -- (probed from the source) says whether `resp.keep_alive` is cleared as well
    let closeDelimited := !emptyBody && !wchunked && wlength.isNone
    let keepAlive := if Gen.C02.closeDelimitedClearsKeepAlive && closeDelimited then false else keepAlive
    let cl := if emptyBody && shouldRemoveCL x.method x.status then none else p.cl
    let te := if emptyBody then false else te
    let ctDefault := !emptyBody && wlength != some 0 && !x.userCT
    let conn : Option Bool :=
      if x.userConn.isSome then none
      else if kaLocal then (if x.ver.is10 then some false else none)
      else if x.ver.is11 then some true else none
    .ok { cl, te, conn, ce := p.ce, ctDefault, wlength, wchunked, wcompress := p.wcompress,
          bodyCompressed := p.bodyCompressed, keepAlive, emptyBody }

/-! ## framing on the wire -/

/-- how the body bytes that follow the header block are delimited -/
inductive Framing where
  | none                 -- no body byte follows the header block
  | length (n : Nat)     -- exactly `n` bytes
  | chunked
  | untilClose           -- everything up to the end of the connection
deriving Repr, DecidableEq

/-- the framing the *writer* produces for a message whose body is `sent` bytes long:
`StreamWriter` with `chunked` / `length` as configured (C04: `chunked_roundtrip`,
`length_truthful`), `truncates` = the bytes go through `write()` (which honours `length`)
rather than `write_eof(chunk)` (which does not) -/
def writerFraming (wchunked : Bool) (wlength : Option Nat) (truncates : Bool) (sent : Nat) : Framing :=
  if wchunked then .chunked
  else match wlength with
    | some n =>
      let k := if truncates then min n sent else sent
      if k == 0 then .none else .length k
    | none => if sent == 0 then .none else .untilClose

/-- which bytes `Response.write_eof` hands to the writer: `(count, through write())` -/
def respSent (x : RespIn) (o : RespOut) (streamed : Nat) : Nat × Bool :=
  -- a compressing writer emits (at least) the compressor's trailer at `write_eof`, whatever was
  -- written; `streamed` then counts the compressed bytes (oracle column, > 0)
  if o.wcompress then (streamed, true) else
  if !x.isResponse then (streamed, true) else
  if o.emptyBody then (0, false) else
  match x.body with
  | .none => (0, false)
  | .bytes n => (if o.bodyCompressed then x.zlen else n, false)
  | .payload _ => (streamed, true)

/-! ## receive side: the cascade of `HttpParser.feed_data` -/

/-- what the parser announces for the body of a message -/
structure View where
  framing : Framing
  /-- the message carries a payload stream (`EMPTY_PAYLOAD` otherwise) -/
  hasPayload : Bool
  upgraded : Bool
deriving Repr, DecidableEq

/-- the payload-selection cascade, on an already parsed message (`length` = get_content_length) -/
def cascade (cfg : Http.Cfg) (msg : Http.Msg) (length : Option Nat) : View :=
  let upgraded := msg.upgrade && Http.supportedUpgrade msg.headers
  let method := if cfg.response then cfg.respMethod else msg.method
  -- only a *response* to HEAD is bodiless; the request parser has no configured method
  let emptyBody := Http.isEmptyBodyStatus msg.code || (cfg.response && Http.isEmptyBodyMethod cfg.respMethod)
  let lenPos := match length with | some n => n > 0 | none => false
  if !emptyBody && (lenPos || msg.chunked) then
    if !cfg.withBody then { framing := .none, hasPayload := true, upgraded := false }
    else if msg.chunked then { framing := .chunked, hasPayload := true, upgraded := false }
    else { framing := .length (length.getD 0), hasPayload := true, upgraded := false }
  else if method == Http.bCONNECT then { framing := .untilClose, hasPayload := true, upgraded := true }
  else if !emptyBody && length.isNone && cfg.readUntilEof then
    if !cfg.withBody then { framing := .none, hasPayload := true, upgraded := false }
    else { framing := .untilClose, hasPayload := true, upgraded := false }
  else if upgraded then { framing := .none, hasPayload := false, upgraded := true }
  else { framing := .none, hasPayload := false, upgraded := false }

/-- `close` of `HttpResponseParser.parse_message` from the interpreted header block -/
def respClose (ver : Ver) (code : Nat) (connClose : Option Bool) (hasCL hasTE : Bool) : Bool :=
  match connClose with
  | some c => c
  | none =>
    if Http.versionLe10 ver.maj ver.min then true
    else if (100 ≤ code && code < 200) || code == 204 || code == 304 then false
    else if hasCL || hasTE then false
    else true

/-- `close` of `HttpRequestParser.parse_message` -/
def reqClose (ver : Ver) (connClose : Option Bool) : Bool :=
  match connClose with
  | some c => c
  | none => Http.versionLe10 ver.maj ver.min

/-- the interpreted header block of a response as the client parser sees it -/
structure RecvHdr where
  cl : Option Nat
  chunked : Bool
  connClose : Option Bool
deriving Repr, DecidableEq

/-- the headers the client receives, from what the server emitted (header transport itself:
C04 `serialize_lines` on the way out, `Aio.Http.parseHeaders` on the way in) -/
def respRecvHdr (x : RespIn) (o : RespOut) : RecvHdr :=
  { cl := o.cl, chunked := o.te, connClose := if x.userConn.isSome then x.userConn else o.conn }

/-- client parser configuration for a request with `method` (`skip_payload` for HEAD,
`read_until_eof=True` default) -/
def clientCfg (method : Bytes) : Http.Cfg :=
  { response := true, lax := true, readUntilEof := true,
    withBody := !inList Gen.Http.emptyBodyMethods method, respMethod := method }

/-- the client's view of a response -/
def clientView (method : Bytes) (ver : Ver) (code : Nat) (h : RecvHdr) : View × Bool :=
  let msg : Http.Msg := { vmajor := ver.maj, vminor := ver.min, code, chunked := h.chunked }
  (cascade (clientCfg method) msg h.cl, respClose ver code h.connClose h.cl.isSome h.chunked)

/-- number of body bytes the receiver will take off the connection for this message, if that
is determined by the header block (`none` = until the connection ends / chunked) -/
def Framing.fixed : Framing → Option Nat
  | .none => some 0
  | .length n => some n
  | _ => Option.none

/-! ## keep-alive decisions -/

/-- `RequestHandler.start` after the handler returned and the request body was consumed -/
def serverKeeps (o : RespOut) : Bool := o.keepAlive

/-- `ClientResponse._response_eof` → `Connection.release` → `BaseConnector._release`:
the connection returns to the pool unless the connector force-closes or the protocol says so -/
def clientKeeps (connectorForceClose : Bool) (shouldClose : Bool) : Bool :=
  !connectorForceClose && !shouldClose

/-- everything the C02 response direction decides, in one record (driver output) -/
structure RespVerdict where
  out : RespOut
  wire : Framing
  view : View
  clientClose : Bool
deriving Repr, DecidableEq

def respVerdict (x : RespIn) (streamed : Nat) : Except PErr RespVerdict :=
  match respPrep x with
  | .error e => .error e
  | .ok o =>
    let (sent, trunc) := respSent x o streamed
    let (view, close) := clientView x.method x.ver x.status (respRecvHdr x o)
    .ok { out := o, wire := writerFraming o.wchunked o.wlength trunc sent, view, clientClose := close }

/-! ## client: request preparation -/

inductive Compress where
  | off                 -- False / None
  | on                  -- True
  | named (c : Coding)  -- "deflate" / "gzip"
  | bad                 -- any other string
deriving Repr, DecidableEq

structure ReqIn where
  ver : Ver                       -- session `version=`
  method : Bytes                  -- upper-cased
  /-- `data is not None` (json= included) -/
  hasData : Bool
  /-- `bool(data)` -/
  dataTruthy : Bool
  /-- `payload.size` of the payload built from `data` -/
  size : Option Nat := none
  chunked : Option Bool := none
  compress : Compress := .off
  expect100 : Bool := false
  /-- a Content-Length header was supplied: `some (some n)` digits, `some none` not a number -/
  userCL : Option (Option Nat) := none
  /-- `"chunked" in headers.get("Transfer-Encoding", "").lower()` -/
  userTEchunked : Bool := false
  /-- `headers.get("Content-Encoding")` is truthy -/
  userCE : Bool := false
  /-- a `Connection` header was supplied: `some true` = close, `some false` = keep-alive -/
  userConn : Option Bool := none
  /-- an `Expect` header equal (case-insensitively) to `100-continue` was supplied -/
  userExpect : Bool := false
  /-- `connector.force_close` -/
  connForceClose : Bool := false
  /-- the payload class implements `write_with_length` (all but `MultipartWriter`, whose
  inherited default ignores the limit and writes everything) -/
  limited : Bool := true
deriving Repr

inductive QErr where
  | compressWithCE      -- ValueError: compress can not be set if Content-Encoding header is set
  | compressBad         -- ValueError: compress must be one of …
  | chunkedWithTE       -- ValueError: chunked can not be set if "Transfer-Encoding: chunked" header is set
  | chunkedWithCL       -- ValueError: chunked can not be set if Content-Length header is set
  | badCL               -- ValueError: Invalid Content-Length header (at send time)
deriving Repr, DecidableEq

def QErr.name : QErr → String
  | .compressWithCE => "compress-with-ce" | .compressBad => "compress-bad"
  | .chunkedWithTE => "chunked-with-te" | .chunkedWithCL => "chunked-with-cl" | .badCL => "bad-cl"

structure ReqOut where
  /-- `Content-Length` header sent (`some none` = the user's unparsable value passed through) -/
  cl : Option Nat
  /-- `Transfer-Encoding: chunked` header present (added or user supplied) -/
  te : Bool
  /-- `Connection` header added: `some true` = close, `some false` = keep-alive -/
  conn : Option Bool
  /-- `Content-Encoding` header added -/
  ce : Option Coding
  expect : Bool
  wchunked : Bool
  wcompress : Bool
  /-- `_should_write`: a writer task runs `_write_bytes` (else `set_eof()` at once) -/
  writes : Bool
  /-- `content_length` argument of `write_with_length` -/
  limit : Option Nat
deriving Repr, DecidableEq

def isGetMethod (m : Bytes) : Bool := inList Gen.C02.getMethods m

/-- truthiness of `self.chunked` -/
def truthy : Option Bool → Bool
  | some true => true
  | _ => false

/-- `ClientRequestBase._send`: the `Connection` header by version / connector mode -/
def reqConn (x : ReqIn) : Option Bool :=
  if x.userConn.isSome then none
  else if x.connForceClose then (if x.ver.is11 then some true else none)
  else if x.ver.is10 then some false else none

/-- `ClientRequest.__init__` (body/encoding/expect steps), `_create_writer`, `_should_write` -/
def reqCore (x : ReqIn) : Except QErr ReqOut :=
  -- _update_content_encoding
  let r1 : Except QErr (Option Coding × Option Bool) :=
    if !x.dataTruthy then .ok (none, x.chunked)
    else if x.userCE then
      (if x.compress != .off then .error .compressWithCE else .ok (none, x.chunked))
    else match x.compress with
      | .off => .ok (none, x.chunked)
      | .bad => .error .compressBad
      | .on => .ok (some .deflate, some true)
      | .named c => .ok (some c, some true)
  match r1 with
  | .error e => .error e
  | .ok (comp, chunked) =>
  -- _update_body_from_data
  let hasCL := x.userCL.isSome
  let userN : Option Nat := match x.userCL with | some (some n) => some n | _ => none
  let (cl, clPresent, chunked) : Option Nat × Bool × Option Bool :=
    if !x.hasData then
      if !isGetMethod x.method && !truthy chunked && !hasCL then (some 0, true, chunked)
      else (userN, hasCL, chunked)
    else if !truthy chunked && !hasCL then
      match x.size with
      | some n => (some n, true, chunked)
      | none => (none, false, some true)
    else (userN, hasCL, chunked)
  -- _update_transfer_encoding
  let r3 : Except QErr Bool :=
    if x.hasData || !isGetMethod x.method then
      if x.userTEchunked then (if truthy chunked then .error .chunkedWithTE else .ok true)
      else if truthy chunked then (if clPresent then .error .chunkedWithCL else .ok true)
      else .ok false
    else .ok x.userTEchunked
  match r3 with
  | .error e => .error e
  | .ok te =>
    let expect := x.expect100 || x.userExpect
    -- _get_content_length (only evaluated when a writer task is started)
    let bodySizeNonZero := if x.hasData then x.size != some 0 else false
    let writes := bodySizeNonZero || expect
    if writes && x.userCL == some none then .error .badCL else
    -- `_create_writer`: `if self.chunked is not None` (old) / `if self.chunked` (probed from the source)
    let wchunked := if Gen.C02.writerChunksWhenNotNone then chunked.isSome else truthy chunked
    .ok { cl, te, conn := none, ce := comp, expect, wchunked, wcompress := comp.isSome,
          writes, limit := if clPresent then cl else none }

/-- `ClientRequest.__init__` + `_send` -/
def reqPrep (x : ReqIn) : Except QErr ReqOut :=
  match reqCore x with
  | .error e => .error e
  | .ok o => .ok { o with conn := reqConn x }

/-- number of body bytes `write_with_length` hands to the writer -/
def reqSent (x : ReqIn) (o : ReqOut) (actual : Nat) : Nat :=
  if !o.writes then 0 else
  match o.limit with
  | some n => if x.limited then min n actual else actual
  | none => actual

/-- the interpreted header block of the request as the server parser sees it -/
def reqRecvHdr (x : ReqIn) (o : ReqOut) : RecvHdr :=
  { cl := o.cl, chunked := o.te, connClose := if x.userConn.isSome then x.userConn else o.conn }

def serverCfg : Http.Cfg := {}

/-- the server's view of a request -/
def serverView (method : Bytes) (ver : Ver) (h : RecvHdr) : View × Bool :=
  let msg : Http.Msg := { method, vmajor := ver.maj, vminor := ver.min, chunked := h.chunked }
  (cascade serverCfg msg h.cl, reqClose ver h.connClose)

structure ReqVerdict where
  out : ReqOut
  wire : Framing
  view : View
  /-- `not request.keep_alive` -/
  serverClose : Bool
deriving Repr, DecidableEq

def reqVerdict (x : ReqIn) (actual : Nat) : Except QErr ReqVerdict :=
  match reqPrep x with
  | .error e => .error e
  | .ok o =>
    let sent := reqSent x o actual
    -- a request without writer task ends by `set_eof()`: chunked writers still emit the last-chunk
    let wire := writerFraming o.wchunked (if o.wchunked then none else some sent) false sent
    let (view, close) := serverView x.method x.ver (reqRecvHdr x o)
    .ok { out := o, wire, view, serverClose := close }

end Aio.C02

namespace Aio.C02
open Aio

/-! ## glue used by the theorem statements -/

/-- projection of what `Aio.Http.onHeaderBlock` returns onto a `View` -/
def viewOf (r : Http.St × List Http.Ev × Bool) : View :=
  { framing := match r.1.payload with
      | none => .none
      | some p => match p.type with
        | .length => .length p.length
        | .chunked => .chunked
        | .untilEof => .untilClose
        | .none => .none
    hasPayload := match r.2.1 with
      | .msg _ hp :: _ => hp
      | _ => false
    upgraded := r.1.upgraded }

/-- data bytes of a list of parser events -/
def dataOf : List Http.Ev → Bytes
  | [] => []
  | .data bs :: t => bs ++ dataOf t
  | _ :: t => dataOf t

/-- feed the segments of a connection to the payload parser of one message, one
`HttpPayloadParser.feed_data` call per segment: `(body bytes delivered, some leftover)` where
the leftover (bytes after the end of this body, available to the next message) is present iff
the parser reported the body complete -/
def payloadRun (cfg : Http.Cfg) : Http.PState → List Bytes → Bytes → Bytes × Option Bytes
  | _, [], acc => (acc, none)
  | p, s :: ss, acc =>
    match Http.payloadFeed cfg p s with
    | (.complete rest, evs) => (acc ++ dataOf evs, some (rest ++ ss.flatten))
    | (.needs p', evs) => payloadRun cfg p' ss (acc ++ dataOf evs)
    | (.err _ _, evs) => (acc ++ dataOf evs, none)

/-- the `StreamWriter` as `_prepare_headers` / `_write_headers` leave it: header block `hb`
buffered, framing as decided -/
def mkWriter (wlength : Option Nat) (wchunked : Bool) (hb : Bytes) : C04.W :=
  { length := wlength, chunked := wchunked, headersBuf := some hb }

/-! ## how `ClientRequest._write_bytes` ends (decision table) -/

/-- what `await self._body.write_with_length(writer, content_length)` did -/
inductive SrcOutcome where
  | ok            -- the payload was written completely
  | osError       -- the body source raised OSError (incl. asyncio.TimeoutError)
  | exception     -- the body source raised any other Exception
  | cancelled     -- the writer task was cancelled
deriving Repr, DecidableEq

structure WriteEnd where
  /-- `await writer.write_eof()` is executed (chunked coding: the terminating `0\r\n\r\n`) -/
  writesEof : Bool
  /-- an exception is set on the protocol (the request fails for the caller) -/
  failsRequest : Bool
  /-- `conn.close()` -/
  closesConn : Bool
deriving Repr, DecidableEq

/-- the `try / except OSError / except CancelledError / except Exception / else` of `_write_bytes` -/
def writeBytesEnd : SrcOutcome → WriteEnd
  | .ok => { writesEof := true, failsRequest := false, closesConn := false }
  | .osError => { writesEof := false, failsRequest := true, closesConn := false }
  | .exception => { writesEof := false, failsRequest := true, closesConn := false }
  | .cancelled => { writesEof := false, failsRequest := false, closesConn := true }

end Aio.C02
