import AioModel.Basic
import AioModel.Generated.C16
/-!
# C16 model — `aiohttp/cookiejar.py` (`CookieJar`), the code as it is

State (`Jar`) = the five containers of `CookieJar`:

* `keys`, `cookies` = `_cookies`         map `(domain, path) → name → Morsel`, kept as the list of dict
                                          keys in creation order plus a flat insertion-ordered list of
                                          entries keyed `(domain, path, name)`
* `hostOnly`     = `_host_only_cookies`  set of `(domain, name)`   (no path — see finding F10)
* `expirations`  = `_expirations`        map `(domain, path, name) → deadline`
* `heap`         = `_expire_heap`        bag of `(deadline, key)`; `heapq` is trusted to be a
                                          priority queue, so "pop while head ≤ now" = "take all ≤ now"
* `cache`        = `_morsel_cache`       map key → value that will be sent

Functions transcribed (Python → Lean):

* `helpers.is_ip_address`            → `isIp`
* `CookieJar._is_domain_match`       → `isDomainMatch`
* `CookieJar._expire_cookie`         → `expireCookie`
* `CookieJar._delete_cookies`        → `deleteCookies`
* `CookieJar._do_expiration`         → `doExpiration`
* `CookieJar.update_cookies`         → `acceptOne` (loop body), `update`
* `CookieJar.filter_cookies`         → `domainCands`, `pathCands`, `passes`, `hits`, `filter`
* `CookieJar.clear` / `clear_domain` → `clearAll`, `clearDomain`
* `CookieJar.save` / `_load_json_data` → `save`, `load`

Not modelled (inputs arrive already parsed, see the harness): `http.cookies`,
`_cookie_helpers.parse_set_cookie_headers`, `int()` on Max-Age, `_parse_date` on Expires,
`yarl.URL` (`raw_host`, `path`, `scheme`), value quoting in `_build_morsel`,
`treat_as_secure_origin` (empty).  Time is an `Int` (seconds, virtual clock).

One literal detail is dropped because nothing observable depends on it: the `!=` test
before overwriting an equal Morsel (it only avoids rebuilding an equal cache entry).
-/
namespace Aio.C16
open Aio

/-- `(domain, path, name)` — the key of `_expirations` -/
abbrev Key := Str × Str × Str

/-! ## association lists (Python dict / set semantics: replace in place, else append) -/

def aget [BEq κ] (k : κ) : List (κ × ν) → Option ν
  | [] => none
  | (k', v) :: t => if k' == k then some v else aget k t

def aset [BEq κ] (k : κ) (v : ν) : List (κ × ν) → List (κ × ν)
  | [] => [(k, v)]
  | (k', v') :: t => if k' == k then (k, v) :: t else (k', v') :: aset k v t

def adel [BEq κ] (k : κ) (l : List (κ × ν)) : List (κ × ν) := l.filter (fun kv => !(kv.1 == k))

def sadd [BEq α] (a : α) (l : List α) : List α := if l.contains a then l else l ++ [a]
def sdel [BEq α] (a : α) (l : List α) : List α := l.filter (fun b => !(b == a))

/-! ## host / path helpers -/

def isDigitCp (c : Nat) : Bool := 48 ≤ c && c ≤ 57

/-- ASCII `str.lower()` of one code point -/
def lowerCp (c : Nat) : Nat := if 65 ≤ c && c ≤ 90 then c + 32 else c

/-- `helpers.is_ip_address` (hosts are ASCII: `yarl` `raw_host`) -/
def isIp (host : Str) : Bool :=
  if host.isEmpty then false
  else host.contains 58 || (let r := host.filter (fun c => c != 46); !r.isEmpty && r.all isDigitCp)

def isIpOpt : Option Str → Bool
  | none => false
  | some h => isIp h

/-- `CookieJar._is_domain_match(domain, hostname)` -/
def isDomainMatch (domain hostname : Str) : Bool :=
  if hostname == domain then true
  else if !(domain.isSuffixOf hostname) then false
  else
    -- `hostname[: -len(domain)]`; with `len(domain) == 0` this is `hostname[:0] == ""`
    let non := if domain.length = 0 then [] else hostname.take (hostname.length - domain.length)
    if non.getLast? != some 46 then false
    else !isIp hostname

/-- `path.rstrip("/")` -/
def rstripSlash (p : Str) : Str := (p.reverse.dropWhile (fun c => c == 47)).reverse

/-- the part of `p` before its last `/` (`p[:p.rfind("/")]`, `p` contains a `/`) -/
def beforeLastSlash (p : Str) : Str := ((p.reverse.dropWhile (fun c => c != 47)).drop 1).reverse

/-- default path of `update_cookies`: `"/"` if the URL path does not start with `/`,
else `"/" + path[1 : path.rfind("/")]` -/
def defaultPath (rpath : Str) : Str :=
  if rpath.head? != some 47 then [47] else 47 :: (beforeLastSlash rpath).drop 1

/-- `itertools.accumulate(xs, f)` -/
def accumulateGo (f : α → α → α) (acc : α) : List α → List α
  | [] => [acc]
  | b :: t => acc :: accumulateGo f (f acc b) t

def accumulate (f : α → α → α) : List α → List α
  | [] => []
  | a :: t => accumulateGo f a t

/-- `s.split(sep)` for a one-character separator (always a non-empty list) -/
def splitCp (sep : Nat) : Str → List Str
  | [] => [[]]
  | c :: t =>
    if c = sep then [] :: splitCp sep t
    else match splitCp sep t with
      | [] => [[c]]
      | h :: r => (c :: h) :: r

/-- `itertools.accumulate(reversed(hostname.split(".")), "{1}.{0}".format)`:
for `a.b.c` → `c`, `b.c`, `a.b.c` -/
def domainCands (host : Str) : List Str :=
  accumulate (fun acc part => part ++ 46 :: acc) (splitCp 46 host).reverse

/-- `itertools.accumulate(request_url.path.split("/"), "{}/{}".format)`:
for `/x/y` → ``, `/x`, `/x/y` -/
def pathCands (rpath : Str) : List Str :=
  accumulate (fun acc part => acc ++ 47 :: part) (splitCp 47 rpath)

/-! ## state -/

/-- the fields of a stored `Morsel` the jar reads -/
structure Cookie where
  name : Str
  value : Str
  domain : Str      -- `cookie["domain"]` after normalisation
  path : Str        -- `cookie["path"]` after defaulting (not stripped)
  secure : Bool
deriving Repr, DecidableEq, BEq

/-- `_cookies[(dom, pkey)][c.name] = c` -/
structure Entry where
  dom : Str
  pkey : Str
  c : Cookie
deriving Repr, DecidableEq, BEq

def Entry.key (e : Entry) : Key := (e.dom, e.pkey, e.c.name)

structure Jar where
  /-- the keys of the `_cookies` defaultdict in creation order (reads create keys, emptied
  `SimpleCookie`s stay until `clear()`); only `save()` depends on this order -/
  keys : List (Str × Str) := []
  cookies : List Entry := []
  hostOnly : List (Str × Str) := []
  expirations : List (Key × Int) := []
  heap : List (Int × Key) := []
  cache : List (Key × Str) := []
deriving Repr

/-- a parsed attribute: absent (empty string), present but rejected by the parser, or a number -/
inductive Att where
  | absent
  | bad
  | val (n : Int)
deriving Repr, DecidableEq

/-- one parsed `Set-Cookie` (a fresh `Morsel` as `parse_set_cookie_headers` returns it) -/
structure Raw where
  name : Str
  value : Str
  domain : Str          -- `morsel["domain"]`
  path : Str            -- `morsel["path"]`
  secure : Bool         -- `bool(morsel["secure"])`
  maxAge : Att          -- `morsel["max-age"]`: "" / `int()` raises ValueError / `int()` value
  expires : Att         -- `morsel["expires"]`: "" / `_parse_date` is None / `_parse_date` value
deriving Repr

/-! ## expiry -/

/-- `_expire_cookie(when, domain, path, name)` -/
def expireCookie (j : Jar) (w : Int) (k : Key) : Jar :=
  if aget k j.expirations == some w then j
  else { j with heap := (w, k) :: j.heap, expirations := aset k w j.expirations }

/-- one iteration of `_delete_cookies` -/
def deleteOne (j : Jar) (k : Key) : Jar :=
  { j with
    keys := sadd (k.1, k.2.1) j.keys        -- `self._cookies[(domain, path)]` creates a missing key
    hostOnly := sdel (k.1, k.2.2) j.hostOnly
    cookies := j.cookies.filter (fun e => !(e.key == k))
    cache := adel k j.cache
    expirations := adel k j.expirations }

/-- `_delete_cookies(to_del)` -/
def deleteCookies (j : Jar) (ks : List Key) : Jar := ks.foldl deleteOne j

/-- `_do_expiration()` at time `now` -/
def doExpiration (j : Jar) (now : Int) : Jar :=
  if j.heap.isEmpty then j else
  let heap :=
    if j.heap.length > Gen.C16.minScheduled && j.heap.length > j.expirations.length * 2 then
      j.heap.filter (fun e => aget e.2 j.expirations == some e.1)
    else j.heap
  let due := heap.filter (fun e => e.1 ≤ now)
  let rest := heap.filter (fun e => !(e.1 ≤ now))
  let toDel := (due.filter (fun e => aget e.2 j.expirations == some e.1)).map (fun e => e.2)
  deleteCookies { j with heap := rest } toDel

/-! ## `update_cookies` -/

/-- dict assignment `_cookies[key][name] = cookie`: replace in place, else append -/
def putEntry (e : Entry) : List Entry → List Entry
  | [] => [e]
  | x :: t => if x.key == e.key then e :: t else x :: putEntry e t

/-- `self._cookies[key][name] = cookie; self._morsel_cache[key].pop(name, None)` -/
def storeEntry (j : Jar) (e : Entry) : Jar :=
  { j with keys := sadd (e.dom, e.pkey) j.keys, cookies := putEntry e j.cookies, cache := adel e.key j.cache }

/-- domain normalisation of the loop body: returns (jar with host-only mark, domain) -/
def normDomain (j : Jar) (host : Option Str) (name : Str) (dattr : Str) : Jar × Str :=
  -- ignore domains with trailing dots
  let domain := if dattr.getLast? == some 46 then [] else dattr
  -- `if not domain and hostname is not None`
  let (j, domain) :=
    match host with
    | some h => if domain.isEmpty then ({ j with hostOnly := sadd (h, name) j.hostOnly }, h) else (j, domain)
    | none => (j, domain)
  -- remove leading dot
  let domain := if domain.head? == some 46 then domain.drop 1 else domain
  (j, domain)

/-- `if hostname and not self._is_domain_match(domain, hostname): continue` -/
def rejected (host : Option Str) (domain : Str) : Bool :=
  match host with
  | some h => !h.isEmpty && !isDomainMatch domain h
  | none => false

/-- the loop body of `update_cookies` for one parsed cookie -/
def acceptOne (now : Int) (host : Option Str) (rpath : Str) (j : Jar) (r : Raw) : Jar :=
  let (j, domain) := normDomain j host r.name r.domain
  if rejected host domain then j else
  let path := if r.path.isEmpty || r.path.head? != some 47 then defaultPath rpath else r.path
  let pkey := rstripSlash path
  let k : Key := (domain, pkey, r.name)
  let j :=
    match r.maxAge with
    | .val d => expireCookie j (min (now + d) Gen.C16.maxTime) k
    | .bad => j                          -- ValueError: max-age cleared; `elif expires` is NOT reached
    | .absent =>
      match r.expires with
      | .val t => if t = 0 then j else expireCookie j t k   -- `if expire_time := …`: 0 is falsy
      | _ => j
  storeEntry j ⟨domain, pkey, ⟨r.name, r.value, domain, path, r.secure⟩⟩

/-- `update_cookies(cookies, response_url)`; `host = response_url.raw_host`, `rpath = response_url.path` -/
def update (allowIp : Bool) (now : Int) (host : Option Str) (rpath : Str) (j : Jar) (rs : List Raw) : Jar :=
  if !allowIp && isIpOpt host then j
  else doExpiration (rs.foldl (acceptOne now host rpath) j) now

/-! ## `filter_cookies` -/

/-- the three `continue` tests of the selection loop -/
def passes (j : Jar) (host : Str) (rpathLen : Nat) (secureReq : Bool) (e : Entry) : Bool :=
  !(j.hostOnly.contains (e.c.domain, e.c.name) && e.c.domain != host)
  && !(e.c.path.length > rpathLen)
  && !(!secureReq && e.c.secure)

def atKey (j : Jar) (d p : Str) : List Entry := j.cookies.filter (fun e => e.dom == d && e.pkey == p)

/-- `itertools.product(domains, paths)` -/
def product (ds ps : List Str) : List (Str × Str) := ds.flatMap (fun d => ps.map (fun p => (d, p)))

/-- the cookies `filter_cookies` assigns into `filtered`, in assignment order -/
def hits (allowIp : Bool) (j : Jar) (host rpath : Str) (secureReq : Bool) : List Entry :=
  let shared := atKey j [] []
  if isIp host && !allowIp then shared else
  let domains := if isIp host then [host] else domainCands host
  shared ++ (product domains (pathCands rpath)).flatMap
    (fun dp => (atKey j dp.1 dp.2).filter (passes j host rpath.length secureReq))

/-- cached Morsel if present, else build and cache it -/
def sendValue (j : Jar) (e : Entry) : Jar × Str :=
  match aget e.key j.cache with
  | some v => (j, v)
  | none => ({ j with cache := aset e.key e.c.value j.cache }, e.c.value)

def assign (acc : Jar × List (Str × Str)) (e : Entry) : Jar × List (Str × Str) :=
  let (j, v) := sendValue acc.1 e
  (j, aset e.c.name v acc.2)

/-- `filter_cookies(request_url)`; `host = raw_host or ""`, `rpath = path`,
`secureReq = scheme in ("https", "wss")`. Returns the jar (expired cookies removed, cache
filled) and the name → value map. -/
def filter (allowIp : Bool) (now : Int) (j : Jar) (host rpath : Str) (secureReq : Bool) :
    Jar × List (Str × Str) :=
  if j.keys.isEmpty then (j, []) else          -- `if not self._cookies: return filtered`
  let j := doExpiration j now
  let j := { j with keys := sadd ([], []) j.keys }   -- `self._cookies[("", "")]`
  (hits allowIp j host rpath secureReq).foldl assign (j, [])

/-! ## clear -/

def clearAll (_ : Jar) : Jar := {}

/-- `clear_domain(domain)` = `clear(lambda x: _is_domain_match(domain, x["domain"]))` -/
def clearDomain (now : Int) (j : Jar) (domain : Str) : Jar :=
  let toDel := (j.cookies.filter (fun e =>
      (match aget e.key j.expirations with
       | some w => decide (w ≤ now)
       | none => false) || isDomainMatch domain e.c.domain)).map Entry.key
  deleteCookies j toDel

/-! ## save / load -/

structure Saved where
  dom : Str
  pkey : Str
  c : Cookie
  hostOnly : Bool
  exp : Option Int
deriving Repr

/-- `save()`: per cookie the truthy Morsel attributes, `host_only`, `expires_timestamp` -/
def save (j : Jar) : List Saved :=
  j.keys.flatMap (fun dp => (atKey j dp.1 dp.2).map (fun e =>
    ⟨e.dom, e.pkey, e.c, j.hostOnly.contains (e.dom, e.c.name), aget e.key j.expirations⟩))

/-- the Morsel `_load_json_data` rebuilds (no max-age / expires; domain dropped when host_only) -/
def Saved.raw (s : Saved) : Raw :=
  ⟨s.c.name, s.c.value, if s.hostOnly then [] else s.c.domain, s.c.path, s.c.secure, .absent, .absent⟩

/-- `_load_json_data(data)` -/
def load (allowIp : Bool) (now : Int) (data : List Saved) : Jar :=
  let j := data.foldl (fun (j : Jar) (s : Saved) =>
    -- `URL.build(scheme="https", host=domain).raw_host`: yarl lower-cases the host
    let host : Option Str := if s.dom.isEmpty then none else some (s.dom.map lowerCp)
    let rpath : Str := if s.dom.isEmpty then [] else [47]
    let j := update allowIp now host rpath j [s.raw]
    match s.exp with
    | some w => expireCookie j w (s.dom, s.pkey, s.c.name)
    | none => j) {}
  doExpiration j now

/-! ## operation sequences -/

inductive Op where
  | set (host : Option Str) (rpath : Str) (cs : List Raw)      -- a response with Set-Cookie headers
  | tick (dt : Nat)                                            -- the clock advances
  | query (host rpath : Str) (secureReq : Bool)                -- `filter_cookies(url)`
  | clear
  | clearDomain (d : Str)
  | saveLoad
deriving Repr

structure World where
  now : Int
  jar : Jar := {}
deriving Repr

/-- one operation; the output is the name → value map of a query (empty otherwise) -/
def step (allowIp : Bool) (w : World) : Op → World × List (Str × Str)
  | .set host rpath cs => ({ w with jar := update allowIp w.now host rpath w.jar cs }, [])
  | .tick dt => ({ w with now := w.now + dt }, [])
  | .query host rpath sec =>
    let (j, out) := filter allowIp w.now w.jar host rpath sec
    ({ w with jar := j }, out)
  | .clear => ({ w with jar := clearAll w.jar }, [])
  | .clearDomain d => ({ w with jar := clearDomain w.now w.jar d }, [])
  | .saveLoad => ({ w with jar := load allowIp w.now (save w.jar) }, [])

def run (allowIp : Bool) (w : World) : List Op → World
  | [] => w
  | op :: ops => run allowIp (step allowIp w op).1 ops

end Aio.C16
