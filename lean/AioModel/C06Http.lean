import AioModel.C06World
import AioModel.Http
/-!
# C06 — the parser parameter instantiated with the shared HTTP/1 model

`HttpResponseParser` as `ResponseHandler.set_response_params` configures it for a
`ClientSession` with default limits: lax response parser, `read_until_eof=True`,
`response_with_body = not skip_payload`, no method, `auto_decompress` irrelevant (the
harness never sends `Content-Encoding`).
-/
namespace Aio.C06
open Aio

def httpCfg (skip : Bool) : Http.Cfg :=
  { response := true, lax := true, readUntilEof := true, withBody := !skip }

/-- what the harness reads off a response head: the value of `X-U` -/
def markOf (m : Http.Msg) : Bytes := (Http.getHeader m.headers (ascii "x-u")).getD []

def convEvs : List Http.Ev → List PEv
  | [] => []
  | .msg m hp :: t => .msg { code := m.code, shouldClose := m.shouldClose, mark := markOf m } hp :: convEvs t
  | .data bs :: t => .data bs :: convEvs t
  | .eof :: t => .eof :: convEvs t
  | .payloadErr _ :: t => .perr :: convEvs t
  | _ :: t => convEvs t

def httpParser : Parser where
  σ := Bool × Http.St
  init skip := (skip, {})
  feed s data :=
    let o := Http.feed (httpCfg s.1) (fun _ _ => true) s.2 data
    { st := (s.1, o.st), evs := convEvs o.evs, upgraded := o.st.upgraded, rest := o.rest, err := o.err.isSome }
  feedEof s :=
    let (evs, err) := Http.feedEof (httpCfg s.1) (fun _ _ => true) s.2
    (convEvs (evs.filter (fun e => match e with | .msg _ _ => false | _ => true)), err.isSome)
  pending s := !s.2.tail.isEmpty || !s.2.lines.isEmpty || s.2.payload.isSome
  emptyBody := Http.isEmptyBodyStatus

end Aio.C06
