import AioModel.Basic
import AioModel.Generated.C15
/-!
# C15 model, part 1 — range / conditional arithmetic of static file responses

* `matchRange`, `pyInt`, `httpRange` = `BaseRequest.http_range` (aiohttp/web_request.py):
  `re.findall(r"^bytes=(\d*)-(\d*)$", rng, re.ASCII)[0]`, `int()`, suffix → negative start,
  inclusive → exclusive end, the three `ValueError`s (+ the interpreter's `int()` digit limit).
* `etagMatch`        = `FileResponse._etag_match`
* `makeResponse`     = the conditional-request cascade of `FileResponse._make_response`
                       (If-Match, If-Unmodified-Since, If-None-Match, If-Modified-Since)
* `prepareOpenFile`  = `FileResponse._prepare_open_file` (If-Range gate, slice arithmetic,
                       206 / 416, Content-Range, Content-Length, empty-body rule)
* `sendLoop`         = `FileResponse._sendfile_fallback` (seek + chunked read loop)
* `fileResponse`     = `FileResponse.prepare` for a regular file: cascade, then plan, then body
* `fileResponseRace` = the same with the file changing between the path `stat()` and the `open()`
                       (in-place rewrite, replacement, deletion); parameter: is the fstat adopted
* `RangeSpec`, `parseSpec`, `rfcSlice`, `rfcPrecondition` = the *specification*: RFC 9110
  §14.1.1/§14.1.2 (single byte range) and §13.2.2 (precedence of preconditions), written
  independently of the code.

Header values are Python `str` (code-point lists).  Dates are parsed by `email.utils` and
ETag lists by a regex in `web_request.py`; both arrive here already parsed (oracle columns).
`st_mtime` is compared in exact arithmetic (nanoseconds), not as a float.
-/
namespace Aio.C15
open Aio

/-! ## `BaseRequest.http_range` -/

/-- `\d` under `re.ASCII` -/
def isDig (c : Nat) : Bool := 48 ≤ c && c ≤ 57

/-- the longest prefix of digits and the rest (a greedy `\d*`) -/
def spanDigits : Str → Str × Str
  | [] => ([], [])
  | c :: t => if isDig c then ((c :: (spanDigits t).1), (spanDigits t).2) else ([], c :: t)

/-- value of a digit string, most significant first (`int(s)` without the length limit) -/
def decVal (ds : Str) : Nat := ds.foldl (fun a c => a * 10 + (c - 48)) 0

/-- `"bytes="` -/
def bytesEq : Str := [98, 121, 116, 101, 115, 61]

/-- after `bytes=` and the first digit run `d1`: `-(\d*)$` (`$` also matches just before one
trailing `\n`) -/
def matchTail (d1 : Str) : Str → Option (Str × Str)
  | 45 :: r2 =>
    if (spanDigits r2).2 = [] ∨ (spanDigits r2).2 = [10] then some (d1, (spanDigits r2).1) else none
  | _ => none

/-- `re.findall(r"^bytes=(\d*)-(\d*)$", s, re.ASCII)[0]`; `none` = IndexError. -/
def matchRange (s : Str) : Option (Str × Str) :=
  if s.take 6 = bytesEq then matchTail (spanDigits (s.drop 6)).1 (spanDigits (s.drop 6)).2 else none

/-- `int(ds)` on a non-empty ASCII digit string: `ValueError` when longer than
`sys.get_int_max_str_digits()` (leading zeros count) -/
def pyInt (ds : Str) : Option Nat :=
  if ds.length > Gen.C15.maxStrDigits then none else some (decVal ds)

/-- `int(x) if x else None`; outer `none` = ValueError -/
def optInt (ds : Str) : Option (Option Nat) :=
  if ds = [] then some none else (pyInt ds).map some

/-- a Python `slice(start, stop, 1)` -/
abbrev Slice := Option Int × Option Int

/-- `BaseRequest.http_range`; `.error ()` = ValueError (any of its messages) -/
def httpRange : Option Str → Except Unit Slice
  | none => .ok (none, none)
  | some s =>
    match matchRange s with
    | none => .error ()
    | some (d1, d2) =>
      match optInt d2, optInt d1 with
      | some e, some st =>
        match st, e with
        | none, some e => .ok (some (-(e : Int)), none)
        | some st, some e => if st ≥ e + 1 then .error () else .ok (some (st : Int), some ((e : Int) + 1))
        | none, none => .error ()
        | some st, none => .ok (some (st : Int), none)
      | _, _ => .error ()

/-! ## `FileResponse._etag_match`, `_make_response` -/

structure ETag where
  weak : Bool
  value : Str
deriving Repr, DecidableEq

/-- `FileResponse._etag_match(etag_value, etags, weak=…)`; `ETAG_ANY = "*"` -/
def etagMatch (cur : Str) (tags : List ETag) (weak : Bool) : Bool :=
  (match tags with
   | [t] => t.value == [42]
   | _ => false) ||
  tags.any (fun t => (weak || !t.weak) && t.value == cur)

inductive Cond where
  | precondFailed   -- 412
  | notModified     -- 304
  | send
deriving Repr, DecidableEq

/-- conditional headers as the request properties deliver them: `if_match`/`if_none_match`
(`none` = header absent or empty), `if_unmodified_since`/`if_modified_since` as POSIX
seconds (`none` = absent or unparsable) -/
structure CondHdrs where
  ifMatch : Option (List ETag) := none
  ifNoneMatch : Option (List ETag) := none
  unmodSince : Option Int := none
  modSince : Option Int := none
  /-- `request.if_range` as POSIX seconds (`none` = absent, or not an HTTP-date — e.g. an entity tag) -/
  ifRange : Option Int := none
deriving Repr

def nsPerSec : Int := 1000000000

/-- the cascade of `FileResponse._make_response` once the file is known to be regular;
`cur` is the file's entity tag value, `mtimeNs` its modification time in ns -/
def makeResponse (cur : Str) (mtimeNs : Nat) (h : CondHdrs) : Cond :=
  if (match h.ifMatch with | some ts => !etagMatch cur ts false | none => false) then .precondFailed
  else if (match h.unmodSince with
           | some t => h.ifMatch.isNone && decide ((mtimeNs : Int) > t * nsPerSec)
           | none => false) then .precondFailed
  else if (match h.ifNoneMatch with | some ts => etagMatch cur ts true | none => false) then .notModified
  else if (match h.modSince with
           | some t => h.ifNoneMatch.isNone && decide ((mtimeNs : Int) ≤ t * nsPerSec)
           | none => false) then .notModified
  else .send

/-! ## `FileResponse._prepare_open_file` -/

/-- the `Content-Range` header this function sets -/
inductive CRange where
  | absent
  | unsat (size : Nat)                 -- `bytes */size`
  | range (first last : Int) (size : Nat) -- `bytes first-last/size`
deriving Repr, DecidableEq

structure Plan where
  status : Nat
  contentRange : CRange
  /-- `self.content_length = count` (`none`: not set on this path) -/
  contentLength : Option Int
  /-- whether `_sendfile` is reached, and with which offset / count -/
  sendBody : Bool
  offset : Int
  count : Int
deriving Repr, DecidableEq

/-- `FileResponse._prepare_open_file` for initial status 200.
`ifRangeOk` = `request.if_range is None or st.st_mtime <= if_range.timestamp()`;
`isHead` decides `must_be_empty_body(method, status)` (status is 200 or 206 here). -/
def prepareOpenFile (isHead ifRangeOk : Bool) (rng : Option Str) (size : Nat) : Plan :=
  let full : Plan := { status := 200, contentRange := .absent, contentLength := some size,
                       sendBody := !(size == 0 || isHead), offset := 0, count := size }
  let unsat : Plan := { status := Gen.C15.stRangeNotSatisfiable, contentRange := .unsat size,
                        contentLength := none, sendBody := false, offset := 0, count := 0 }
  if !ifRangeOk then full
  else match httpRange rng with
    | .error _ => unsat
    | .ok (none, _) => full
    | .ok (some start, stop) =>
      let sc : Int × Int :=
        if start < 0 ∧ stop.isNone then
          let s1 := start + size
          let s2 := if s1 < 0 then 0 else s1
          (s2, size - s2)
        else
          (start, min (match stop with | some e => e | none => (size : Int)) (size : Int) - start)
      if sc.1 ≥ size then unsat
      else
        { status := Gen.C15.stPartial, contentRange := .range sc.1 (sc.1 + sc.2 - 1) size,
          contentLength := some sc.2, sendBody := !(sc.2 == 0 || isHead),
          offset := sc.1, count := sc.2 }

/-! ## `_sendfile_fallback` -/

/-- `chunk = read(min(chunk_size, count)); while chunk: write(chunk); count -= len(chunk);
if count <= 0: break; chunk = read(min(chunk_size, count))` — `file` is what lies after the
current position -/
def sendLoop (chunkSize : Nat) : Nat → Bytes → Nat → Bytes
  | 0, _, _ => []
  | fuel + 1, file, count =>
    let chunk := file.take (min chunkSize count)
    if chunk.isEmpty then []
    else if count ≤ chunk.length then chunk
    else chunk ++ sendLoop chunkSize fuel (file.drop chunk.length) (count - chunk.length)

/-- bytes handed to the writer by `_sendfile(request, fobj, offset, count)` -/
def sendBytes (chunkSize : Nat) (content : Bytes) (p : Plan) : Bytes :=
  if p.sendBody then
    sendLoop chunkSize (p.count.toNat + 1) (content.drop p.offset.toNat) p.count.toNat
  else []

/-! ## `FileResponse.prepare` on a regular file -/

structure Resp where
  status : Nat
  contentRange : CRange
  contentLength : Option Int
  body : Bytes
deriving Repr, DecidableEq

/-- `(ifrange := request.if_range) is None or file_mtime <= ifrange.timestamp()` -/
def ifRangeOk (mtimeNs : Nat) (h : CondHdrs) : Bool :=
  match h.ifRange with
  | none => true
  | some t => decide ((mtimeNs : Int) ≤ t * nsPerSec)

def fileResponse (chunkSize : Nat) (isHead : Bool) (cur : Str) (mtimeNs : Nat) (h : CondHdrs)
    (rng : Option Str) (content : Bytes) : Resp :=
  match makeResponse cur mtimeNs h with
  | .precondFailed => { status := Gen.C15.stPrecondFailed, contentRange := .absent, contentLength := some 0, body := [] }
  | .notModified => { status := Gen.C15.stNotModified, contentRange := .absent, contentLength := none, body := [] }
  | .send =>
    let p := prepareOpenFile isHead (ifRangeOk mtimeNs h) rng content.length
    { status := p.status, contentRange := p.contentRange, contentLength := p.contentLength,
      body := sendBytes chunkSize content p }

/-! ## the stat → open window of `_make_response`

`_make_response` first `stat()`s the path (the conditional cascade and the regular-file test use
that result), then opens the file and — `st = os.stat(fobj.fileno())` — replaces the stat result
by the one of the *opened descriptor*.  Between the two another process may rewrite the file in
place, replace it (rename) or delete it.  `atOpen` is what `open()` finds: `none` = the file is
gone (`FileNotFoundError` → 404), `some (content, mtimeNs)` = this version is what gets read.
`adopt` = the source adopts the fstat result unconditionally (probed from the source). -/

def fileResponseRace (adopt : Bool) (chunkSize : Nat) (isHead : Bool) (curPre : Str) (mtimePre sizePre : Nat)
    (h : CondHdrs) (rng : Option Str) (atOpen : Option (Bytes × Nat)) : Resp :=
  match makeResponse curPre mtimePre h with
  | .precondFailed => { status := Gen.C15.stPrecondFailed, contentRange := .absent, contentLength := some 0, body := [] }
  | .notModified => { status := Gen.C15.stNotModified, contentRange := .absent, contentLength := none, body := [] }
  | .send =>
    match atOpen with
    | none => { status := Gen.C15.stNotFound, contentRange := .absent, contentLength := none, body := [] }
    | some (content, mtimeOpen) =>
      let size := if adopt then content.length else sizePre
      let mtime := if adopt then mtimeOpen else mtimePre
      let p := prepareOpenFile isHead (ifRangeOk mtime h) rng size
      { status := p.status, contentRange := p.contentRange, contentLength := p.contentLength,
        body := sendBytes chunkSize content p }

/-! ## Specification: RFC 9110 §14.1 (one byte range) and §13.2.2 -/

/-- `int-range` / `suffix-range` of RFC 9110 §14.1.1 -/
inductive RangeSpec where
  | fromTo (first last : Nat)
  | fromOn (first : Nat)
  | suffix (len : Nat)
deriving Repr, DecidableEq

def allDigits (s : Str) : Bool := s.all isDig

/-- `first-pos "-" [ last-pos ] / "-" suffix-length` once the text is cut at the first `-` -/
def specOf (a : Str) : Str → Option RangeSpec
  | 45 :: b =>
    if allDigits a && allDigits b then
      if a.isEmpty then (if b.isEmpty then none else some (.suffix (decVal b)))
      else if b.isEmpty then some (.fromOn (decVal a))
      else if decVal a ≤ decVal b then some (.fromTo (decVal a) (decVal b)) else none
    else none
  | _ => none

/-- `ranges-specifier = "bytes=" ( first-pos "-" [ last-pos ] / "-" suffix-length )`
with `first-pos ≤ last-pos`; exactly one range; `none` = not of this form -/
def parseSpec (s : Str) : Option RangeSpec :=
  if s.take 6 = bytesEq then
    specOf ((s.drop 6).takeWhile (· != 45)) ((s.drop 6).drop ((s.drop 6).takeWhile (· != 45)).length)
  else none

/-- the byte positions (first, last — inclusive) selected from a representation of `size`
bytes, `none` when the range is unsatisfiable (RFC 9110 §14.1.2).  A suffix range on an
empty representation selects no byte: it is counted as unsatisfiable here (no
`Content-Range` can describe an empty selection). -/
def rfcSlice : RangeSpec → Nat → Option (Nat × Nat)
  | .fromTo f l, size => if f < size then some (f, min l (size - 1)) else none
  | .fromOn f, size => if f < size then some (f, size - 1) else none
  | .suffix n, size => if n = 0 ∨ size = 0 then none else some (size - min n size, size - 1)

/-- RFC 9110 §13.2.2 steps 1–4 for GET/HEAD, given the truth value of each comparison
(`none` = header absent) -/
def rfcPrecondition (ifMatchOk unmodOk ifNoneMatchHit modSinceUnchanged : Option Bool) : Cond :=
  match ifMatchOk with
  | some false => .precondFailed
  | _ =>
    if ifMatchOk.isNone ∧ unmodOk = some false then .precondFailed
    else match ifNoneMatchHit with
      | some true => .notModified
      | some false => .send
      | none => if modSinceUnchanged = some true then .notModified else .send

end Aio.C15
