import AioModel.C12
/-!
# C12 reference decoder (specification side — my reading of RFC 6455 §5, §7.4 and RFC 7692 §6–7)

`Spec.decode c bytes` decodes a *complete* byte string frame by frame.  There is no
resumption, no tail, no fragment list: a frame whose bytes are not all present ends the
decoding (nothing more is delivered, no error).  A violation is reported at the point where
the part of the frame that exhibits it is complete, in this order:

1. first two bytes: reserved bits (RSV2/RSV3 always; RSV1 unless permessage-deflate was
   negotiated, and then only on the first frame of a data message), unknown opcode,
   fragmented control frame, control frame longer than 125 bytes              → 1002
2. extended length present: a length ≥ 2^63, or a data frame that brings the
   wire payload of the message being assembled **above** `max_msg_size`       → 1009
3. frame complete (after unmasking):
   continuation with no message open / new data frame while one is open       → 1002
   close payload of 1 byte, close code outside RFC 6455 §7.4.2                → 1002
   close reason or (with `decode_text`) text message not valid UTF-8          → 1007
   inflated message above `max_msg_size`                                      → 1009
   inflate failure                                                            → error without a close code

`atLimit` is an auxiliary output: some data frame brought the wire payload of a message to
*exactly* `max_msg_size` (the point where the implementation is stricter than "above").
-/
namespace Aio.C12.Spec
open Aio Aio.C12

inductive Viol where
  | rsv | opcode | ctlFragmented | ctlTooLong
  | tooBig
  | contNoStart | dataInMessage
  | closePayload | closeCode
  | utf8Text | utf8Close
  | inflate
deriving Repr, DecidableEq

def Viol.toErr : Viol → Err
  | .rsv | .opcode | .ctlFragmented | .ctlTooLong | .contNoStart | .dataInMessage
  | .closePayload | .closeCode => .ws 1002
  | .utf8Text | .utf8Close => .ws 1007
  | .tooBig => .ws 1009
  | .inflate => .zlib

/-- a data message being assembled: opcode of its first frame, its RSV1 bit, payload so far -/
structure Open where
  op : Nat
  cz : Bool
  data : Bytes
deriving Repr, DecidableEq

structure Res where
  msgs : List Msg
  err : Option Viol
  atLimit : Bool
deriving Repr, DecidableEq

/-- the extended payload length (RFC 6455 §5.2): `(length, rest)` or `none` when bytes are missing -/
def extLen (len7 : Nat) (bs : Bytes) : Option (Nat × Bytes) :=
  if len7 = 126 then
    match bs with
    | a :: b :: r => some (a.toNat * 256 + b.toNat, r)
    | _ => none
  else if len7 = 127 then
    if bs.length < 8 then none else some (beNat (bs.take 8), bs.drop 8)
  else some (len7, bs)

/-- the masking key, if the MASK bit is set -/
def maskKey (masked : Bool) (bs : Bytes) : Option (Bytes × Bytes) :=
  if masked then (if bs.length < 4 then none else some (bs.take 4, bs.drop 4))
  else some ([], bs)

variable {Z : Inflater}

/-- the end of a data message: inflate if its first frame had RSV1, check size and UTF-8 -/
def finish (c : Cfg) (z : Z.St) (op : Nat) (cz : Bool) (data : Bytes) : Except Viol (Z.St × Msg) :=
  let inflated : Except Viol (Z.St × Bytes) :=
    if cz then
      match Z.inflate z (data ++ [0, 0, 255, 255]) (if c.maxMsgSize ≠ 0 then c.maxMsgSize + 1 else 0) with
      | (z', .ok out) =>
        if c.maxMsgSize ≠ 0 ∧ out.length > c.maxMsgSize then .error .tooBig else .ok (z', out)
      | (_, .tooMany) => .error .tooBig
      | (_, .error) => .error .inflate
    else .ok (z, data)
  match inflated with
  | .error e => .error e
  | .ok (z', merged) =>
    if op = 1 then
      if c.decodeText ∧ ¬ utf8Valid merged then .error .utf8Text else .ok (z', .text merged)
    else .ok (z', .binary merged)

/-- a complete control frame -/
def control (op : Nat) (payload : Bytes) : Except Viol Msg :=
  if op = 8 then
    match payload with
    | [] => .ok (.close 0 [])
    | [_] => .error .closePayload
    | a :: b :: reason =>
      let code := a.toNat * 256 + b.toNat
      if code > 4999 ∨ (code < 3000 ∧ ¬ Gen.C12.allowedCloseCodes.contains code) then .error .closeCode
      else if ¬ utf8Valid reason then .error .utf8Close
      else .ok (.close code reason)
  else if op = 9 then .ok (.ping payload)
  else .ok (.pong payload)

def go (c : Cfg) : Nat → Option Open → Z.St → Bytes → List Msg → Bool → Res
  | 0, _, _, _, acc, lim => ⟨acc, none, lim⟩
  | fuel + 1, o, z, bs, acc, lim =>
    match bs with
    | b0 :: b1 :: r1 =>
      let fin := b0.toNat / 128 = 1
      let rsv1 := b0.toNat / 64 % 2 = 1
      let rsv2 := b0.toNat / 32 % 2 = 1
      let rsv3 := b0.toNat / 16 % 2 = 1
      let op := b0.toNat % 16
      let masked := b1.toNat / 128 = 1
      let len7 := b1.toNat % 128
      if rsv2 ∨ rsv3 ∨ (rsv1 ∧ ¬ c.compress) then ⟨acc, some .rsv, lim⟩
      else if ¬ (op = 0 ∨ op = 1 ∨ op = 2 ∨ op = 8 ∨ op = 9 ∨ op = 10) then ⟨acc, some .opcode, lim⟩
      else if op ≥ 8 ∧ ¬ fin then ⟨acc, some .ctlFragmented, lim⟩
      else if op ≥ 8 ∧ len7 > 125 then ⟨acc, some .ctlTooLong, lim⟩
      else if rsv1 ∧ (op ≥ 8 ∨ o.isSome) then ⟨acc, some .rsv, lim⟩
      else
      match extLen len7 r1 with
      | none => ⟨acc, none, lim⟩
      | some (n, r2) =>
        let cur := match o with | some m => m.data.length | none => 0
        if n ≥ 2 ^ 63 then ⟨acc, some .tooBig, lim⟩
        else if op < 8 ∧ c.maxMsgSize ≠ 0 ∧ cur + n > c.maxMsgSize then ⟨acc, some .tooBig, lim⟩
        else
        let lim := lim || decide (op < 8 ∧ c.maxMsgSize ≠ 0 ∧ cur + n = c.maxMsgSize)
        match maskKey masked r2 with
        | none => ⟨acc, none, lim⟩
        | some (key, r3) =>
          if r3.length < n then ⟨acc, none, lim⟩ else
          let payload := if masked then maskBytes key (r3.take n) else r3.take n
          let rest := r3.drop n
          if op ≥ 8 then
            match control op payload with
            | .error e => ⟨acc, some e, lim⟩
            | .ok m => go c fuel o z rest (acc ++ [m]) lim
          else if op = 0 then
            match o with
            | none => ⟨acc, some .contNoStart, lim⟩
            | some m =>
              if fin then
                match finish c z m.op m.cz (m.data ++ payload) with
                | .error e => ⟨acc, some e, lim⟩
                | .ok (z', msg) => go c fuel none z' rest (acc ++ [msg]) lim
              else go c fuel (some { m with data := m.data ++ payload }) z rest acc lim
          else
            match o with
            | some _ => ⟨acc, some .dataInMessage, lim⟩
            | none =>
              if fin then
                match finish c z op rsv1 payload with
                | .error e => ⟨acc, some e, lim⟩
                | .ok (z', msg) => go c fuel none z' rest (acc ++ [msg]) lim
              else go c fuel (some ⟨op, rsv1, payload⟩) z rest acc lim
    | _ => ⟨acc, none, lim⟩

/-- decode a whole byte string (every frame takes ≥ 2 bytes, so `length` fuel is enough) -/
def decode (c : Cfg) (bs : Bytes) : Res := go (Z := Z) c (bs.length + 1) none Z.init bs [] false

end Aio.C12.Spec
