import AioModel.C06
/-!
# C06 model, layer 2 — a `ClientSession` with its connector and the callers' exchanges

Glue around the per-connection machine of `AioModel/C06.lean`; validated against the real
`ClientSession`/`BaseConnector`/`ClientResponse` by the correspondence run.

| Python                                                             | Lean            |
|--------------------------------------------------------------------|-----------------|
| `BaseConnector._get` loop over `_conns[key]`                         | `World.getLoop` |
| `BaseConnector.connect` (pool hit or `_create_connection`) + `_connect_and_send_request` (`set_response_params`, `_send`, `start`) | `World.startAttempt` |
| `ClientResponse.start` after `protocol.read()` returned (1xx loop, `payload.on_eof`) | `World.wake` (`waitHead`) |
| failure of `protocol.read()` → `resp.close(); conn.close()`; retry once in `ClientSession._request` | `World.headFail` |
| `ClientResponse.read` / `StreamReader.read(-1)`                      | `World.opRead`, `World.wake` (`reading`) |
| `ClientResponse.release` / `.close` / `_notify_content`              | `World.opRelease`, `World.opClose` |
| task cancellation, `TimeoutHandle`/`TimerContext` (total timeout)    | `World.opCancel`, `World.fireTimeout` |

Each caller-visible step of the harness is one `Op`; the loop is run to quiescence after
each, so every `Op` is atomic here.  Time unit: 1/8 s.
-/
namespace Aio.C06
open Aio

inductive Phase where
  | waitHead | gotHead | reading | done | failed
deriving DecidableEq, Repr

structure Exch where
  key : Key
  skip : Bool
  phase : Phase := .waitHead
  /-- the `Connection` the response currently holds -/
  conn : Option Nat := none
  /-- connections the request was written to -/
  used : List Nat := []
  retry : Bool := true
  code : Nat := 0
  mark : Bytes := []
  /-- `resp.content`: (connection, stream); `none` = `EMPTY_PAYLOAD` -/
  content : Option (Nat × Nat) := none
  body : Bytes := []
  err : Option Exc := none
  deadline : Option Nat := none
  timedOut : Bool := false
  /-- ghost: provenance of the delivered head / body -/
  headProv : List Tag := []
  bodyProv : List Tag := []
deriving Repr

structure Cfg where
  forceClose : Bool := false
  keepalive : Nat := 120
  /-- total timeout, 0 = none -/
  total : Nat := 0
  fix : Bool := false
deriving Repr

structure World (P : Parser) where
  cfg : Cfg
  now : Nat := 0
  conns : List (Conn P) := []
  /-- order of the entries of `_conns` (release order) -/
  pool : List Nat := []
  exchs : List Exch := []

inductive Op where
  | request (k : Key) (skip : Bool) (early : Bytes)
  | recv (c : Nat) (data : Bytes)
  | peerClose (c : Nat) (os : Bool)
  /-- the transport of `c` starts closing (peer FIN read); `connection_lost` comes with `peerClose` -/
  | beginClose (c : Nat)
  /-- from now on the transport of `c` holds `connection_lost` back after `transport.close()` -/
  | hold (c : Nat)
  | read (j : Nat)
  | release (j : Nat)
  | close (j : Nat)
  | cancel (j : Nat)
  | advance (d : Nat)
deriving Repr

variable {P : Parser}
namespace World

def setConn (w : World P) (c : Nat) (cn : Conn P) : World P := { w with conns := w.conns.set c cn }
def modExch (w : World P) (j : Nat) (f : Exch → Exch) : World P :=
  match w.exchs[j]? with
  | some e => { w with exchs := w.exchs.set j (f e) }
  | none => w

/-- the response gave its connection up (`self._connection = None`; release callbacks ran) -/
def dropConn (e : Exch) : Exch :=
  { e with conn := none, deadline := if e.phase = .waitHead then e.deadline else none }

/-- after a layer-1 call on connection `c`: if the eof callback released it, the holder
forgets it; a connection that became pooled is appended to the pool order -/
def sync (w : World P) (c : Nat) (released : Bool) : World P :=
  let w := if released then
      { w with exchs := w.exchs.map (fun e => if e.conn = some c then dropConn e else e) } else w
  match w.conns[c]? with
  | some cn => if cn.pooled.isSome && !w.pool.contains c then { w with pool := w.pool ++ [c] } else w
  | none => w

/-- `Connection.release()` (`explicit = false`) / `Connection.close()` (`explicit = true`) by exchange `j` -/
def giveUp (w : World P) (j : Nat) (explicit : Bool) : World P :=
  match w.exchs[j]? with
  | none => w
  | some e =>
    match e.conn with
    | none => w
    | some c =>
      match w.conns[c]? with
      | none => w
      | some cn =>
        let w := w.setConn c (cn.release w.now w.cfg.forceClose explicit)
        let w := w.modExch j dropConn
        w.sync c false

/-- `BaseConnector._get(key)`: walk the entries of this key in order -/
def getLoop (w : World P) (k : Key) (j : Nat) : List Nat → World P × Option Nat
  | [] => (w, none)
  | c :: rest =>
    match w.conns[c]? with
    | none => getLoop w k j rest
    | some cn =>
      if cn.key = k then
        let (cn', ok) := cn.tryAcquire k j w.now w.cfg.keepalive w.cfg.fix
        let w := { w.setConn c cn' with pool := w.pool.erase c }
        if ok then (w, some c) else getLoop w k j rest
      else getLoop w k j rest

def fail (w : World P) (j : Nat) (x : Exc) : World P :=
  w.modExch j (fun e => { e with phase := .failed, err := some x, deadline := none })

/-- `_notify_content`: poison the stream the response exposes (clears its eof callbacks) -/
def notifyContent (w : World P) (j : Nat) : World P :=
  match w.exchs[j]? with
  | none => w
  | some e =>
    match e.content with
    | none => w
    | some (c, p) =>
      match w.conns[c]? with
      | none => w
      | some cn =>
        let hasExc := match cn.pays[p]? with | some y => y.exc.isSome | none => true
        if hasExc then w else w.setConn c (cn.payFail p .connClosed)

/-- the timer a stream carries has fired (`TimerContext._cancelled`) -/
def payTimedOut (w : World P) (y : Pay) : Bool :=
  match y.tj with
  | some j' => (match w.exchs[j']? with | some e => e.timedOut | none => false)
  | none => false

mutual
/-- resume the task of exchange `j` if what it waits for is there -/
def wake (w : World P) (j : Nat) : Nat → World P
  | 0 => w
  | fuel + 1 =>
    match w.exchs[j]? with
    | none => w
    | some e =>
      match e.phase with
      | .waitHead =>
        match e.conn with
        | none => w
        | some c =>
          match w.conns[c]? with
          | none => w
          | some cn =>
            match cn.popHead with
            | some (q, cn') =>
              let w := w.setConn c cn'
              if 100 ≤ q.msg.code && q.msg.code < 200 && q.msg.code != 101 then wake w j fuel
              else
                let w := w.modExch j (fun e => { e with code := q.msg.code, mark := q.msg.mark,
                                                        content := q.pay.map (fun p => (c, p)), headProv := q.prov })
                let (cn'', released) := cn'.onEof w.now w.cfg.forceClose q.pay
                let w := w.setConn c cn''
                let w := w.modExch j (fun e => { e with phase := .gotHead })
                let w := w.sync c released
                w.modExch j (fun e => if e.conn.isNone then { e with deadline := none } else e)
            | none =>
              if cn.qeof then headFail w j (cn.exc.getD .disconnected) fuel else w
      | .reading =>
        match e.content with
        | none => w
        | some (c, p) =>
          match w.conns[c]? with
          | none => w
          | some cn =>
            match cn.pays[p]? with
            | none => w
            | some y =>
              match y.exc with
              | some x => fail (giveUp w j true) j x
              | none =>
                if y.eof then
                  let w := w.modExch j (fun e => { e with phase := .done, body := y.data, bodyProv := y.prov })
                  if cn.upgraded then w else giveUp w j false
                else w
      | _ => w

/-- `protocol.read()` raised inside `start()`: `resp.close()`, `conn.close()`; a lost
connection is retried once (`retry_persistent_connection`) -/
def headFail (w : World P) (j : Nat) (x : Exc) : Nat → World P
  | 0 => w
  | fuel + 1 =>
    let w := giveUp w j true
    match w.exchs[j]? with
    | none => w
    | some e =>
      if (x = .disconnected ∨ x = .os) ∧ e.retry = true then
        startAttempt (w.modExch j (fun e => { e with retry := false })) j [] fuel
      else fail w j x

/-- `connector.connect(req)`, `set_response_params`, `req._send(conn)`, `resp.start(conn)` -/
def startAttempt (w : World P) (j : Nat) (early : Bytes) : Nat → World P
  | 0 => w
  | fuel + 1 =>
    match w.exchs[j]? with
    | none => w
    | some e =>
      let (w, got) := getLoop w e.key j w.pool
      let (w, c, fresh) :=
        match got with
        | some c => (w, c, false)
        | none =>
          -- `_create_connection`: a new protocol; bytes may arrive before it is returned
          let cn : Conn P := { key := e.key }
          let (cn, _) := if early.isEmpty then (cn, false) else cn.dataReceived w.now w.cfg.forceClose early [none]
          ({ w with conns := w.conns ++ [{ cn with owner := some j }] }, w.conns.length, true)
      let w := w.modExch j (fun e => { e with conn := some c })
      match w.conns[c]? with
      | none => w
      | some cn =>
        if w.cfg.fix && fresh && cn.shouldCloseProp then fail (giveUp w j true) j .dirty else
        let (cn, released) := cn.setResponseParams w.now w.cfg.forceClose e.skip
        let w := (w.setConn c cn).sync c released
        -- `_send`: writing on a closing transport raises ClientConnectionResetError
        if !cn.connected then fail (giveUp w j true) j .reset else
        let w := w.modExch j (fun e => { e with used := e.used ++ [c] })
        wake w j fuel
end

def wakeAll (w : World P) : World P :=
  (List.range w.exchs.length).foldl (fun w j => wake w j (w.exchs.length + w.conns.length + 8)) w

def fuelOf (w : World P) : Nat := 2 * (w.exchs.length + w.conns.length) + 16

def opRequest (w : World P) (k : Key) (skip : Bool) (early : Bytes) : World P :=
  let j := w.exchs.length
  let dl := if w.cfg.total = 0 then none else some (w.now + w.cfg.total)
  let w := { w with exchs := w.exchs ++ [{ key := k, skip := skip, deadline := dl }] }
  startAttempt w j early (fuelOf w)

def opRecv (w : World P) (c : Nat) (data : Bytes) : World P :=
  match w.conns[c]? with
  | none => w
  | some cn =>
    if !cn.connected then w else
    let (cn', released) := cn.dataReceived w.now w.cfg.forceClose data [cn.owner]
    wakeAll ((w.setConn c cn').sync c released)

def opPeerClose (w : World P) (c : Nat) (os : Bool) : World P :=
  match w.conns[c]? with
  | none => w
  | some cn =>
    let (cn', released) := cn.connectionLost os
    wakeAll ((w.setConn c cn').sync c released)

def opRead (w : World P) (j : Nat) : World P :=
  match w.exchs[j]? with
  | none => w
  | some e =>
    if e.phase ≠ .gotHead then w else
    match e.content with
    | none =>
      let w := w.modExch j (fun e => { e with phase := .done })
      let upg := match e.conn with
        | some c => (match w.conns[c]? with | some cn => cn.upgraded | none => false)
        | none => false
      if upg then w else giveUp w j false
    | some (c, p) =>
      match w.conns[c]? with
      | none => w
      | some cn =>
        match cn.pays[p]? with
        | none => w
        | some y =>
          -- StreamReader.readany: `_wait` (dead protocol → RuntimeError; cancelled timer → TimeoutError),
          -- then `_read_nowait` → `timer.assert_timeout()`
          if y.exc.isNone && !y.eof && (y.data.isEmpty || !w.payTimedOut y) && !cn.transportSet then
            fail (giveUp (notifyContent w j) j true) j .runtime
          else if y.exc.isNone && w.payTimedOut y then fail (giveUp (notifyContent w j) j true) j .timeout
          else wake (w.modExch j (fun e => { e with phase := .reading })) j (fuelOf w)

def opRelease (w : World P) (j : Nat) : World P :=
  match w.exchs[j]? with
  | none => w
  | some e => if e.phase ≠ .gotHead then w else giveUp (notifyContent w j) j false

def opClose (w : World P) (j : Nat) : World P :=
  match w.exchs[j]? with
  | none => w
  | some e =>
    if e.phase = .gotHead ∨ e.phase = .reading then wake (giveUp (notifyContent w j) j true) j (fuelOf w) else w

def opCancel (w : World P) (j : Nat) : World P :=
  match w.exchs[j]? with
  | none => w
  | some e =>
    if e.phase = .waitHead then fail (giveUp w j true) j .cancelled
    else if e.phase = .reading then fail (giveUp (notifyContent w j) j true) j .cancelled
    else w

def fireTimeout (w : World P) (j : Nat) : World P :=
  match w.exchs[j]? with
  | none => w
  | some e =>
    match e.deadline with
    | none => w
    | some d =>
      if d > w.now then w else
      match e.phase with
      | .waitHead => fail (giveUp w j true) j .timeout
      | .reading =>
        -- the read task sits inside the timer context of the stream it reads; a stream created by
        -- another request's parser carries that request's timer
        let mine := match e.content with
          | some (c, p) => (match w.conns[c]? with
            | some cn => (match cn.pays[p]? with | some y => y.tj == some j | none => false)
            | none => false)
          | none => false
        if mine then fail (giveUp (notifyContent w j) j true) j .timeout
        else w.modExch j (fun e => { e with timedOut := true, deadline := none })
      | .gotHead => w.modExch j (fun e => { e with timedOut := true, deadline := none })
      | _ => w.modExch j (fun e => { e with deadline := none })

def opAdvance (w : World P) (d : Nat) : World P :=
  let w := { w with now := w.now + d }
  (List.range w.exchs.length).foldl fireTimeout w

def step (w : World P) : Op → World P
  | .request k skip early => opRequest w k skip early
  | .recv c data => opRecv w c data
  | .peerClose c os => opPeerClose w c os
  | .beginClose c =>
    (match w.conns[c]? with | some cn => w.setConn c cn.beginClose | none => w)
  | .hold c =>
    (match w.conns[c]? with | some cn => w.setConn c { cn with holdLost := true } | none => w)
  | .read j => opRead w j
  | .release j => opRelease w j
  | .close j => opClose w j
  | .cancel j => opCancel w j
  | .advance d => opAdvance w d

def run (w : World P) (ops : List Op) : World P := ops.foldl step w

end World
end Aio.C06
