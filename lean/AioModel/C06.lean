import AioModel.Basic
/-!
# C06 model, layer 1 — one client connection (`aiohttp/client_proto.py`, pool decision of
`aiohttp/connector.py`, release paths of `aiohttp/client_reqrep.py`)

One `Conn` is one `ResponseHandler` together with its transport, the payload streams its
parsers created, and its pool status (`pooled = some t` ⇔ it sits in `BaseConnector._conns`
with release time `t`; `owner = some j` ⇔ a `Connection` object held by exchange `j` exists).

| Python                                              | Lean                      |
|-----------------------------------------------------|---------------------------|
| `ResponseHandler.should_close`                      | `Conn.shouldCloseProp`    |
| `ResponseHandler.close` (+ the `connection_lost` the transport then delivers) | `Conn.protoClose` |
| `ResponseHandler.connection_lost`                   | `Conn.connectionLost`     |
| transport closing, `connection_lost` pending (`is_closing()` true, `transport` still set) | `Conn.beginClose`, `lostPending`, `holdLost`, `transportSet` |
| `ResponseHandler.set_exception` / `DataQueue.set_exception` | `Conn.setException` |
| `ResponseHandler.data_received` (HTTP branch, `_tail` branch) | `Conn.dataReceived` |
| calls of the parser on the streams it creates (`StreamReader.feed_data/feed_eof/set_exception`, eof callbacks) | `Conn.applyEv` |
| `ResponseHandler.set_response_params`               | `Conn.setResponseParams`  |
| `BaseConnector._release` (+ `_release_acquired`)    | `Conn.release`            |
| the per-entry test of `BaseConnector._get`          | `Conn.reusable`, `Conn.tryAcquire` |
| `ClientResponse._response_eof` → `_release_connection` → `Connection.release` (eof callback) | inside `Conn.applyEv` (`.eof`) and `Conn.onEof` |
| `DataQueue.read` (non-blocking part)                | `Conn.popHead`            |

The HTTP parser is a *parameter* (`Parser`): the plumbing theorems of `AioProps/C06.lean`
hold for every parser; the driver instantiates it with `Aio.Http` (`AioModel/C06Http.lean`).

Ghost state (not in the Python code): every chunk handed to `data_received` carries the tag
`owner` of that moment (`some j` = exchange `j` held the connection, `none` = nobody did: the
connection idled in the pool or had not been handed a request yet).  `ptags` collects the
tags of all chunks the *current parser instance* has consumed; whatever that parser emits is
stamped with it (`QEntry.prov`, `Pay.prov`).  `Pay.ex` is the holder at stream creation.
`fix` switches on the candidate repair (re-check `should_close` when a connection is taken).
-/
namespace Aio.C06
open Aio

/-- ghost tag of a received chunk -/
abbrev Tag := Option Nat

/-- `ConnectionKey` (client_reqrep.py): the 7-tuple, field values interned as numbers -/
structure Key where
  host : Nat
  port : Nat
  isSsl : Bool
  ssl : Nat
  proxy : Nat
  proxyHdr : Nat
  sni : Nat
deriving DecidableEq, Repr

inductive Exc where
  | http          -- HttpProcessingError → ClientResponseError
  | disconnected  -- ServerDisconnectedError
  | os            -- ClientOSError
  | payload       -- ClientPayloadError
  | connClosed    -- ClientConnectionError("Connection closed") (released/closed response)
  | reset         -- ClientConnectionResetError (write on a closing transport)
  | timeout       -- asyncio.TimeoutError
  | cancelled     -- asyncio.CancelledError
  | dirty         -- only with `fix`: a fresh connection that already needs closing
  | runtime       -- RuntimeError("Connection closed.") of StreamReader._wait on a dead protocol
deriving DecidableEq, Repr

/-- what the protocol looks at in a `RawResponseMessage` (+ `mark`: what the harness observes) -/
structure Msg where
  code : Nat
  shouldClose : Bool
  mark : Bytes
deriving Repr

/-- what one `feed_data` call of the parser does, in order -/
inductive PEv where
  | msg (m : Msg) (hasPayload : Bool)   -- `messages.append((msg, payload))`; new StreamReader iff `hasPayload`
  | data (bs : Bytes)                   -- `payload.feed_data`
  | eof                                 -- `payload.feed_eof`
  | perr                                -- `set_exception(payload, …)`
deriving Repr

structure FeedR (σ : Type) where
  st : σ
  evs : List PEv
  upgraded : Bool
  rest : Bytes
  err : Bool

structure Parser where
  σ : Type
  /-- `HttpResponseParser(response_with_body = not skip_payload, …)` -/
  init : Bool → σ
  feed : σ → Bytes → FeedR σ
  /-- `feed_eof()`: calls on the current stream, and whether it raised -/
  feedEof : σ → List PEv × Bool
  /-- ghost: the parser holds bytes of an unfinished message -/
  pending : σ → Bool
  /-- `code in EMPTY_BODY_STATUS_CODES` -/
  emptyBody : Nat → Bool

/-- a `StreamReader` created by a parser of this connection -/
structure Pay where
  data : Bytes := []
  eof : Bool := false
  exc : Option Exc := none
  /-- `ClientResponse._response_eof` is in `_eof_callbacks` -/
  cb : Bool := false
  /-- the exchange whose `set_response_params` built the parser that created this stream:
  the stream carries *that* request's timer -/
  tj : Tag := none
  ex : Tag := none
  prov : List Tag := []
deriving Repr

structure QEntry where
  msg : Msg
  /-- `none` = `EMPTY_PAYLOAD` -/
  pay : Option Nat
  prov : List Tag
deriving Repr

structure Conn (P : Parser) where
  key : Key
  /-- `transport is not None and not transport.is_closing()` -/
  connected : Bool := true
  /-- the transport has started closing (peer FIN seen, fatal error, `transport.close()`), so
  `is_closing()` is true and `connected` is false, but `connection_lost` has not been delivered
  yet: `self.transport` is still set -/
  lostPending : Bool := false
  /-- harness-controlled behaviour of this connection's transport: `connection_lost` after a
  `transport.close()` is delivered only on request (TLS shutdown / write buffer draining) -/
  holdLost : Bool := false
  parser : Option P.σ := none
  skip : Bool := false
  shouldClose : Bool := false
  upgraded : Bool := false
  exc : Option Exc := none
  qeof : Bool := false
  buffer : List QEntry := []
  tail : Bytes := []
  /-- `_payload` (`none` also stands for `EMPTY_PAYLOAD`, whose `is_eof()` is true) -/
  payload : Option Nat := none
  /-- the stream the parser is filling (parser state) -/
  cur : Option Nat := none
  pays : List Pay := []
  owner : Tag := none
  pooled : Option Nat := none
  /-- the exchange that installed the current parser (its timer goes into every stream) -/
  pj : Tag := none
  ptags : List Tag := []
  tailTags : List Tag := []
  /-- ghost: something was queued or buffered on this connection while nobody held it -/
  stale : Bool := false

variable {P : Parser}

namespace Conn

def payEof (c : Conn P) (p : Nat) : Bool :=
  match c.pays[p]? with
  | some y => y.eof
  | none => true

def modPay (c : Conn P) (p : Nat) (f : Pay → Pay) : Conn P :=
  match c.pays[p]? with
  | some y => { c with pays := c.pays.set p (f y) }
  | none => c

/-- `ResponseHandler.should_close` -/
def shouldCloseProp (c : Conn P) : Bool :=
  c.shouldClose
  || (match c.payload with | some p => !c.payEof p | none => false)
  || c.upgraded
  || c.exc.isSome
  || !c.buffer.isEmpty
  || !c.tail.isEmpty

/-- ghost: the conditions the property calls "not reusable" that the protocol cannot see:
bytes of an unfinished message inside the parser -/
def parserPending (c : Conn P) : Bool :=
  match c.parser with
  | some s => P.pending s
  | none => false

/-- `set_exception(payload, exc)`: also clears the eof callbacks -/
def payFail (c : Conn P) (p : Nat) (e : Exc) : Conn P :=
  c.modPay p (fun y => { y with exc := some e, cb := false })

/-- `ResponseHandler.set_exception` -/
def setException (c : Conn P) (e : Exc) : Conn P :=
  { c with shouldClose := true, exc := some e, qeof := true }

/-- `BaseConnector._release` for this protocol (`explicit` = `should_close=True`, i.e.
`Connection.close()`).  Returns the connection closed or pooled at time `now`. -/
def releaseCore (closeFn : Conn P → Conn P) (c : Conn P) (now : Nat) (forceClose explicit : Bool) : Conn P :=
  if forceClose || explicit || c.shouldCloseProp then closeFn { c with owner := none }
  else { c with owner := none, pooled := some now }

/-- `payload.feed_data(bs)` on the stream being filled -/
def evData (c : Conn P) (bs : Bytes) : Conn P :=
  match c.cur with
  | some p => c.modPay p (fun y => { y with data := y.data ++ bs, prov := c.ptags })
  | none => c

/-- `payload.feed_eof()`: mark eof; second component: an eof callback was registered -/
def evEofMark (c : Conn P) : Conn P × Bool :=
  match c.cur with
  | some p =>
    ({ c.modPay p (fun y => { y with eof := true, cb := false, prov := c.ptags }) with cur := none },
     match c.pays[p]? with | some y => y.cb | none => false)
  | none => (c, false)

/-- `set_exception(payload, …)` by the parser -/
def evPerr (c : Conn P) : Conn P :=
  match c.cur with
  | some p => { c.payFail p .payload with cur := none }
  | none => c

/-- the calls a parser makes on its streams at `feed_eof` / the events of one `feed_data`;
`rel` = what the eof callback of the held response does (release the connection;
`ClientResponse._response_eof` does nothing when the protocol is upgraded).  Returns the new
state and whether the callback released the connection. -/
def applyEvCore (rel : Conn P → Conn P) (c : Conn P) (released : Bool) (msgs : List (Msg × Option Nat)) :
    PEv → Conn P × Bool × List (Msg × Option Nat)
  | .msg m true =>
    ({ c with pays := c.pays ++ [{ tj := c.pj, ex := c.owner, prov := c.ptags }], cur := some c.pays.length }, released,
     msgs ++ [(m, some c.pays.length)])
  | .msg m false => ({ c with cur := none }, released, msgs ++ [(m, none)])
  | .data bs => (evData c bs, released, msgs)
  | .eof =>
    if (evEofMark c).2 && !(evEofMark c).1.upgraded then (rel (evEofMark c).1, true, msgs)
    else ((evEofMark c).1, released, msgs)
  | .perr => (evPerr c, released, msgs)

def applyEvsCore (rel : Conn P → Conn P) : Conn P → Bool → List (Msg × Option Nat) → List PEv →
    Conn P × Bool × List (Msg × Option Nat)
  | c, r, ms, [] => (c, r, ms)
  | c, r, ms, e :: es =>
    let (c, r, ms) := applyEvCore rel c r ms e
    applyEvsCore rel c r ms es

/-- the `connection_lost` that follows once the transport is gone.  `os` = lost with an
`OSError`; `clean` = `exc is None`. The eof callback cannot pool a dead connection:
`rel` is release-with-close. -/
def lostFeed (c : Conn P) : Conn P × Bool × Bool :=
  match c.parser with
  | some s =>
    let r := applyEvsCore (fun c => { c with owner := none }) c false [] (P.feedEof s).1
    (r.1, (P.feedEof s).2, r.2.1)
  | none => (c, false, false)

/-- `feed_eof()` raised: `set_exception(self._payload, ClientPayloadError)` -/
def lostFail (c : Conn P) (raised : Bool) : Conn P :=
  if raised then (match c.payload with | some p => c.payFail p .payload | none => c) else c

/-- `if not self.is_eof(): self.set_exception(ServerDisconnectedError / ClientOSError)` -/
def lostExc (c : Conn P) (os : Bool) : Conn P :=
  if !c.qeof then c.setException (if os then .os else .disconnected) else c

def lostEnd (c : Conn P) : Conn P :=
  { c with shouldClose := true, parser := none, payload := none, cur := none, connected := false, pooled := none,
           lostPending := false }

def lostCore (c : Conn P) (os : Bool) : Conn P × Bool :=
  let r := lostFeed c
  (lostEnd (lostExc (lostFail r.1 r.2.1) os), r.2.2)

/-- `ResponseHandler.close()` followed by the transport's `connection_lost(None)` -/
def protoClose (c : Conn P) : Conn P :=
  if !c.connected && !c.lostPending then { c with exc := none, pooled := none }
  else (lostCore { c with exc := none, payload := none, connected := false } false).1

/-- `ResponseHandler.connection_lost(exc)` called by the transport (peer closed / reset);
second component: the eof callback of the held response ran (connection given up) -/
def connectionLost (c : Conn P) (os : Bool) : Conn P × Bool :=
  if !c.connected && !c.lostPending then (c, false) else lostCore c os

/-- the transport starts closing without `connection_lost` being delivered yet (peer FIN read:
`eof_received()` returns a false value; or an error): `is_closing()` becomes true -/
def beginClose (c : Conn P) : Conn P :=
  if c.connected then { c with connected := false, lostPending := true } else c

/-- `self.transport is not None` (what `BaseProtocol.connected` and a weakened `is_connected` look at) -/
def transportSet (c : Conn P) : Bool := c.connected || c.lostPending

def release (c : Conn P) (now : Nat) (forceClose explicit : Bool) : Conn P :=
  releaseCore protoClose c now forceClose explicit

def applyEvs (c : Conn P) (now : Nat) (forceClose : Bool) (evs : List PEv) :
    Conn P × Bool × List (Msg × Option Nat) :=
  applyEvsCore (fun c => c.release now forceClose false) c false [] evs

/-- the loop over `messages` after `feed_data` returned -/
def pushMsgs (c : Conn P) : List (Msg × Option Nat) → Conn P
  | [] => c
  | (m, p) :: rest =>
    let c := if m.shouldClose then { c with shouldClose := true } else c
    let c := { c with payload := p }
    let q : QEntry := { msg := m, pay := if c.skip || P.emptyBody m.code then none else p, prov := c.ptags }
    let c := { c with buffer := c.buffer ++ [q], stale := c.stale || c.owner.isNone }
    pushMsgs c rest

/-- `ResponseHandler.data_received(data)`; `tags` = ghost tags of `data`.  Returns the new
state and whether an eof callback released the connection meanwhile. -/
def dataReceived (c : Conn P) (now : Nat) (forceClose : Bool) (data : Bytes) (tags : List Tag) : Conn P × Bool :=
  match c.parser with
  | none =>
    ({ c with tail := c.tail ++ data, tailTags := c.tailTags ++ tags,
              stale := c.stale || (c.owner.isNone && !data.isEmpty) }, false)
  | some s =>
    if c.upgraded then
      ({ c with tail := c.tail ++ data, tailTags := c.tailTags ++ tags,
                stale := c.stale || (c.owner.isNone && !data.isEmpty) }, false)
    else
      let r := P.feed s data
      let c := { c with parser := some r.st, ptags := c.ptags ++ tags }
      let (c, released, msgs) := c.applyEvs now forceClose r.evs
      if r.err then
        -- transport.close(); set_exception(HttpProcessingError); then connection_lost
        let c := c.setException .http
        let c := if c.connected then
            (if c.holdLost then { c with connected := false, lostPending := true }
             else (lostCore { c with connected := false } false).1) else c
        (c, released)
      else
        let c := { c with upgraded := r.upgraded }
        let c := c.pushMsgs msgs
        let c := if r.upgraded && !r.rest.isEmpty then
            { c with tail := c.tail ++ r.rest, tailTags := c.tailTags ++ tags } else c
        (c, released)

/-- `ResponseHandler.set_response_params(skip_payload=skip, …)`: fresh parser, replay `_tail` -/
def setResponseParams (c : Conn P) (now : Nat) (forceClose : Bool) (skip : Bool) : Conn P × Bool :=
  let c := { c with skip := skip, parser := some (P.init skip), ptags := [], cur := none, pj := c.owner }
  if !c.tail.isEmpty then
    let data := c.tail
    let tags := c.tailTags
    dataReceived { c with tail := [], tailTags := [] } now forceClose data tags
  else ({ c with tailTags := [] }, false)

/-- the test `BaseConnector._get` applies to a pooled entry (`fix`: also `not should_close`,
extended by the parser's buffered bytes) -/
def reusable (c : Conn P) (now keepalive : Nat) (fix : Bool) : Bool :=
  match c.pooled with
  | some t0 => c.connected && decide (now - t0 ≤ keepalive) && (!fix || !(c.shouldCloseProp || c.parserPending))
  | none => false

/-- one iteration of the `_get` loop on this entry for a request with key `k` by exchange `j`:
either hand it out (`true`) or close it -/
def tryAcquire (c : Conn P) (k : Key) (j : Nat) (now keepalive : Nat) (fix : Bool) : Conn P × Bool :=
  if c.key = k ∧ c.reusable now keepalive fix = true then
    ({ c with pooled := none, owner := some j }, true)
  else if c.key = k ∧ c.pooled.isSome then (protoClose { c with pooled := none }, false)
  else (c, false)

/-- `DataQueue.read()` when it does not block: pop the head / raise the stored exception -/
def popHead (c : Conn P) : Option (QEntry × Conn P) :=
  match c.buffer with
  | q :: rest => some (q, { c with buffer := rest })
  | [] => none

/-- `payload.on_eof(self._response_eof)` in `ClientResponse.start` -/
def onEof (c : Conn P) (now : Nat) (forceClose : Bool) (pay : Option Nat) : Conn P × Bool :=
  let eofNow := match pay with | some p => c.payEof p | none => true
  if eofNow then
    if c.upgraded then (c, false) else (c.release now forceClose false, true)
  else
    match pay with
    | some p => (c.modPay p (fun y => { y with cb := true }), false)
    | none => (c, false)

end Conn
end Aio.C06
