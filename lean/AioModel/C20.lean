import AioModel.Basic
/-!
# C20 model, part 1 — application lifecycle (cleanup contexts, signals, runner, run_app)

Transcribes

* `enterAll`, `exitAll`, `groupCleanup` = `web_app.CleanupContext._on_startup / _on_cleanup`
  (`_exits.append(ctx)` only after `__aenter__` returned; `reversed(self._exits)`, errors of
  class `Exception`/`CancelledError` are collected, one error is re-raised as is, several
  become `CleanupError`; `_exits` is never cleared).
* `chain` = `Application.__init__` (the context callbacks are the *first* receivers of
  `on_startup` and `on_cleanup`, not of `on_shutdown`) + `Application._reg_subapp_signals`
  (a sub-application's signal is sent, in place, by a receiver appended to the parent's
  signal by `add_subapp`) + `aiosignal.Signal.send` (receivers in list order; the first
  exception propagates and ends the send — through every enclosing send).  A nested send is a
  depth-first walk, so a whole signal is the flat list of `Step`s produced by `chain`.
* `Runner.step .setup`   = `BaseRunner.setup` + `AppRunner._make_server`
  (`on_startup.freeze(); await app.startup(); app.freeze()` — the application is frozen
  only when start-up succeeded).
* `Runner.step .cleanup` = `BaseRunner.cleanup` + `AppRunner.shutdown/_cleanup_server` +
  `Application.cleanup` (`if self._server:` guards pre_shutdown / on_shutdown / server
  shutdown; `on_cleanup.frozen` selects the whole signal or only the root's contexts;
  `self._server = None` is reached only when nothing raised).
* `runApp` = `web._run_app`: `await runner.setup()` stands *before* the `try`; site start
  and the serve-forever sleep are inside; `finally: await runner.cleanup()`.

The log has a begin and an end event for every teardown and every signal handler (the
real callbacks suspend in between), so that sequential execution — `for it in
reversed(self._exits): await it.__aexit__(…)`, `for receiver in self: await receiver(…)` —
is observable and distinguishable from a concurrent one.

`Fail.xcancel` on a start-up callback (context start-up code or `on_startup` handler): the
task awaiting `runner.setup()` is cancelled while that callback is suspended — the callback
logs its begin only, `CancelledError` propagates like any exception of the callback
(`await ctx.__aenter__()` is awaited directly, nothing is shielded).

Every user callback is an oracle `Fail` (`ok` | raises an `Exception` | raises
`CancelledError`).  Connection handling during `cleanup` is part 2 (`C20Drain.lean`).
-/
namespace Aio.C20

/-- what a user callback does -/
inductive Fail where
  | ok | exc | cancel
  | xcancel   -- the task running `runner.setup()` is cancelled from outside while this callback is suspended
deriving DecidableEq, Repr

/-- one cleanup context: outcome of its start-up code and of its cleanup code -/
structure Ctx where
  enter : Fail
  exit : Fail
deriving DecidableEq, Repr

/-- a receiver in one of an application's three signals, after the context callback:
a user handler, or the receiver registered by `add_subapp` for sub-application `j` -/
inductive Slot where
  | h (id : Nat) (f : Fail)
  | sub (j : Nat)
deriving DecidableEq, Repr

/-- one application (row `a` of the table describes application `a`; row 0 is the root) -/
structure AppDef where
  ctxs : List Ctx
  startup : List Slot
  shutdown : List Slot
  cleanup : List Slot
deriving Repr

inductive Sig where
  | startup | shutdown | cleanup
deriving DecidableEq, Repr

/-- one receiver call of a flattened signal -/
inductive Step where
  | grp (a : Nat)              -- `app_a._cleanup_ctx._on_startup` / `._on_cleanup`
  | h (id : Nat) (f : Fail)    -- user handler
deriving DecidableEq, Repr

/-- where a propagating exception was raised -/
inductive Origin where
  | enter (a i : Nat)
  | exit (a i : Nat)
  | sig (s : Sig) (id : Nat)
deriving DecidableEq, Repr

inductive Err where
  | user (o : Origin)          -- the callback's own exception
  | multi (os : List Origin)   -- `CleanupError("Multiple errors on cleanup stage", errors)`
  | cancelled                  -- the serving task was cancelled (how `run_app` stops)
  | site                       -- a site failed to start (inside `_run_app`'s `try`)
deriving DecidableEq, Repr

/-- the event log written by the instrumented user callbacks -/
inductive Ev where
  | enter (a i : Nat)          -- start-up code of context `i` of application `a` begins
  | entered (a i : Nat)        -- … completed
  | exit (a i : Nat)           -- its cleanup code begins
  | exitEnd (a i : Nat)        -- its cleanup code is over (returned or raised)
  | sig (s : Sig) (id : Nat)   -- a signal handler is called
  | sigEnd (s : Sig) (id : Nat) -- … is over (returned or raised)
deriving DecidableEq, Repr

/-- `CleanupContext._exits` of every application: indices of the entered contexts -/
abbrev Exits := Nat → List Nat

def Exits.empty : Exits := fun _ => []
def Exits.set (X : Exits) (a : Nat) (l : List Nat) : Exits := fun b => if b = a then l else X b

def slotsOf (s : Sig) (d : AppDef) : List Slot :=
  match s with
  | .startup => d.startup
  | .shutdown => d.shutdown
  | .cleanup => d.cleanup

def ctxsOf (tbl : List AppDef) (a : Nat) : List Ctx :=
  match tbl[a]? with
  | some d => d.ctxs
  | none => []

/-- the receivers of signal `s` of application `a`, nested sends expanded in place -/
def chain (tbl : List AppDef) (s : Sig) : Nat → Nat → List Step
  | 0, _ => []
  | fuel + 1, a =>
    match tbl[a]? with
    | none => []
    | some d =>
      (if s = .shutdown then [] else [Step.grp a]) ++
      (slotsOf s d).flatMap (fun sl =>
        match sl with
        | .h id f => [Step.h id f]
        | .sub j => chain tbl s fuel j)

/-- the whole signal `s` as sent to the root application -/
def rootChain (tbl : List AppDef) (s : Sig) : List Step := chain tbl s (tbl.length + 1) 0

/-! ## CleanupContext -/

structure EnterOut where
  ev : List Ev
  entered : List Nat
  err : Option Err

/-- the exception that leaves a failing callback: its own, or the `CancelledError` of the
cancelled task -/
def failErr (f : Fail) (o : Origin) : Err := if f = .xcancel then .cancelled else .user o

/-- `CleanupContext._on_startup`, contexts numbered from `i` -/
def enterAll (a : Nat) : Nat → List Ctx → EnterOut
  | _, [] => ⟨[], [], none⟩
  | i, c :: cs =>
    if c.enter = .ok then
      let r := enterAll a (i + 1) cs
      ⟨.enter a i :: .entered a i :: r.ev, i :: r.entered, r.err⟩
    else ⟨[.enter a i], [], some (failErr c.enter (.enter a i))⟩

def exitFail (cs : List Ctx) (i : Nat) : Fail :=
  match cs[i]? with
  | some c => c.exit
  | none => .ok

/-- the loop of `CleanupContext._on_cleanup` over an (already reversed) `_exits` -/
def exitAll (a : Nat) (cs : List Ctx) : List Nat → List Ev × List Origin
  | [] => ([], [])
  | i :: rest =>
    let r := exitAll a cs rest
    (.exit a i :: .exitEnd a i :: r.1, if exitFail cs i = .ok then r.2 else .exit a i :: r.2)

def raiseCollected : List Origin → Option Err
  | [] => none
  | [o] => some (.user o)
  | os => some (.multi os)

/-- `CleanupContext._on_cleanup` -/
def groupCleanup (a : Nat) (cs : List Ctx) (exits : List Nat) : List Ev × Option Err :=
  let r := exitAll a cs exits.reverse
  (r.1, raiseCollected r.2)

/-! ## Signal.send over a flattened chain -/

structure Out where
  ev : List Ev
  X : Exits
  err : Option Err

/-- what a signal handler logs: its begin and — unless the task is cancelled from outside while it
is suspended — its end -/
def handlerEvs (s : Sig) (id : Nat) (f : Fail) : List Ev :=
  if f = .xcancel then [.sig s id] else [.sig s id, .sigEnd s id]

def runStep (tbl : List AppDef) (s : Sig) (X : Exits) : Step → Out
  | .h id f =>
    ⟨handlerEvs s id f, X,
     if f = .ok then none else some (failErr f (.sig s id))⟩
  | .grp a =>
    match s with
    | .startup =>
      let r := enterAll a 0 (ctxsOf tbl a)
      ⟨r.ev, X.set a (X a ++ r.entered), r.err⟩
    | .cleanup =>
      let r := groupCleanup a (ctxsOf tbl a) (X a)
      ⟨r.1, X, r.2⟩
    | .shutdown => ⟨[], X, none⟩

def send (tbl : List AppDef) (s : Sig) : List Step → Exits → Out
  | [], X => ⟨[], X, none⟩
  | st :: rest, X =>
    let o := runStep tbl s X st
    match o.err with
    | some e => ⟨o.ev, o.X, some e⟩
    | none =>
      let o2 := send tbl s rest o.X
      ⟨o.ev ++ o2.ev, o2.X, o2.err⟩

/-! ## AppRunner -/

structure Runner where
  X : Exits := Exits.empty
  frozen : Bool := false     -- `app.on_cleanup.frozen` (set by `app.freeze()`)
  server : Bool := false     -- `runner._server is not None`

inductive ROp where
  | setup | cleanup
deriving DecidableEq, Repr

structure StepOut where
  r : Runner
  ev : List Ev
  err : Option Err

def Runner.step (tbl : List AppDef) (r : Runner) : ROp → StepOut
  | .setup =>
    let o := send tbl .startup (rootChain tbl .startup) r.X
    match o.err with
    | some e => ⟨{ r with X := o.X }, o.ev, some e⟩
    | none => ⟨{ X := o.X, frozen := true, server := true }, o.ev, none⟩
  | .cleanup =>
    let sd : Out := if r.server then send tbl .shutdown (rootChain tbl .shutdown) r.X else ⟨[], r.X, none⟩
    match sd.err with
    | some e => ⟨r, sd.ev, some e⟩
    | none =>
      let cl : List Ev × Option Err :=
        if r.frozen then
          let o := send tbl .cleanup (rootChain tbl .cleanup) r.X
          (o.ev, o.err)
        else groupCleanup 0 (ctxsOf tbl 0) (r.X 0)
      match cl.2 with
      | some e => ⟨r, sd.ev ++ cl.1, some e⟩
      | none => ⟨{ r with server := false }, sd.ev ++ cl.1, none⟩

/-- a script of runner calls, each awaited whatever the previous one raised;
returns the log and the outcome of every call -/
def runRunner (tbl : List AppDef) : Runner → List ROp → List Ev × List (Option Err)
  | _, [] => ([], [])
  | r, op :: ops =>
    let o := r.step tbl op
    let rest := runRunner tbl o.r ops
    (o.ev ++ rest.1, o.err :: rest.2)

/-- `web._run_app` until it is stopped (`siteFails = false`: the serving task is cancelled,
as `run_app` does on SIGINT/SIGTERM; `true`: a site fails to start) -/
def runApp (tbl : List AppDef) (siteFails : Bool) : List Ev × Err :=
  let s := Runner.step tbl {} .setup
  match s.err with
  | some e => (s.ev, e)
  | none =>
    let c := Runner.step tbl s.r .cleanup
    (s.ev ++ c.ev, match c.err with
      | some e => e
      | none => if siteFails then .site else .cancelled)

inductive Entry where
  | runner    -- `await runner.setup()` then, whatever happened, `await runner.cleanup()`
  | runApp
deriving DecidableEq, Repr

/-- the event log of a whole life through one of the two entry points -/
def lifeLog (tbl : List AppDef) : Entry → List Ev
  | .runner => (runRunner tbl {} [.setup, .cleanup]).1
  | .runApp => (runApp tbl false).1

/-! ## reading the log -/

/-- contexts whose start-up code completed, in log order -/
def enteredOf (l : List Ev) : List (Nat × Nat) :=
  l.filterMap (fun e => match e with
    | .entered a i => some (a, i)
    | _ => none)

/-- contexts whose cleanup code ran, in log order (with repetitions) -/
def exitsOf (l : List Ev) : List (Nat × Nat) :=
  l.filterMap (fun e => match e with
    | .exit a i => some (a, i)
    | _ => none)

/-- teardowns never overlap and nothing else happens inside one: reading the log with
"no teardown open" / "teardown of (a, i) open", every `exit` is closed by its own `exitEnd`
before anything else is logged -/
def nestedFrom : Option (Nat × Nat) → List Ev → Bool
  | st, [] => st.isNone
  | st, e :: t =>
    match st, e with
    | none, .exit a i => nestedFrom (some (a, i)) t
    | some p, .exitEnd a i => p == (a, i) && nestedFrom none t
    | none, .exitEnd _ _ => false
    | some _, _ => false
    | none, _ => nestedFrom none t

def groupsOf (l : List Step) : List Nat :=
  l.filterMap (fun st => match st with
    | .grp a => some a
    | _ => none)

/-- what `add_subapp` guarantees of a table: every application's contexts are started at
most once and cleaned at most once per signal (no application is registered twice) -/
def wellFormed (tbl : List AppDef) : Bool :=
  decide (groupsOf (rootChain tbl .startup)).Nodup && decide (groupsOf (rootChain tbl .cleanup)).Nodup

end Aio.C20
