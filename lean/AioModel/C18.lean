import AioModel.Basic
import AioModel.Generated.C18
/-!
# C18 model — timeouts and cancellation of one client exchange (timed state machine)

Time is integer milliseconds.  One request under test `R` runs through the phases
pool wait → DNS (shared lookup) → connect (one attempt per resolved address) → send body
(writer task) → await headers → (consumer think time) → read body → release, next to an
optional slot holder `H` and an optional co-request `C` (same pool / same DNS lookup).

Transcribed code (quirks included):
* `ceilSec`, `totalDeadline`         = `helpers.TimeoutHandle.start` (`timeout >= threshold` → `ceil(when)`)
* `ctxDeadline`                      = `helpers.ceil_timeout` (`delay > threshold` → `ceil(when)`), used by
                                       `BaseConnector.connect` (connect) and `TCPConnector._wrap_create_connection` (sock_connect)
* `fireTimer .total`, `tcExit`       = `TimeoutHandle.__call__`, `TimerContext.timeout/__enter__/__exit__`
                                       (incl. `Task.cancelling()/uncancel()` bookkeeping; nested contexts of
                                       `ClientSession._request` and `ClientResponse.start` both call `uncancel`)
* `fireTimer .conn/.sock`, `ctxExitCore`, `connExit`, `sockExit`
                                     = `asyncio.timeouts.Timeout._on_timeout/__aexit__`
* `Cfg.effTotal`                     = `client_reqrep.ClientTimeout.__post_init__`
* `reschedRead`, `fireTimer .read`, `pauseCheck`, `consume`
                                     = `client_proto.ResponseHandler._reschedule_timeout/_on_read_timeout/
                                       pause_reading/resume_reading/data_received`, `streams.StreamReader` water marks
* `startR`, `armStart`, `createConn`, `attemptConn`, `afterConnect`, `afterHeaders`, `readBody`
                                     = the code between two awaits of `ClientSession._request`,
                                       `client._connect_and_send_request`, `BaseConnector.connect`,
                                       `_wait_for_available_connection`, `TCPConnector._resolve_host`,
                                       `_create_direct_connection`, `ClientRequest._send/_write_bytes`,
                                       `ClientResponse.start/read/close/release/_response_eof`
* `throwAt`, `connPhaseExit`, `closeConn`, `releaseConn`, `releasePlaceholder`
                                     = the exception paths of the same functions (finally/except blocks)
* `releaseWaiter`                    = `BaseConnector._release_waiter` (single key, FIFO)

Event-loop abstraction (DESIGN §4.3, time-stamped form): an *instant* is processed as
(1) external events in the order given, (2) callbacks of internal timers due at that
instant in creation order, (3) the tasks resume (a pending `Task.cancel()` wins over a
result that is already available).  Between two external instants every earlier timer
instant is processed the same way.
-/
namespace Aio.C18
open Aio

/-! ## rounding rules -/

def thr : Nat := Gen.C18.ceilThresholdMs

/-- `math.ceil` of a time in ms to a whole second -/
def ceilSec (t : Nat) : Nat := ((t + 999) / 1000) * 1000

/-- `TimeoutHandle.start`: `when = now + timeout; if timeout >= ceil_threshold: when = ceil(when)` -/
def totalDeadline (th now timeout : Nat) : Nat :=
  if timeout ≥ th then ceilSec (now + timeout) else now + timeout

/-- `ceil_timeout`: `when = now + delay; if delay > ceil_threshold: when = ceil(when)` -/
def ctxDeadline (th now delay : Nat) : Nat :=
  if delay > th then ceilSec (now + delay) else now + delay

/-! ## vocabulary -/

inductive Outcome where
  | ok | timeout | connTimeout | sockTimeout | cancelled
deriving Repr, DecidableEq

/-- exception in flight -/
inductive Exc where
  | cancelled      -- asyncio.CancelledError
  | timeout        -- asyncio.TimeoutError (builtin TimeoutError)
  | connTimeout    -- ConnectionTimeoutError
  | sockTimeout    -- SocketTimeoutError
deriving Repr, DecidableEq

def Exc.outcome : Exc → Outcome
  | .cancelled => .cancelled | .timeout => .timeout
  | .connTimeout => .connTimeout | .sockTimeout => .sockTimeout

inductive Pc where
  | idle                         -- task not started
  | poolWait                     -- `await fut` in `_wait_for_available_connection`
  | dnsOwner                     -- `await asyncio.shield(resolved_host_task)`
  | dnsWaiter                    -- `await future` (per-waiter future of a running lookup)
  | connecting                   -- `await start_connection(...)` of the current attempt
  | headers                      -- `await protocol.read()` in `ClientResponse.start`
  | think                        -- consumer sleeps between headers and body
  | body                         -- `await waiter` in `StreamReader._wait`
  | done (o : Outcome) (t : Nat)
deriving Repr, DecidableEq

def Pc.isDone : Pc → Bool
  | .done _ _ => true
  | _ => false

inductive Slot where | none | placeholder | proto
deriving Repr, DecidableEq
inductive Tr where | none | open | closed
deriving Repr, DecidableEq
inductive Wr where | none | parked | cancelled | finished
deriving Repr, DecidableEq
inductive CtxSt where | off | entered | expiring
deriving Repr, DecidableEq
inductive CPc where | none | idle | poolWait | dnsOwner | dnsWaiter | ok | failed | cancelled
deriving Repr, DecidableEq
inductive Who where | R | C
deriving Repr, DecidableEq
inductive Lk where | none | running (owner : Who)
deriving Repr, DecidableEq
inductive Wake where | result | exc (e : Exc)
deriving Repr, DecidableEq

structure Cfg where
  total : Option Nat := none
  connect : Option Nat := none
  sockConnect : Option Nat := none
  sockRead : Option Nat := none
  limit1 : Bool := false           -- connector limit = 1 (else unlimited)
  useDns : Bool := false           -- host name (true) or literal address (false)
  naddr : Nat := 1
  wstall : Bool := false           -- body > 64 KiB and the transport pauses writing at the first write
  think : Nat := 0
  bufsize : Nat := 65536
  https : Bool := false            -- TLS: after the TCP connect the handshake runs inside `create_connection`
  closeDelim : Bool := false       -- response body delimited by connection close (no Content-Length, not chunked)
  thr : Nat := Gen.C18.ceilThresholdMs   -- `ClientTimeout.ceil_threshold` in ms
  early : Bool := false            -- the caller streams `resp.content` and leaves `async with` after the first chunk
  expect100 : Bool := false        -- `Expect: 100-continue`: the body is written only after a 1xx response arrived
  c0 : Nat := 0                    -- `Task.cancelling()` of the calling task when it starts the request
deriving Repr

/-- `ClientTimeout.__post_init__`: `total = max(total, connect or 0, sock_read or 0, sock_connect or 0)`
unless `total is None` -/
def Cfg.effTotal (c : Cfg) : Option Nat :=
  match c.total with
  | none => none
  | some t => some (max (max t (c.connect.getD 0)) (max (c.sockRead.getD 0) (c.sockConnect.getD 0)))

/-- one delivery of response bytes, classified by what the parser makes of it -/
structure Piece where
  n : Nat             -- number of bytes
  headDone : Bool     -- the head is complete after this piece
  bodyBytes : Nat     -- payload bytes this piece adds to the stream
  eof : Bool          -- the message is complete after this piece
  interim : Bool := false   -- the last complete message in this piece is a 1xx interim response (not 101)
  redirect : Bool := false  -- the head completed by this piece is a followed 3xx redirect with an empty body
deriving Repr, DecidableEq

inductive Ev where
  | startH | startR | startC
  | holderRelease
  | dnsAnswer
  | connDone (i : Nat)
  | tlsDone (i : Nat)   -- the TLS handshake of attempt `i` completes
  | writeResume
  | bytes (p : Piece)
  | peerEof        -- the peer closes the connection: `eof_received()` + `connection_lost(None)`
  | cancel
  | cancelLate     -- `Task.cancel()` one loop iteration later: after the holder's task has run
deriving Repr

structure St where
  now : Nat := 0
  seq : Nat := 0
  pc : Pc := .idle
  cancelling : Nat := 0             -- `Task.cancelling()` of the calling task (may start > 0: earlier swallowed cancels)
  tcBase : Nat := 0                 -- `TimerContext._cancelling`
  connBase : Nat := 0               -- `Timeout._cancelling` of `ceil_timeout(connect)`
  sockBase : Nat := 0               -- `Timeout._cancelling` of `ceil_timeout(sock_connect)`
  mustCancel : Bool := false
  wake : Option Wake := none
  tcCancelled : Bool := false
  totalT : Option (Nat × Nat) := none
  connCtx : CtxSt := .off
  connT : Option (Nat × Nat) := none
  sockCtx : CtxSt := .off
  sockT : Option (Nat × Nat) := none
  readT : Option (Nat × Nat) := none
  thinkT : Option (Nat × Nat) := none
  readErr : Bool := false
  slot : Slot := .none
  tr : Tr := .none
  pooled : Bool := false
  wr : Wr := .none
  headDone : Bool := false
  buffered : Nat := 0
  eof : Bool := false
  rpaused : Bool := false
  queued : List Piece := []
  respReleased : Bool := false      -- the response no longer owns a connection
  redir : Bool := false             -- the response being awaited turned out to be a redirect that will be followed
  hop : Nat := 0                    -- number of redirects followed so far
  oldPooled : Nat := 0              -- connections of earlier hops handed back to the pool
  attOff : Nat := 0                 -- connect attempts made on earlier hops (scripted attempts are numbered globally)
  reqSent : Bool := false           -- `start_timeout()` was called: the request is sent completely, we wait for the peer
  wait100 : Bool := false           -- the writer task waits for `100 Continue` before writing the body
  tls : Bool := false               -- the current connect attempt is in its TLS handshake
  peerLost : Bool := false          -- the peer closed; `connection_lost` not yet delivered
  dropTotal : Bool := false         -- `handle.cancel` of the total timer is queued behind the writer's end
  holder : Bool := false
  hRel : Bool := false              -- the holder's response arrived; its task releases the slot when it runs
  poolQ : List Who := []
  rWoken : Bool := false
  lookup : Lk := .none
  cached : Bool := false
  dnsWaitR : Bool := false
  dnsWaitC : Bool := false
  dnsCalls : Nat := 0
  cpc : CPc := .none
  hdrAt : Option Nat := none
  attempt : Nat := 0
  addrsLeft : Nat := 0
  closedSocks : Nat := 0
deriving Repr

/-! ## task bookkeeping -/

/-- `Task.cancel()` on the running (not done) task of R -/
def taskCancel (s : St) : St :=
  if s.pc.isDone || s.pc = .idle then s
  else
    -- a still pending pool-waiter future is cancelled: `_release_waiter` skips it from now on
    let q := if s.pc = .poolWait ∧ !s.rWoken then s.poolQ.filter (· ≠ .R) else s.poolQ
    { s with cancelling := s.cancelling + 1, mustCancel := true, poolQ := q }

/-- `Task.uncancel()`; returns the new count in `.cancelling` -/
def uncancel (s : St) : St :=
  if s.cancelling = 0 then s
  else if s.cancelling = 1 then { s with cancelling := 0, mustCancel := false }
  else { s with cancelling := s.cancelling - 1 }

/-- `TimerContext.__exit__` for exception `e`: `if enter_task.uncancel() > self._cancelling: return None`
(let the foreign cancellation through) `else: raise asyncio.TimeoutError`; `_cancelling` (`tcBase`) is
the single attribute overwritten by every `__enter__` with `task.cancelling()` -/
def tcExit (s : St) (e : Exc) : St × Exc :=
  if e = .cancelled ∧ s.tcCancelled then
    let s := uncancel s
    if s.cancelling > s.tcBase then (s, .cancelled) else (s, .timeout)
  else (s, e)

/-- `TimerContext.__enter__`: `self._cancelling = task.cancelling()` -/
def tcEnter (s : St) : St := { s with tcBase := s.cancelling }

/-- `asyncio.timeouts.Timeout.__aexit__` given the context state -/
def ctxExitCore (st : CtxSt) (base : Nat) (s : St) (e : Exc) : St × Exc :=
  match st with
  | .expiring =>
    -- `if self._task.uncancel() <= self._cancelling and exc_type is CancelledError: raise TimeoutError`
    let s := uncancel s
    if s.cancelling ≤ base ∧ e = .cancelled then (s, .timeout) else (s, e)
  | _ => (s, e)

def connExit (s : St) (e : Exc) : St × Exc :=
  let r := ctxExitCore s.connCtx s.connBase s e
  ({ r.1 with connCtx := .off, connT := none }, r.2)

def sockExit (s : St) (e : Exc) : St × Exc :=
  let r := ctxExitCore s.sockCtx s.sockBase s e
  ({ r.1 with sockCtx := .off, sockT := none }, r.2)

/-! ## read timeout, pause / resume -/

/-- `ResponseHandler._reschedule_timeout` (`if timeout:` — 0 and None disable) -/
def reschedRead (cfg : Cfg) (s : St) : St :=
  match cfg.sockRead with
  | some d => if d = 0 then { s with readT := none }
              else { s with readT := some (s.now + d, s.seq), seq := s.seq + 1 }
  | none => { s with readT := none }

def dropRead (s : St) : St := { s with readT := none }

/-- `StreamReader.feed_data`: pause the protocol above the high-water mark -/
def pauseCheck (cfg : Cfg) (s : St) : St :=
  if s.buffered > Gen.C18.highWaterFactor * cfg.bufsize ∧ !s.rpaused then
    dropRead { s with rpaused := true }
  else s

/-! ## pool -/

def slotFree (cfg : Cfg) (s : St) : Bool := !cfg.limit1 || (!s.holder && s.slot = .none)

/-- `_release_waiter` after a slot became free: wake the first queued waiter.  The
co-request, once woken, runs to completion at once (its peer answers immediately) and
frees the slot again. -/
def releaseWaiter (cfg : Cfg) (s : St) : St :=
  if !slotFree cfg s then s else
  match s.poolQ with
  | [] => s
  | .R :: q => { s with poolQ := q, rWoken := true, wake := some .result }
  | .C :: q =>
    let s := { s with poolQ := q, cpc := .ok }
    match q with
    | .R :: q' => { s with poolQ := q', rWoken := true, wake := some .result }
    | _ => s

/-- `Connection.close()` / `_release(should_close=True)` / `protocol.close()` -/
def closeConn (cfg : Cfg) (s : St) : St :=
  if s.respReleased then s else
  -- with a live writer task the release callbacks (incl. `handle.cancel` of the total timer) run
  -- only after the cancelled writer has finished, i.e. in the task phase of this instant
  let s := { s with respReleased := true, slot := .none, readT := none,
                    tr := if s.tr = .open then .closed else s.tr,
                    wr := if s.wr = .parked then .cancelled else s.wr,
                    totalT := if s.wr = .parked then s.totalT else none,
                    dropTotal := s.dropTotal || decide (s.wr = .parked) }
  releaseWaiter cfg s

/-- `_response_eof` / `release()` on a complete message: cancel the writer (which then closes
the connection) or give the connection back to the pool -/
def releaseConn (cfg : Cfg) (s : St) : St :=
  if s.respReleased then s else
  if s.wr = .parked ∨ s.readErr ∨ !s.eof ∨ cfg.closeDelim ∨ s.tr ≠ .open then closeConn cfg s
  else
    let s := { s with respReleased := true, slot := .none, pooled := true, readT := none, totalT := none }
    releaseWaiter cfg s

/-- free the placeholder (`_release_acquired`) -/
def releasePlaceholder (cfg : Cfg) (s : St) : St :=
  releaseWaiter cfg { s with slot := .none }

/-! ## the code between awaits -/

def finish (s : St) (o : Outcome) : St :=
  { s with pc := .done o s.now, totalT := none, connT := none, sockT := none, thinkT := none,
           connCtx := .off, sockCtx := .off, wake := none, mustCancel := false }

/-- one connect attempt: enter `ceil_timeout(sock_connect)` and await the connection -/
def attemptConn (cfg : Cfg) (s : St) : St :=
  let s := match cfg.sockConnect with
    | some d => if d = 0 then { s with sockCtx := .entered, sockT := none, sockBase := s.cancelling }
                else { s with sockCtx := .entered, sockT := some (ctxDeadline cfg.thr s.now d, s.seq), seq := s.seq + 1,
                              sockBase := s.cancelling }
    | none => { s with sockCtx := .entered, sockT := none, sockBase := s.cancelling }
  { s with pc := .connecting, wake := none, tls := false }

/-- placeholder acquired; `_create_connection` up to its first suspension -/
def createConn (cfg : Cfg) (s : St) : St :=
  let s := { s with slot := .placeholder }
  if !cfg.useDns || decide (s.hop > 0) then attemptConn cfg { s with addrsLeft := 1, attempt := 0 }
  else if s.cached then attemptConn cfg { s with addrsLeft := cfg.naddr, attempt := 0 }
  else match s.lookup with
    | .running _ => { s with dnsWaitR := true, pc := .dnsWaiter, wake := none }
    | .none => { s with lookup := .running .R, dnsCalls := s.dnsCalls + 1, pc := .dnsOwner, wake := none }

/-- `TimeoutHandle.start()` and entering `ceil_timeout(connect)` -/
def armStart (cfg : Cfg) (s : St) : St :=
  let s := match cfg.effTotal with
    | some d => if d = 0 then s else { s with totalT := some (totalDeadline cfg.thr s.now d, s.seq), seq := s.seq + 1 }
    | none => s
  match cfg.connect with
    | some d => if d = 0 then { s with connCtx := .entered, connBase := s.cancelling, tcBase := s.cancelling }
                else { s with connCtx := .entered, connT := some (ctxDeadline cfg.thr s.now d, s.seq), seq := s.seq + 1,
                              connBase := s.cancelling, tcBase := s.cancelling }
    | none => { s with connCtx := .entered, connBase := s.cancelling, tcBase := s.cancelling }

/-- `ClientSession._request` up to the first suspension -/
def startR (cfg : Cfg) (s : St) : St :=
  if s.pc ≠ .idle then s else
  let s := armStart cfg s
  if !slotFree cfg s then { s with pc := .poolWait, poolQ := s.poolQ ++ [.R], wake := none }
  else createConn cfg s

/-- consume what is buffered (`read_nowait`), resuming the transport below the low-water mark -/
def consume (cfg : Cfg) (s : St) : St :=
  let s := { s with buffered := 0 }
  if s.rpaused then reschedRead cfg { s with rpaused := false } else s

/-- `ClientResponse.read()` from its start up to the next suspension -/
def readBody (cfg : Cfg) (s : St) : St × Option Exc :=
  if s.readErr then (s, some .sockTimeout)          -- `if self._exception is not None: raise`
  else if s.tcCancelled then (s, some .timeout)     -- `_read_nowait: self._timer.assert_timeout()` / `_wait: with self._timer`
  else
  let got := decide (s.buffered > 0)
  let s := if s.buffered > 0 then consume cfg s else s
  -- `cfg.early`: the caller leaves the `async with` block after its first chunk: `release()` (closes: body unread)
  if s.eof ∨ (cfg.early ∧ got) then (finish (releaseConn cfg s) .ok, none)
  else ({ s with pc := .body, wake := none, tcBase := s.cancelling }, none)

/-- `ClientResponse.start` resumed with the message; rest of `_request`; user code up to the next suspension -/
def afterHeaders (cfg : Cfg) (s : St) : St × Option Exc :=
  let s := { s with hdrAt := some s.now }
  let s := if s.eof then releaseConn cfg s else s
  if cfg.think > 0 then
    ({ s with pc := .think, thinkT := some (s.now + cfg.think, s.seq), seq := s.seq + 1, wake := none }, none)
  else readBody cfg s

/-- connection established: leave both timeout contexts, take the slot, send the request, enter `start` -/
def afterConnect (cfg : Cfg) (s : St) : St :=
  let s := (sockExit s .timeout).1
  let s := (connExit s .timeout).1
  let s := { s with tr := .open, slot := .proto }
  let s := if cfg.expect100 then { s with wr := .parked, wait100 := true }
           else if cfg.wstall then { s with wr := .parked }
           else reschedRead cfg { s with reqSent := true }       -- `protocol.start_timeout()`
  { s with pc := .headers, wake := none, tcBase := s.cancelling }

/-! ## exception paths -/

/-- common tail of the connect phase: leave `ceil_timeout(connect)`,
`except asyncio.TimeoutError → ConnectionTimeoutError`, leave `with timer`, `_request`'s cleanup -/
def connPhaseExit (s : St) (e : Exc) : St :=
  let r := connExit s e
  let e := if r.2 = .timeout then Exc.connTimeout else r.2
  let r2 := tcExit r.1 e
  finish r2.1 r2.2.outcome

/-- cleanup + conversion performed while exception `e` travels from the await at `s.pc` to the
caller (or is absorbed by the next connect attempt). -/
def throwAt (cfg : Cfg) (s : St) (e : Exc) : St :=
  match s.pc with
  | .poolWait =>
    -- `finally: keyed_waiters.pop(fut)`; a waiter that was woken (future done, not cancelled) but
    -- leaves by an exception hands the wake-up to the next waiter (`_release_waiter()`)
    let s : St := { s with poolQ := s.poolQ.filter (· ≠ Who.R) }
    let s := if s.rWoken then releaseWaiter cfg { s with rWoken := false } else s
    connPhaseExit s e
  | .dnsOwner | .dnsWaiter => connPhaseExit (releasePlaceholder cfg { s with dnsWaitR := false }) e
  | .connecting =>
    let r := sockExit { s with closedSocks := s.closedSocks + 1 } e
    if r.2 = .timeout ∧ r.1.addrsLeft > 1 then
      attemptConn cfg { r.1 with addrsLeft := r.1.addrsLeft - 1, attempt := r.1.attempt + 1 }
    else connPhaseExit (releasePlaceholder cfg r.1) r.2
  | .headers =>
    let r := tcExit s e                 -- `with self._timer` in ClientResponse.start
    let s := closeConn cfg r.1          -- resp.close(); conn.close()
    let r2 := tcExit s r.2              -- `with timer` in ClientSession._request
    finish r2.1 r2.2.outcome
  | .body =>
    let r := tcExit s e                 -- `with self._timer` in StreamReader._wait
    finish (closeConn cfg r.1) r.2.outcome   -- ClientResponse.read: except BaseException: self.close()
  | .think => finish (releaseConn cfg s) e.outcome   -- `async with` exit: release()
  | _ => s

/-- entering `ceil_timeout(connect)` for the connection of a further hop (`BaseConnector.connect`) -/
def armConn (cfg : Cfg) (s : St) : St :=
  match cfg.connect with
    | some d => if d = 0 then { s with connCtx := .entered, connBase := s.cancelling }
                else { s with connCtx := .entered, connT := some (ctxDeadline cfg.thr s.now d, s.seq), seq := s.seq + 1,
                              connBase := s.cancelling }
    | none => { s with connCtx := .entered, connBase := s.cancelling }

/-- `ClientSession._request`, redirect branch: the 3xx response is complete, `resp.release()` hands its
connection back to the pool, and the loop goes round: a new `_connect_and_send_request` to another host —
inside the SAME `with timer` and with the SAME total handle (it is cancelled only when the final
response's connection is released); `connect` / `sock_connect` start afresh for the new connection. -/
def resetHop (s : St) : St :=
  { s with pc := .idle, slot := .none, tr := .none, pooled := false, oldPooled := s.oldPooled + 1,
                         headDone := false, eof := false, buffered := 0, respReleased := false, hdrAt := none,
                         readT := none, reqSent := false, wait100 := false, redir := false, wake := none,
                         wr := if s.wr = .parked then .cancelled else s.wr,
                         dnsWaitR := false, poolQ := s.poolQ.filter (· ≠ Who.R),
                         hop := s.hop + 1, attOff := s.attOff + s.attempt + 1 }

def redirectStep (cfg : Cfg) (s : St) : St :=
  let s := armConn cfg (releaseWaiter cfg (resetHop s))
  if !slotFree cfg s then { s with pc := .poolWait, poolQ := s.poolQ ++ [.R], wake := none }
  else createConn cfg s

/-- resume the task of R if something is pending (a requested cancellation wins) -/
def resumeR (cfg : Cfg) (s : St) : St :=
  if s.pc.isDone ∨ s.pc = .idle then s
  else if s.mustCancel then throwAt cfg { s with mustCancel := false, wake := none } .cancelled
  else match s.wake with
  | none => s
  | some (.exc e) => throwAt cfg { s with wake := none } e
  | some .result =>
    let s := { s with wake := none }
    match s.pc with
    | .poolWait =>
      -- `finally: pop`; `_available_connections(key) > 0` holds (slot was free when woken)
      createConn cfg { s with rWoken := false, poolQ := s.poolQ.filter (· ≠ .R) }
    | .dnsOwner | .dnsWaiter =>
      attemptConn cfg { s with dnsWaitR := false, addrsLeft := cfg.naddr, attempt := 0 }
    | .connecting =>
      -- `start_connection` returned the socket; for TLS `create_connection(sock=…, ssl=…)` suspends
      -- again for the handshake — still inside `ceil_timeout(sock_connect)`
      if cfg.https ∧ !s.tls then { s with tls := true } else afterConnect cfg { s with tls := false }
    | .headers =>
      if s.redir then redirectStep cfg s else
      match afterHeaders cfg s with
      | (s, none) => s
      | (s, some e) => throwAt cfg { s with pc := .body } e
    | .think =>
      match readBody cfg { s with thinkT := none } with
      | (s, none) => s
      | (s, some e) => throwAt cfg { s with pc := .body } e
    | .body =>
      match readBody cfg s with
      | (s, none) => s
      | (s, some e) => throwAt cfg { s with pc := .body } e
    | _ => s

/-! ## response bytes -/

/-- a 1xx interim response (not 101) was parsed (`data_received`, EMPTY_PAYLOAD branch).  Sources with the
fix (probed: `Gen.C18.interimKeepsTimerWhenSent`) keep the just re-armed read timer when the request
had been sent completely (`start_timeout()` called); otherwise — and always in sources without the
fix — the timer is dropped.  Then `ClientResponse.start` sets the `100 Continue` waiter and the
writer task writes the body (and stalls in `drain()` or finishes: `start_timeout()`). -/
def interimStep (cfg : Cfg) (s : St) : St :=
  let s := if Gen.C18.interimKeepsTimerWhenSent && s.reqSent then s else dropRead s
  if s.wait100 ∧ s.wr = .parked then
    if cfg.wstall then { s with wait100 := false }
    else reschedRead cfg { s with wait100 := false, wr := .finished, reqSent := true }
  else s

def deliverCore (cfg : Cfg) (s : St) (p : Piece) : St :=
  if s.tr ≠ .open then s
  else if s.rpaused then { s with queued := s.queued ++ [p] }
  else
    let s := if p.n > 0 then reschedRead cfg s else s
    if !s.headDone then
      if !p.headDone then (if p.interim then interimStep cfg s else s)
      else
        let s := { s with headDone := true, buffered := s.buffered + p.bodyBytes, eof := s.eof || p.eof }
        let s := if p.eof then dropRead s else pauseCheck cfg s
        if s.pc = .headers ∧ s.wake = none then { s with wake := some .result } else s
    else
      let s := { s with buffered := s.buffered + p.bodyBytes, eof := s.eof || p.eof }
      let s := if p.eof then dropRead s else pauseCheck cfg s
      -- `_response_eof` is registered once `start` has returned
      let s := if p.eof ∧ s.hdrAt.isSome then releaseConn cfg s else s
      if s.pc = .body ∧ s.wake = none ∧ (p.bodyBytes > 0 ∨ p.eof) then { s with wake := some .result } else s

/-- `deliverCore`, plus: remember that the head just completed is a redirect that will be followed -/
def deliver (cfg : Cfg) (s : St) (p : Piece) : St :=
  let s' := deliverCore cfg s p
  if s.tr = .open ∧ !s.rpaused ∧ !s.headDone ∧ p.headDone ∧ p.redirect then { s' with redir := true } else s'

/-- bytes that arrived while the transport was paused are delivered after `resume_reading` -/
def flushQueued (cfg : Cfg) : Nat → St → St
  | 0, s => s
  | fuel + 1, s =>
    if s.rpaused then s else
    match s.queued with
    | [] => s
    | p :: q => flushQueued cfg fuel (deliver cfg { s with queued := q } p)

/-- the transport is gone; a close-delimited payload whose head has arrived is thereby complete -/
def peerClosed (cfg : Cfg) (s : St) : St :=
  { s with rpaused := false, peerLost := false, eof := s.eof || (cfg.closeDelim && s.headDone) }

def Pc.active : Pc → Bool
  | .headers | .think | .body => true
  | _ => false

/-- `connection_lost(None)` after the peer's close, delivered one loop iteration after
`eof_received()` (hence after the timers of that instant): `parser.feed_eof()` completes a
close-delimited payload; `_response_eof` (registered once `start` returned) releases -/
def lostStep (cfg : Cfg) (s : St) : St :=
  if !s.peerLost then s else
  let s := peerClosed cfg s
  let s := if s.eof ∧ s.hdrAt.isSome ∧ s.pc.active then releaseConn cfg s else s
  if s.pc = .body ∧ s.wake = none ∧ s.eof then { s with wake := some .result } else s

/-! ## external events -/

def applyEv (cfg : Cfg) (s : St) : Ev → St
  | .startH => { s with holder := true }
  | .startR => startR cfg s
  | .startC =>
    if s.cpc ≠ .idle then s
    else if cfg.limit1 then
      if !slotFree cfg s then { s with cpc := .poolWait, poolQ := s.poolQ ++ [.C] } else { s with cpc := .ok }
    else if !cfg.useDns ∨ s.cached then { s with cpc := .ok }
    else match s.lookup with
      | .running _ => { s with cpc := .dnsWaiter, dnsWaitC := true }
      | .none => { s with cpc := .dnsOwner, lookup := .running .C, dnsCalls := s.dnsCalls + 1 }
  | .holderRelease => if !s.holder then s else { s with hRel := true }
  | .dnsAnswer =>
    match s.lookup with
    | .none => s
    | .running _ =>
      let s := { s with lookup := .none, cached := true, dnsWaitC := false }
      let s := if s.cpc = .dnsOwner ∨ s.cpc = .dnsWaiter then { s with cpc := .ok } else s
      if (s.pc = .dnsOwner ∨ s.pc = .dnsWaiter) ∧ s.wake = none then { s with wake := some .result } else s
  | .connDone i =>
    if s.pc = .connecting ∧ s.attempt + s.attOff = i ∧ !s.tls ∧ s.wake = none then { s with wake := some .result } else s
  | .tlsDone i =>
    if s.pc = .connecting ∧ s.attempt + s.attOff = i ∧ s.tls ∧ s.wake = none then { s with wake := some .result } else s
  | .writeResume =>
    if s.wr = .parked ∧ !s.wait100 ∧ s.tr = .open then reschedRead cfg { s with wr := .finished, reqSent := true } else s
  | .bytes p => deliver cfg s p
  | .peerEof =>
    -- `eof_received()`: `_drop_timeout`; the transport is closing; `connection_lost` follows (`lostStep`)
    if s.tr ≠ .open then s else { s with tr := .closed, readT := none, peerLost := true }
  | .cancel => taskCancel s
  | .cancelLate => s

def isLate : Ev → Bool
  | .cancelLate => true
  | _ => false

/-- first task round of an instant: the holder's task runs and releases its slot -/
def holderStep (cfg : Cfg) (s : St) : St :=
  if s.hRel then releaseWaiter cfg { s with hRel := false, holder := false } else s

/-! ## internal timers -/

inductive TK where | total | conn | sock | read | think
deriving Repr, DecidableEq

def timers (s : St) : List (Nat × Nat × TK) :=
  (match s.totalT with | some (d, q) => [(d, q, TK.total)] | none => []) ++
  (match s.connT with | some (d, q) => [(d, q, TK.conn)] | none => []) ++
  (match s.sockT with | some (d, q) => [(d, q, TK.sock)] | none => []) ++
  (match s.readT with | some (d, q) => [(d, q, TK.read)] | none => []) ++
  (match s.thinkT with | some (d, q) => [(d, q, TK.think)] | none => [])

/-- earliest (deadline, creation seq) -/
def nextTimer (s : St) : Option (Nat × Nat × TK) :=
  (timers s).foldl (fun acc t => match acc with
    | none => some t
    | some a => if t.1 < a.1 ∨ (t.1 = a.1 ∧ t.2.1 < a.2.1) then some t else some a) none

/-- is R inside a `with timer` block (its task is in `TimerContext._tasks`) -/
def inTimerCtx (s : St) : Bool :=
  match s.pc with
  | .poolWait | .dnsOwner | .dnsWaiter | .connecting | .headers | .body => true
  | _ => false

def fireTimer (_cfg : Cfg) (s : St) : TK → St
  | .total =>
    -- TimeoutHandle.__call__ → TimerContext.timeout()
    let s := { s with totalT := none }
    if s.tcCancelled then s
    else
      let s := if inTimerCtx s then taskCancel s else s
      { s with tcCancelled := true }
  | .conn => { taskCancel s with connT := none, connCtx := .expiring }
  | .sock => { taskCancel s with sockT := none, sockCtx := .expiring }
  | .read =>
    -- _on_read_timeout: set_exception on the protocol queue and on the payload
    let s := { s with readT := none, readErr := true }
    if (s.pc = .headers ∨ s.pc = .body) ∧ s.wake = none then { s with wake := some (.exc .sockTimeout) } else s
  | .think =>
    let s := { s with thinkT := none }
    if s.pc = .think ∧ s.wake = none then { s with wake := some .result } else s

/-- callbacks of all internal timers due at `t` (creation order), then nothing else -/
def fireDue (cfg : Cfg) (t : Nat) : Nat → St → St
  | 0, s => s
  | fuel + 1, s =>
    match nextTimer s with
    | some (d, _, k) => if d ≤ t then fireDue cfg t fuel (fireTimer cfg s k) else s
    | none => s

/-- callbacks queued behind the end of the cancelled writer task -/
def applyDeferred (s : St) : St :=
  if s.dropTotal then { s with totalT := none, dropTotal := false } else s

/-- tasks run until nothing is pending at this instant -/
def settle (cfg : Cfg) : Nat → St → St
  | 0, s => s
  | fuel + 1, s =>
    let s' := flushQueued cfg 8 (resumeR cfg (applyDeferred s))
    if s'.mustCancel ∨ s'.wake.isSome then settle cfg fuel s' else s'

/-- process every timer instant strictly before `t` -/
def advance (cfg : Cfg) (t : Nat) : Nat → St → St
  | 0, s => s
  | fuel + 1, s =>
    match nextTimer s with
    | some (d, _, _) =>
      if d < t then
        let s := { s with now := max s.now d }
        advance cfg t fuel (settle cfg 8 (fireDue cfg s.now 8 s))
      else s
    | none => s

/-- one external instant -/
def instant (cfg : Cfg) (s : St) (t : Nat) (evs : List Ev) : St :=
  let s := advance cfg t 64 s
  let s := { s with now := max s.now t }
  let s := evs.foldl (applyEv cfg) s
  let s := fireDue cfg s.now 8 s
  let s := holderStep cfg s
  let s := lostStep cfg s
  let s := if evs.any isLate then taskCancel s else s
  settle cfg 8 s

def run (cfg : Cfg) (s : St) : List (Nat × List Ev) → St
  | [] => s
  | (t, evs) :: rest => run cfg (instant cfg s t evs) rest

def init (hasCo : Bool) (c0 : Nat := 0) : St := { cpc := if hasCo then .idle else .none, cancelling := c0 }

/-- instant at which the harness observes the residue (beyond every timeout and scripted event) -/
def tObs : Nat := 400000

def observe (cfg : Cfg) (s : St) : St := instant cfg s tObs []

end Aio.C18
