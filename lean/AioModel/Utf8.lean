import AioModel.Basic
/-!
# AioModel.Utf8 — `str.encode("utf-8")` (strict: lone surrogates are an error)
-/
namespace Aio

/-- UTF-8 bytes of one code point; `none` = `UnicodeEncodeError` (surrogate / out of range) -/
def utf8enc (c : Nat) : Option Bytes :=
  if c < 0x80 then some [c.toUInt8]
  else if c < 0x800 then some [(0xC0 + c / 64).toUInt8, (0x80 + c % 64).toUInt8]
  else if c < 0x10000 then
    if 0xD800 ≤ c ∧ c ≤ 0xDFFF then none
    else some [(0xE0 + c / 4096).toUInt8, (0x80 + c / 64 % 64).toUInt8, (0x80 + c % 64).toUInt8]
  else if c < 0x110000 then
    some [(0xF0 + c / 262144).toUInt8, (0x80 + c / 4096 % 64).toUInt8,
          (0x80 + c / 64 % 64).toUInt8, (0x80 + c % 64).toUInt8]
  else none

/-- `s.encode("utf-8")` -/
def utf8 : Str → Option Bytes
  | [] => some []
  | c :: cs =>
    match utf8enc c, utf8 cs with
    | some a, some b => some (a ++ b)
    | _, _ => none

end Aio
