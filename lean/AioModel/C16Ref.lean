import AioModel.C16
/-!
# C16 reference store — RFC 6265 §5.3 (storage model) and §5.4 (Cookie header), kept short

This is the *specification* the jar is measured against, not a model of the code.
Readings made explicit:

* §5.2.3 / §4.1.2.3 Domain: a value ending in `.` makes the attribute ignored; one leading
  `.` is dropped; the value is lower-cased; empty ⇒ host-only.
* §5.3 step 5 (public-suffix list) is not applied (aiohttp has none).
* §5.3 step 3 expiry: a valid Max-Age wins, else a valid Expires, else a session cookie
  (kept until cleared). `now + max-age` is capped at `maxTime` (§5.2.2 "MAY").
  A cookie is expired when `expiry ≤ now` (so `Max-Age=0` expires at once).
* IP policy of `CookieJar(unsafe=False)` (`allowIp = false`) (documented): responses from IP-address hosts set
  nothing and requests to IP-address hosts carry nothing.  With `unsafe=True` an IP host is
  an ordinary host that only matches itself (§5.1.3).
* `clear_domain(d)` (not in the RFC) removes the cookies whose domain domain-matches `d`.
* Whether a Max-Age / Expires string is *valid* is decided by the parser layer (not
  modelled); the store receives `Att`.
-/
namespace Aio.C16.Ref
open Aio Aio.C16

structure RCookie where
  name : Str
  value : Str
  domain : Str
  path : Str
  hostOnly : Bool
  secure : Bool
  expiry : Option Int
deriving Repr, DecidableEq

/-- §5.1.3: identical, or `host` ends with `"." ++ d` and is not an IP address -/
def domainMatch (host d : Str) : Bool :=
  host == d || (!isIp host && (46 :: d).isSuffixOf host)

/-- §5.1.4 path-match -/
def pathMatch (req cp : Str) : Bool :=
  req == cp || (cp.isPrefixOf req && (cp.getLast? == some 47 || (req.drop cp.length).head? == some 47))

/-- §5.1.4 default-path -/
def defaultPath (uriPath : Str) : Str :=
  if uriPath.head? != some 47 then [47]
  else
    let pre := beforeLastSlash uriPath
    if pre.isEmpty then [47] else pre

def expired (now : Int) (c : RCookie) : Bool :=
  match c.expiry with
  | some t => decide (t ≤ now)
  | none => false

def evict (now : Int) (s : List RCookie) : List RCookie := s.filter (fun c => !expired now c)

def sameId (a b : RCookie) : Bool := a.name == b.name && a.domain == b.domain && a.path == b.path

/-- §5.3 step 11: replace the cookie with the same (name, domain, path), else append -/
def put (c : RCookie) : List RCookie → List RCookie
  | [] => [c]
  | x :: t => if sameId x c then c :: t else x :: put c t

/-- §5.2.3 -/
def domainAttr (d : Str) : Str :=
  let d := if d.getLast? == some 46 then [] else d
  let d := if d.head? == some 46 then d.drop 1 else d
  d.map lowerCp

def expiryOf (now : Int) (r : Raw) : Option Int :=
  match r.maxAge with
  | .val d => some (min (now + d) Gen.C16.maxTime)
  | _ =>
    match r.expires with
    | .val t => some t
    | _ => none

/-- §5.3 for one cookie received from `host` at `uriPath` -/
def receiveOne (now : Int) (host uriPath : Str) (s : List RCookie) (r : Raw) : List RCookie :=
  let d := domainAttr r.domain
  let path := if r.path.head? == some 47 then r.path else defaultPath uriPath
  if d.isEmpty then
    put ⟨r.name, r.value, host, path, true, r.secure, expiryOf now r⟩ s
  else if !domainMatch host d then s            -- "ignore the cookie entirely"
  else put ⟨r.name, r.value, d, path, false, r.secure, expiryOf now r⟩ s

def receive (allowIp : Bool) (now : Int) (host uriPath : Str) (s : List RCookie) (rs : List Raw) :
    List RCookie :=
  if !allowIp && isIp host then s else evict now (rs.foldl (receiveOne now host uriPath) s)

/-- §5.4 step 1: may this cookie be attached to a request for (host, path, scheme)? -/
def attachable (now : Int) (host rpath : Str) (secureReq : Bool) (c : RCookie) : Bool :=
  (if c.hostOnly then host == c.domain else domainMatch host c.domain)
  && pathMatch rpath c.path
  && (!c.secure || secureReq)
  && !expired now c

def select (allowIp : Bool) (now : Int) (s : List RCookie) (host rpath : Str) (secureReq : Bool) :
    List RCookie :=
  if !allowIp && isIp host then [] else s.filter (attachable now host rpath secureReq)

/-- the reference store driven by the same operations as the jar (a response always has a host) -/
def step (allowIp : Bool) (now : Int) (s : List RCookie) : Op → Int × List RCookie
  | .set (some host) rpath cs => (now, receive allowIp now host rpath s cs)
  | .set none _ _ => (now, s)
  | .tick dt => (now + dt, s)
  | .query _ _ _ => (now, evict now s)
  | .clear => (now, [])
  | .clearDomain d => (now, (evict now s).filter (fun c => !domainMatch c.domain d))
  | .saveLoad => (now, evict now s)

def run (allowIp : Bool) (now : Int) (s : List RCookie) : List Op → Int × List RCookie
  | [] => (now, s)
  | op :: ops => let r := step allowIp now s op; run allowIp r.1 r.2 ops

end Aio.C16.Ref
