import AioModel.Basic
import AioModel.Generated.C19
/-!
# C19 model — `aiohttp/multipart.py` over a stream model of `aiohttp/streams.py`

Stream (`StreamReader`, only what the multipart code uses; bytes arrive lazily, one
pending segment each time a read would block — the most adversarial delivery):
* `Stream.read`      = `StreamReader.read(n)` (`n > 0`; `set_read_chunk_size`, `_wait`, `_read_nowait`)
* `Stream.readline`  = `StreamReader.readline(max_line_length=…)` = `readuntil(b"\n")`
* `Stream.unread`    = `StreamReader.unread_data`;  `Stream.atEof` = `at_eof()`

Body part (`BodyPartReader`):
* `gather`, `Part.fromStream` = `_read_chunk_from_stream` (sliding window `prev ++ chunk`,
  search start `len(prev) - len(sub)`, push-back with `unread_data`, `_content_eof` counter)
* `Part.fromLength`  = `_read_chunk_from_length`
* `alignB64`         = `_align_base64_chunk`
* `Part.readChunk`   = `read_chunk`;  `Part.read` = `read(decode=False)`; `Part.release`;
  `Part.readline`    = `readline`

Reader (`MultipartReader`; nested readers are kept as a stack of frames, innermost first):
* `Frame.readUntilFirst` = `_read_until_first_boundary`; `Frame.readBoundary` = `_read_boundary`
* `readHeaders`      = `_read_headers` (limits while reading); `parseHeaders` =
  `HeadersParser(lax=False).parse_headers` (bytes level; exact because every test the code
  makes concerns code points < 0x80); `parseMimetype` = `helpers.parse_mimetype` (ASCII values)
* `partReader`       = `_get_part_reader` + the two constructors
* `Frame.next`       = `next` (`_maybe_release_last_part`, `fetch_next_part`); the `_charset_`
  form field special case is NOT modelled (the harness never produces it)
* `drive`            = a consumer that iterates all parts with a scripted read API

Writer (`MultipartWriter`, `MultipartPayloadWriter`, `Payload._binary_headers`):
* `appendPayload`, `binaryHeaders`, `encodeBody`, `writeParts`, `sizeOf`, `b64enc`
  zlib and quoted-printable are oracle columns (`pieces`, `qps`).
-/
namespace Aio.C19
open Aio

inductive Err where
  | line        -- LineTooLong
  | badmsg      -- other BadHttpMessage (InvalidHeader, too many headers, duplicate singleton)
  | value       -- ValueError
  | assertion   -- AssertionError
  | runtime     -- RuntimeError
  | size        -- max_size_error_cls(client_max_size)
  | fuel        -- model ran out of fuel (never happens: see `reader_terminates`)
deriving Repr, DecidableEq

/-! ## byte helpers -/

def DASH : UInt8 := 45

/-- `bytes.find(sub, start)` -/
def findFrom (sub w : Bytes) (start : Nat) : Option Nat := findSub sub (w.drop start) start

/-- ASCII whitespace stripped by `bytes.strip()` / `str.strip()` on ASCII text -/
def isWs (c : UInt8) : Bool := c == 32 || c == 9 || c == 10 || c == 13 || c == 11 || c == 12
def isSpHt (c : UInt8) : Bool := c == 32 || c == 9
def isCrLf (c : UInt8) : Bool := c == 13 || c == 10

def rstripP (p : UInt8 → Bool) (b : Bytes) : Bytes := (b.reverse.dropWhile p).reverse
def lstripP (p : UInt8 → Bool) (b : Bytes) : Bytes := b.dropWhile p
def stripP (p : UInt8 → Bool) (b : Bytes) : Bytes := rstripP p (lstripP p b)

def lowerByte (c : UInt8) : UInt8 := if 65 ≤ c.toNat ∧ c.toNat ≤ 90 then c + 32 else c
def lower (b : Bytes) : Bytes := b.map lowerByte

/-- `b.partition(sep)` for a one-byte separator: `(before, found, after)` -/
def partitionByte (sep : UInt8) : Bytes → Bytes × Bool × Bytes
  | [] => ([], false, [])
  | c :: t => if c == sep then ([], true, t) else
      let (a, f, r) := partitionByte sep t
      (c :: a, f, r)

/-- `b.split(sep)` for a one-byte separator -/
def splitByte (sep : UInt8) : Bytes → List Bytes
  | [] => [[]]
  | c :: t =>
    match splitByte sep t with
    | [] => [[]]           -- unreachable
    | h :: r => if c == sep then [] :: h :: r else (c :: h) :: r

/-- split after the first LF: `(line including LF, rest)` -/
def splitLF : Bytes → Option (Bytes × Bytes)
  | [] => none
  | c :: t => if c = 10 then some ([c], t) else
      match splitLF t with
      | some (l, r) => some (c :: l, r)
      | none => none

/-! ## StreamReader -/

structure Stream where
  buf : Bytes := []              -- concatenation of `_buffer` (after `_buffer_offset`)
  pending : List Bytes := []     -- non-empty segments not yet fed
  eof : Bool := false            -- `feed_eof()` was called
  eofWithLast : Bool := false    -- `feed_eof()` comes together with the last segment
  low : Nat := 65536
  high : Nat := 131072
deriving Repr

/-- all bytes that the stream will still deliver -/
def Stream.rem (s : Stream) : Bytes := s.buf ++ s.pending.flatten

/-- a read that finds the buffer empty waits: the next segment (or EOF) arrives -/
def Stream.fill (s : Stream) : Stream :=
  if !s.buf.isEmpty || s.eof then s else
  match s.pending with
  | [] => { s with eof := true }
  | [x] => { s with buf := x, pending := [], eof := s.eofWithLast }
  | x :: r => { s with buf := x, pending := r }

def Stream.setChunk (s : Stream) (n : Nat) : Stream :=
  if n > s.low then { s with low := n, high := 2 * n } else s

def Stream.read (s : Stream) (n : Nat) : Bytes × Stream :=
  if n = 0 then ([], s) else
  let s := (s.setChunk n).fill
  (s.buf.take n, { s with buf := s.buf.drop n })

def Stream.atEof (s : Stream) : Bool := s.eof && s.buf.isEmpty

def Stream.unread (s : Stream) (d : Bytes) : Stream :=
  if d.isEmpty then s else { s with buf := d ++ s.buf }

def Stream.readlineGo (max : Nat) : Nat → Stream → Bytes → Except Err Bytes × Stream
  | 0, s, _ => (.error .fuel, s)
  | f + 1, s, acc =>
    match splitLF s.buf with
    | some (l, r) =>
      let line := acc ++ l
      let s := { s with buf := r }
      if line.length > max then (.error .line, s) else (.ok line, s)
    | none =>
      let acc := acc ++ s.buf
      let s := { s with buf := [] }
      if acc.length > max then (.error .line, s)
      else if s.eof then (.ok acc, s)
      else Stream.readlineGo max f s.fill acc

/-- `readline(max_line_length=max)`; `max = 0` means "not given" (`max_size or self._high_water`) -/
def Stream.readline (s : Stream) (max : Nat) : Except Err Bytes × Stream :=
  Stream.readlineGo (if max = 0 then s.high else max) (s.pending.length + 2) s []

/-! ## BodyPartReader -/

structure Part where
  boundary : Bytes               -- `_boundary` (with the leading `--`)
  headers : List (Bytes × Bytes) := []
  length : Option Nat := none    -- `_length`
  isB64 : Bool := false          -- Content-Transfer-Encoding is base64
  atEof : Bool := false
  readBytes : Nat := 0
  carry : Bytes := []            -- `_b64_carry`
  unread : List Bytes := []      -- `_unread` (deque, used by `readline`)
  prev : Option Bytes := none    -- `_prev_chunk`
  contentEof : Nat := 0
  maxSize : Nat := 0             -- `_client_max_size`
deriving Repr

def Part.blen (p : Part) : Nat := p.boundary.length + 2
/-- `b"\r\n" + self._boundary` -/
def Part.sub (p : Part) : Bytes := CRLF ++ p.boundary

/-- the `while len(chunk) < self._boundary_len` loop of `_read_chunk_from_stream` -/
def gather (blen size : Nat) : Nat → Bytes → Nat → Stream → Except Err (Bytes × Nat × Stream)
  | 0, _, _, _ => .error .fuel
  | f + 1, chunk, ce, s =>
    if chunk.length < blen then
      let r := s.read size
      let chunk := chunk ++ r.1
      let ce := ce + (if r.2.atEof then 1 else 0)
      if ce > 2 then .error .value           -- "Reading after EOF"
      else if ce > 0 then .ok (chunk, ce, r.2)
      else gather blen size f chunk ce r.2
    else .ok (chunk, ce, s)

/-- the boundary search and push-back of `_read_chunk_from_stream`, given the previous
chunk, the fresh chunk (already cut to `size`) and whether this is the first call -/
def windowStep (sub prev chunk : Bytes) (first : Bool) : Bytes × Bytes × Option Bytes :=
  -- (result, new prev, pushed back)
  let window := prev ++ chunk
  let start := if first then 0 else prev.length - sub.length
  match findFrom sub window start with
  | some idx =>
    let prev' := prev.take idx
    let chunk' := (window.take idx).drop prev'.length
    (if first then prev'.drop 2 else prev', chunk', some (window.drop idx))
  | none => (if first then prev.drop 2 else prev, chunk, none)

def Part.fromStream (p : Part) (s : Stream) (size : Nat) : Except Err (Bytes × Part × Stream) :=
  if size < p.blen then .error .assertion else
  let first := p.prev.isNone
  let (prev, s) := match p.prev with
    | some pv => (pv, s)
    | none => let r := s.read size; (CRLF ++ r.1, r.2)
  match gather p.blen size (p.blen + 2) [] p.contentEof s with
  | .error e => .error e
  | .ok (chunk, ce, s) =>
    let (chunk, s) :=
      if chunk.length > size then (chunk.take size, s.unread (chunk.drop size)) else (chunk, s)
    let (res, prev', pushed) := windowStep p.sub prev chunk first
    match pushed with
    | some back =>
      .ok (res, { p with prev := some prev', contentEof := ce, atEof := p.atEof || prev'.isEmpty },
           s.unread back)
    | none => .ok (res, { p with prev := some prev', contentEof := ce }, s)

def Part.fromLength (p : Part) (s : Stream) (size len : Nat) : Bytes × Part × Stream :=
  let r := s.read (min size (len - p.readBytes))
  (r.1, { p with atEof := p.atEof || r.2.atEof }, r.2)

def isB64Char (c : UInt8) : Bool := Gen.C19.base64Chars.contains c.toNat
def b64count (b : Bytes) : Nat := (b.filter isB64Char).length

/-- walk back from the end of `chunk` over `left` base64 characters; returns the cut index -/
def walkBack : Bytes → Nat → Nat → Nat
  | _, cut, 0 => cut
  | [], _, _ + 1 => 0
  | c :: t, cut, left + 1 =>
    if isB64Char c then walkBack t (cut - 1) left else walkBack t (cut - 1) (left + 1)

/-- `_align_base64_chunk(chunk, size)` given `at_end`; returns (chunk to hand out, new carry) -/
def alignB64 (chunk : Bytes) (size : Nat) (atEnd : Bool) : Bytes × Bytes :=
  let (chunk, carry) := if !atEnd && chunk.length > size then (chunk.take size, chunk.drop size) else (chunk, [])
  let rem := b64count chunk % 4
  if rem = 0 || atEnd then (chunk, carry) else
  let cut := walkBack chunk.reverse chunk.length rem
  if cut = 0 then (chunk, carry) else (chunk.take cut, chunk.drop cut ++ carry)

def Part.readChunk (p : Part) (s : Stream) (size : Nat) : Except Err (Bytes × Part × Stream) :=
  if p.atEof then .ok ([], p, s) else
  let carry := p.carry
  let want := if carry.isEmpty then size else max (size - carry.length) p.blen
  let p := { p with carry := [] }
  let r : Except Err (Bytes × Part × Stream) := match p.length with
    | some (n + 1) => .ok (p.fromLength s want (n + 1))
    | _ => p.fromStream s want
  match r with
  | .error e => .error e
  | .ok (fresh, p, s) =>
    let chunk := carry ++ fresh
    let p := { p with readBytes := p.readBytes + fresh.length }
    let (chunk, p) :=
      if p.isB64 then
        let atEnd := p.atEof || (match p.length with | some l => p.readBytes ≥ l | none => false)
        let a := alignB64 chunk (carry.length + want) atEnd
        (a.1, { p with carry := a.2 })
      else (chunk, p)
    let p := if p.length = some p.readBytes then { p with atEof := true } else p
    if p.atEof then
      match s.readline 0 with
      | (.error e, _) => .error e
      | (.ok l, s) => if l = CRLF then .ok (chunk, p, s) else .error .value
    else .ok (chunk, p, s)

/-- `BodyPartReader.chunk_size` -/
def chunkSize : Nat := Gen.C19.chunkSize

def Part.readLoop : Nat → Part → Stream → Bytes → Nat → Except (Err × Nat) (Bytes × Part × Stream)
  | 0, _, _, _, n => .error (.fuel, n)
  | f + 1, p, s, data, n =>
    if p.atEof then .ok (data, p, s) else
    match p.readChunk s chunkSize with
    | .error e => .error (e, n)
    | .ok (c, p, s) =>
      let data := data ++ c
      if data.length > p.maxSize then .error (.size, n + 1) else Part.readLoop f p s data (n + 1)

/-- `read(decode=False)`; an error carries the number of `read_chunk` calls that succeeded -/
def Part.read (fuel : Nat) (p : Part) (s : Stream) : Except (Err × Nat) (Bytes × Part × Stream) :=
  Part.readLoop fuel p s [] 0

def Part.releaseLoop : Nat → Part → Stream → Nat → Except (Err × Nat) (Part × Stream)
  | 0, _, _, n => .error (.fuel, n)
  | f + 1, p, s, n =>
    if p.atEof then .ok (p, s) else
    match p.readChunk s chunkSize with
    | .error e => .error (e, n)
    | .ok (_, p, s) => Part.releaseLoop f p s (n + 1)

def Part.release (fuel : Nat) (p : Part) (s : Stream) : Except (Err × Nat) (Part × Stream) :=
  Part.releaseLoop fuel p s 0

def Part.readline (p : Part) (s : Stream) : Except Err (Bytes × Part × Stream) :=
  if p.atEof then .ok ([], p, s) else
  let (lr, p, s) : Except Err Bytes × Part × Stream := match p.unread with
    | l :: rest => (.ok l, { p with unread := rest }, s)
    | [] => let r := s.readline 0; (r.1, p, r.2)
  match lr with
  | .error e => .error e
  | .ok line =>
    if isPrefix p.boundary line then
      let sline := rstripP isCrLf line
      if sline = p.boundary || sline = p.boundary ++ [DASH, DASH] then
        .ok ([], { p with atEof := true, unread := p.unread ++ [line] }, s)
      else .ok (line, p, s)
    else
      match s.readline 0 with
      | (.error e, _) => .error e
      | (.ok nl, s) =>
        let line := if isPrefix p.boundary nl then line.take (line.length - 2) else line
        .ok (line, { p with unread := p.unread ++ [nl] }, s)

/-! ## headers -/

def isTchar (c : UInt8) : Bool := Gen.C19.tcharBytes.contains c.toNat
def valueForbidden (c : UInt8) : Bool := Gen.C19.valueForbidden.any (fun r => r.1 ≤ c.toNat && c.toNat ≤ r.2)

/-- `CIMultiDict.get(name)`: the first value (writer side: `payload.headers`) -/
def getHeader (hs : List (Bytes × Bytes)) (lname : Bytes) : Option Bytes :=
  match hs.find? (fun kv => lower kv.1 == lname) with
  | some kv => some kv.2
  | none => none

def joinComma : List Bytes → Bytes
  | [] => []
  | [v] => v
  | v :: t => v ++ [44, 32] ++ joinComma t

/-- `HeadersDictProxy.get(name)`: all values joined with `", "` (reader side: `part.headers`) -/
def getJoined (hs : List (Bytes × Bytes)) (lname : Bytes) : Option Bytes :=
  match hs.filter (fun kv => lower kv.1 == lname) with
  | [] => none
  | l => some (joinComma (l.map (·.2)))

/-- `HeadersParser(lax=False).parse_headers(lines)`; `lines` ends with the empty line -/
def parseHeaders : List Bytes → List (Bytes × Bytes) → Except Err (List (Bytes × Bytes))
  | [], acc => .ok acc.reverse            -- unreachable: the list ends with an empty line
  | line :: rest, acc =>
    if line.isEmpty then .ok acc.reverse else
    let (name, found, value) := partitionByte 58 line
    if !found then .error .badmsg
    else if name.isEmpty then .error .badmsg
    else if isSpHt (name.head!) || isSpHt (name.getLast!) then .error .badmsg
    else if !name.all isTchar then .error .badmsg
    else
      let value := stripP isSpHt value
      if value.any valueForbidden then .error .badmsg
      else if (getHeader acc (lower name)).isSome
              && Gen.C19.singletonHeaders.contains ((lower name).map (·.toNat)) then .error .badmsg
      else parseHeaders rest ((name, value) :: acc)

/-- `_read_headers` : lines (the last one empty) -/
def readHeaders (maxField maxHeaders : Nat) : Nat → Stream → List Bytes → Except Err (List Bytes × Stream)
  | 0, _, _ => .error .fuel
  | f + 1, s, lines =>
    match s.readline maxField with
    | (.error e, _) => .error e
    | (.ok l, s) =>
      let chunk := rstripP isCrLf l
      let lines := lines ++ [chunk]
      if chunk.isEmpty then .ok (lines, s)
      else if lines.length > maxHeaders then .error .badmsg
      else readHeaders maxField maxHeaders f s lines

structure Mime where
  type : Bytes
  subtype : Bytes
  params : List (Bytes × Bytes)

/-- `helpers.parse_mimetype` on an ASCII value -/
def parseMimetype (v : Bytes) : Mime :=
  if v.isEmpty then ⟨[], [], []⟩ else
  match splitByte 59 v with
  | [] => ⟨[], [], []⟩
  | p0 :: items =>
    let params := items.filterMap (fun item =>
      if (stripP isWs item).isEmpty then none else
      let (k, _, val) := partitionByte 61 item
      some (stripP isWs (lower k), stripP (fun c => c == 32 || c == 34) val))
    let full := lower (stripP isWs p0)
    let full := if full = [42] then [42, 47, 42] else full
    let (mt, _, st) := partitionByte 47 full
    let (st, _, _) := partitionByte 43 st
    ⟨mt, st, params⟩

def asciiMultipart : Bytes := ascii "multipart"
def asciiFormData : Bytes := ascii "form-data"

/-! ## MultipartReader -/

structure Cfg where
  maxField : Nat := 8190
  maxHeaders : Nat := 128
  maxSize : Nat := 0
deriving Repr

structure Frame where
  boundary : Bytes               -- `_boundary` with leading `--`
  headers : List (Bytes × Bytes) := []
  isForm : Bool := false         -- `_mimetype.subtype == "form-data"`
  unread : List Bytes := []      -- `_unread` (list; `pop()` takes the last)
  last : Option Part := none     -- `_last_part` when it is a body part
  atBof : Bool := true
  atEof : Bool := false
deriving Repr

inductive NextOut where
  | none
  | body (p : Part)
  | nested (f : Frame)

/-- `_readline` -/
def Frame.readline (f : Frame) (s : Stream) : Except Err Bytes × Frame × Stream :=
  match f.unread.getLast? with
  | some l => (.ok l, { f with unread := f.unread.dropLast }, s)
  | none => let r := s.readline 0; (r.1, f, r.2)

def Frame.readUntilFirst : Nat → Frame → Stream → Except Err (Frame × Stream)
  | 0, _, _ => .error .fuel
  | n + 1, f, s =>
    match f.readline s with
    | (.error e, _, _) => .error e
    | (.ok l, f, s) =>
      if l.isEmpty then .error .value else
      let c := rstripP isWs l
      if c = f.boundary then .ok (f, s)
      else if c = f.boundary ++ [DASH, DASH] then .ok ({ f with atEof := true }, s)
      else Frame.readUntilFirst n f s

def Frame.readBoundary (f : Frame) (s : Stream) : Except Err (Frame × Stream) :=
  match f.readline s with
  | (.error e, _, _) => .error e
  | (.ok l, f, s) =>
    let c := rstripP isWs l
    if c = f.boundary then .ok (f, s)
    else if c = f.boundary ++ [DASH, DASH] then
      let f := { f with atEof := true }
      match f.readline s with
      | (.error e, _, _) => .error e
      | (.ok epilogue, f, s) =>
        match f.readline s with
        | (.error e, _, _) => .error e
        | (.ok nl, f, s) =>
          if nl.take 2 = [DASH, DASH] then .ok ({ f with unread := f.unread ++ [nl] }, s)
          else .ok ({ f with unread := f.unread ++ [nl, epilogue] }, s)
    else .error .value

def allDigits (b : Bytes) : Bool := !b.isEmpty && b.all isDigit

/-- `_get_part_reader(headers)` and the constructor it calls -/
def partReader (cfg : Cfg) (f : Frame) (hs : List (Bytes × Bytes)) : Except Err NextOut :=
  let mt := parseMimetype ((getJoined hs (ascii "content-type")).getD [])
  if mt.type = asciiMultipart then
    match mt.params.find? (fun kv => kv.1 == ascii "boundary") with
    | none => .error .value
    | some kv =>
      if kv.2.length > 70 then .error .value
      else .ok (.nested { boundary := [DASH, DASH] ++ kv.2, headers := hs, isForm := mt.subtype = asciiFormData })
  else
    let len : Except Err (Option Nat) :=
      if f.isForm then .ok none else
      match getJoined hs (ascii "content-length") with
      | none => .ok none
      | some v => if allDigits v then .ok (ofDec v) else .error .value
    match len with
    | .error e => .error e
    | .ok len =>
      let b64 := match getJoined hs (ascii "content-transfer-encoding") with
        | some v => lower v = ascii "base64"
        | none => false
      .ok (.body { boundary := f.boundary, headers := hs, length := len, isB64 := b64, maxSize := cfg.maxSize })

/-- `next()`; `fuel` bounds the internal loops -/
def Frame.next (cfg : Cfg) (fuel : Nat) (f : Frame) (s : Stream) : Except Err (NextOut × Frame × Stream) :=
  if f.atEof then .ok (.none, f, s) else
  -- _maybe_release_last_part
  let r : Except Err (Frame × Stream) := match f.last with
    | some p =>
      let r2 : Except Err (Part × Stream) :=
        if !p.atEof then (match p.release fuel s with | .error e => .error e.1 | .ok r => .ok r) else .ok (p, s)
      match r2 with
      | .error e => .error e
      | .ok (p, s) => .ok ({ f with unread := f.unread ++ p.unread, last := none }, s)
    | none => .ok (f, s)
  match r with
  | .error e => .error e
  | .ok (f, s) =>
    let r : Except Err (Frame × Stream) :=
      if f.atBof then
        match f.readUntilFirst fuel s with
        | .error e => .error e
        | .ok (f, s) => .ok ({ f with atBof := false }, s)
      else f.readBoundary s
    match r with
    | .error e => .error e
    | .ok (f, s) =>
      if f.atEof then .ok (.none, f, s) else
      match readHeaders cfg.maxField cfg.maxHeaders fuel s [] with
      | .error e => .error e
      | .ok (lines, s) =>
        match parseHeaders lines [] with
        | .error e => .error e
        | .ok hs =>
          match partReader cfg f hs with
          | .error e => .error e
          | .ok out =>
            match out with
            | .body p => .ok (out, { f with last := some p }, s)
            | _ => .ok (out, f, s)

/-! ## a scripted consumer -/

inductive Action where
  | read
  | release
  | skip
  | readline
  | chunks (sizes : List Nat)       -- `read_chunk(size)` until at_eof, sizes cycled
  | partialRead (k size : Nat)      -- k × `read_chunk(size)` then `release()`
deriving Repr

inductive Ev where
  | body (hs : List (Bytes × Bytes)) (tag : String) (data : List Bytes)
  | nestedBegin (hs : List (Bytes × Bytes))
  | nestedEnd
  | done
  | err (e : Err)
  | errAt (e : Err) (n : Nat)   -- inside a scripted action, after `n` successful reader calls
  | stuck       -- readline keeps returning b"" at stream EOF without at_eof
deriving Repr

def chunkLoop : Nat → Part → Stream → List Nat → Nat → List Bytes → Except (Err × Nat) (List Bytes × Part × Stream)
  | 0, _, _, _, i, _ => .error (.fuel, i)
  | f + 1, p, s, sizes, i, acc =>
    if p.atEof then .ok (acc.reverse, p, s) else
    match p.readChunk s (sizes.getD (i % sizes.length) chunkSize) with
    | .error e => .error (e, i)
    | .ok (c, p, s) => chunkLoop f p s sizes (i + 1) (c :: acc)

def partialLoop : Nat → Part → Stream → Nat → Nat → List Bytes → Except (Err × Nat) (List Bytes × Part × Stream)
  | 0, p, s, _, _, acc => .ok (acc.reverse, p, s)
  | k + 1, p, s, size, i, acc =>
    if p.atEof then .ok (acc.reverse, p, s) else
    match p.readChunk s size with
    | .error e => .error (e, i)
    | .ok (c, p, s) => partialLoop k p s size (i + 1) (c :: acc)

/-- `while not part.at_eof(): lines.append(await part.readline())`, given up (`none`) when two
consecutive empty results come back at stream EOF -/
def lineLoop : Nat → Part → Stream → Bool → Nat → List Bytes → Except (Err × Nat) (Option (List Bytes × Part × Stream))
  | 0, _, _, _, i, _ => .error (.fuel, i)
  | f + 1, p, s, lastEmpty, i, acc =>
    if p.atEof then .ok (some (acc.reverse, p, s)) else
    match p.readline s with
    | .error e => .error (e, i)
    | .ok (l, p, s) =>
      if l.isEmpty && lastEmpty && !p.atEof && s.atEof then .ok none
      else lineLoop f p s l.isEmpty (i + 1) (l :: acc)

/-- one scripted action; an error carries the number of reader calls of this action that had succeeded -/
def runAction (fuel : Nat) (a : Action) (p : Part) (s : Stream) : Except (Err × Nat) (Option (String × List Bytes × Part × Stream)) :=
  match a with
  | .read => match p.read fuel s with
    | .error e => .error e
    | .ok (d, p, s) => .ok (some ("R", [d], p, s))
  | .release => match p.release fuel s with
    | .error e => .error e
    | .ok (p, s) => .ok (some ("X", [], p, s))
  | .skip => .ok (some ("S", [], p, s))
  | .readline => match lineLoop fuel p s false 0 [] with
    | .error e => .error e
    | .ok none => .ok none
    | .ok (some (ls, p, s)) => .ok (some ("L", ls, p, s))
  | .chunks sizes => match chunkLoop fuel p s sizes 0 [] with
    | .error e => .error e
    | .ok (cs, p, s) => .ok (some ("C", cs, p, s))
  | .partialRead k size => match partialLoop k p s size 0 [] with
    | .error e => .error e
    | .ok (cs, p, s) =>
      match p.release fuel s with
      | .error e => .error (e.1, e.2 + cs.length)
      | .ok (p, s) => .ok (some ("P", cs, p, s))

/-- iterate the whole body: the stack holds the open readers, innermost first; `quiet`
counts the frames being released by their parent (`descend = false`) -/
def drive (cfg : Cfg) (script : List Action) (descend : Bool) :
    Nat → List (Frame × Bool) → Stream → Nat → List Ev → List Ev
  | 0, _, _, _, acc => (Ev.err .fuel :: acc).reverse
  | _ + 1, [], _, _, acc => (Ev.done :: acc).reverse
  | fuel + 1, (top, quiet) :: rest, s, i, acc =>
    match top.next cfg (fuel + 1) s with
    | .error e => (Ev.err e :: acc).reverse
    | .ok (.none, top, s) =>
      match rest with
      | [] => (Ev.done :: acc).reverse
      | (parent, pq) :: rest' =>
        drive cfg script descend fuel (({ parent with unread := parent.unread ++ top.unread }, pq) :: rest') s i
          (if quiet then acc else Ev.nestedEnd :: acc)
    | .ok (.nested nf, top, s) =>
      if quiet || !descend then drive cfg script descend fuel ((nf, true) :: (top, quiet) :: rest) s i acc
      else drive cfg script descend fuel ((nf, false) :: (top, quiet) :: rest) s i (Ev.nestedBegin nf.headers :: acc)
    | .ok (.body p, top, s) =>
      if quiet then drive cfg script descend fuel ((top, quiet) :: rest) s i acc else
      match runAction (fuel + 1) (script.getD (i % script.length) .read) p s with
      | .error e => (Ev.errAt e.1 e.2 :: acc).reverse
      | .ok none => (Ev.stuck :: acc).reverse
      | .ok (some (tag, data, p, s)) =>
        drive cfg script descend fuel (({ top with last := some p }, quiet) :: rest) s (i + 1)
          (Ev.body p.headers tag data :: acc)

/-! ## MultipartWriter -/

/-- `base64.b64encode` -/
def b64char (n : Nat) : UInt8 :=
  if n < 26 then (65 + n).toUInt8 else if n < 52 then (97 + (n - 26)).toUInt8
  else if n < 62 then (48 + (n - 52)).toUInt8 else if n = 62 then 43 else 47

def b64enc : Bytes → Bytes
  | [] => []
  | [a] => [b64char (a.toNat / 4), b64char (a.toNat % 4 * 16), 61, 61]
  | [a, b] => [b64char (a.toNat / 4), b64char (a.toNat % 4 * 16 + b.toNat / 16), b64char (b.toNat % 16 * 4), 61]
  | a :: b :: c :: t =>
    b64char (a.toNat / 4) :: b64char (a.toNat % 4 * 16 + b.toNat / 16)
      :: b64char (b.toNat % 16 * 4 + c.toNat / 64) :: b64char (c.toNat % 64) :: b64enc t

def b64val (c : UInt8) : Option Nat :=
  let n := c.toNat
  if 65 ≤ n ∧ n ≤ 90 then some (n - 65) else if 97 ≤ n ∧ n ≤ 122 then some (n - 97 + 26)
  else if 48 ≤ n ∧ n ≤ 57 then some (n - 48 + 52) else if n = 43 then some 62 else if n = 47 then some 63
  else none

/-- reference base64 decoder for canonical input (quartets of alphabet characters, padding
only in the last quartet); `none` on anything else -/
def b64dec : Bytes → Option Bytes
  | [] => some []
  | [a, b, 61, 61] =>
    match b64val a, b64val b with
    | some x, some y => some [(x * 4 + y / 16).toUInt8]
    | _, _ => none
  | a :: b :: c :: d :: t =>
    if d = 61 then
      if t.isEmpty then
        match b64val a, b64val b, b64val c with
        | some x, some y, some z => some [(x * 4 + y / 16).toUInt8, (y % 16 * 16 + z / 4).toUInt8]
        | _, _, _ => none
      else none
    else
    match b64val a, b64val b, b64val c, b64val d, b64dec t with
    | some x, some y, some z, some w, some r =>
      some ((x * 4 + y / 16).toUInt8 :: (y % 16 * 16 + z / 4).toUInt8 :: (z % 4 * 64 + w).toUInt8 :: r)
    | _, _, _, _, _ => none
  | _ => none

inductive TE where | none | base64 | qp
deriving Repr, DecidableEq

structure WPart where
  headers : List (Bytes × Bytes)     -- `payload.headers.items()` (UTF-8) before `append_payload`
  content : Bytes                    -- the `BytesPayload` value
  cz1 : Bytes := []                  -- oracle: `compress(content)`
  czf : Bytes := []                  -- oracle: `flush()`
  qps : List Bytes := []             -- oracle: `b2a_qp` of each piece reaching the encoder
deriving Repr

structure Appended where
  headers : List (Bytes × Bytes)
  content : Bytes
  compressed : Bool
  te : TE
  cz1 : Bytes
  czf : Bytes
  qps : List Bytes
deriving Repr

inductive WErr where
  | runtime      -- unknown content (transfer) encoding
  | assertion    -- form-data part with forbidden headers / without name=
  | value        -- forbidden character in a header
  | boundary     -- invalid boundary
deriving Repr, DecidableEq

/-- `headers[name] = value` on a CIMultiDict: replace the first, drop the others, else append -/
def setHeader (hs : List (Bytes × Bytes)) (name value : Bytes) : List (Bytes × Bytes) :=
  let ln := lower name
  if hs.any (fun kv => lower kv.1 == ln) then
    let rec go : List (Bytes × Bytes) → Bool → List (Bytes × Bytes)
      | [], _ => []
      | kv :: t, done =>
        if lower kv.1 == ln then (if done then go t true else (name, value) :: go t true)
        else kv :: go t done
    go hs false
  else hs ++ [(name, value)]

def hdrContentLength : Bytes := ascii "Content-Length"
def hdrContentDisposition : Bytes := ascii "Content-Disposition"

/-- `append_payload` (`idx` = number of parts already appended) -/
def appendPayload (isForm : Bool) (idx : Nat) (p : WPart) : Except WErr Appended :=
  if isForm then
    if (getHeader p.headers (ascii "content-encoding")).isSome
       || (getHeader p.headers (ascii "content-length")).isSome
       || (getHeader p.headers (ascii "content-transfer-encoding")).isSome then .error .assertion
    else
      let hs := if (getHeader p.headers (ascii "content-disposition")).isSome then p.headers
        else setHeader p.headers hdrContentDisposition
          (ascii "form-data; name=\"section-" ++ toDec idx ++ ascii "\"")
      .ok ⟨hs, p.content, false, .none, p.cz1, p.czf, p.qps⟩
  else
    let enc := lower ((getHeader p.headers (ascii "content-encoding")).getD [])
    if !enc.isEmpty && enc != ascii "deflate" && enc != ascii "gzip" && enc != ascii "identity" then .error .runtime
    else
      let compressed := !enc.isEmpty && enc != ascii "identity"
      let te := lower ((getHeader p.headers (ascii "content-transfer-encoding")).getD [])
      if !te.isEmpty && te != ascii "base64" && te != ascii "quoted-printable" && te != ascii "binary" then .error .runtime
      else
        let teK : TE := if te = ascii "base64" then .base64 else if te = ascii "quoted-printable" then .qp else .none
        let hs := if !compressed && teK = .none then setHeader p.headers hdrContentLength (toDec p.content.length)
                  else p.headers
        .ok ⟨hs, p.content, compressed, teK, p.cz1, p.czf, p.qps⟩

def headerForbidden (c : UInt8) : Bool := Gen.C19.headerForbidden.any (fun r => r.1 ≤ c.toNat && c.toNat ≤ r.2)

/-- `Payload._binary_headers` (`none` = `_safe_header` raised) -/
def binaryHeaders (hs : List (Bytes × Bytes)) : Option Bytes :=
  if hs.any (fun kv => kv.1.any headerForbidden || kv.2.any headerForbidden) then none
  else some ((hs.map (fun kv => kv.1 ++ [58, 32] ++ kv.2 ++ CRLF)).flatten ++ CRLF)

/-- the chunks that reach the transfer-encoding stage of `MultipartPayloadWriter` -/
def pieces (a : Appended) : List Bytes :=
  if a.compressed then
    (if a.content.isEmpty then [[]] else if a.cz1.isEmpty then [] else [a.cz1])
      ++ (if a.czf.isEmpty then [] else [a.czf])
  else [a.content]

/-- bytes written for the body of one part -/
def encodeBody (a : Appended) : Bytes :=
  match a.te with
  | .none => (pieces a).flatten
  | .base64 => b64enc (pieces a).flatten       -- 3-byte grouping + final flush = one-shot encoding
  | .qp => a.qps.flatten

def dashBoundary (b : Bytes) : Bytes := [DASH, DASH] ++ b

/-- the two assertions `write` makes for a form-data part -/
def formOk (a : Appended) : Bool :=
  match getHeader a.headers (ascii "content-disposition") with
  | some v => (findSub (ascii "name=") v 0).isSome
  | none => false

def writePart (isForm : Bool) (b : Bytes) (a : Appended) : Except WErr Bytes :=
  if isForm && !formOk a then .error .assertion else
  match binaryHeaders a.headers with
  | none => .error .value
  | some bh => .ok (dashBoundary b ++ CRLF ++ bh ++ encodeBody a ++ CRLF)

def closeDelimiter (b : Bytes) : Bytes := dashBoundary b ++ [DASH, DASH] ++ CRLF

/-- `MultipartWriter.write` -/
def writeParts (isForm : Bool) (b : Bytes) : List Appended → Except WErr Bytes
  | [] => .ok (closeDelimiter b)
  | a :: t =>
    match writePart isForm b a with
    | .error e => .error e
    | .ok x =>
      match writeParts isForm b t with
      | .error e => .error e
      | .ok y => .ok (x ++ y)

/-- `MultipartWriter.size` (`none` = unknown) -/
def sizeOf (b : Bytes) : List Appended → Option Nat
  | [] => some (2 + b.length + 4)
  | a :: t =>
    if a.compressed || a.te ≠ .none then none else
    match binaryHeaders a.headers, sizeOf b t with
    | some bh, some n => some (2 + b.length + 2 + a.content.length + bh.length + 2 + n)
    | _, _ => none

def appendAll (isForm : Bool) : Nat → List WPart → Except WErr (List Appended)
  | _, [] => .ok []
  | i, p :: t =>
    match appendPayload isForm i p, appendAll isForm (i + 1) t with
    | .ok a, .ok r => .ok (a :: r)
    | .error e, _ => .error e
    | _, .error e => .error e

/-- `_boundary_value` accepts the boundary (ASCII, at most 70 chars, no invalid qdtext) -/
def boundaryOk (b : Bytes) : Bool :=
  b.length ≤ 70 && b.all (fun c => c.toNat < 128) && !b.any headerForbidden

/-! ## file-like payloads (`payload.IOBasePayload`, `BytesIOPayload`): the remembered start position

A part built from a file-like object that is positioned at `pos` when it is handed over.
* `IOPayload.setOrRestore` = `IOBasePayload._set_or_restore_start_position`
* `IOPayload.size`  = `IOBasePayload.size` (`st_size - start`, recording `start` on first use) or
                      `BytesIOPayload.size` (`fixedSize`, computed in `__init__`)
* `IOPayload.write` = `write` / `write_with_length(None)`: restore, then read to the end -/

structure IOPayload where
  buf : Bytes
  pos : Nat
  start : Option Nat := none
  fixedSize : Option Nat := none
deriving Repr

inductive IOOp where
  | size
  | write
deriving Repr

def IOPayload.setOrRestore (p : IOPayload) : IOPayload :=
  match p.start with
  | none => { p with start := some p.pos }
  | some s => { p with pos := s }

def IOPayload.size (p : IOPayload) : Nat × IOPayload :=
  match p.fixedSize with
  | some n => (n, p)
  | none =>
    let p := match p.start with
      | none => { p with start := some p.pos }
      | some _ => p
    (p.buf.length - p.start.getD 0, p)

def IOPayload.write (p : IOPayload) : Bytes × IOPayload :=
  let p := p.setOrRestore
  (p.buf.drop p.pos, { p with pos := p.buf.length })

inductive IOOut where
  | size (n : Nat)
  | data (b : Bytes)
deriving Repr, DecidableEq

def IOPayload.run : IOPayload → List IOOp → List IOOut
  | _, [] => []
  | p, .size :: ops => let r := p.size; .size r.1 :: IOPayload.run r.2 ops
  | p, .write :: ops => let r := p.write; .data r.1 :: IOPayload.run r.2 ops

/-- the payload `get_payload` builds from a file-like object at position `k` -/
def IOPayload.create (buf : Bytes) (k : Nat) (bytesIO : Bool) : IOPayload :=
  { buf := buf, pos := k, fixedSize := if bytesIO then some (buf.length - k) else none }

end Aio.C19
