import AioModel.Basic
/-!
# AioModel.Wire — the driver's line protocol helpers

A request line is `Cnn <op> <arg>…`; byte strings travel as lower-case hex (`-` for the
empty string), numbers in decimal, code-point strings as `.`-separated decimals (`-` for
empty).  Every reply is one canonical text line.
-/
namespace Aio.Wire
open Aio

def hexNib (c : Char) : Option Nat := hexVal c.toNat.toUInt8

def parseHex (s : String) : Option Bytes :=
  if s == "-" then some [] else
  let rec go : List Char → List UInt8 → Option Bytes
    | [], acc => some acc.reverse
    | [_], _ => none
    | a :: b :: t, acc =>
      match hexNib a, hexNib b with
      | some x, some y => go t ((x * 16 + y).toUInt8 :: acc)
      | _, _ => none
  go s.toList []

def showHex (bs : Bytes) : String :=
  if bs.isEmpty then "-" else
  String.ofList (bs.foldr (fun b acc =>
    Char.ofNat (hexDigit (b.toNat / 16)).toNat :: Char.ofNat (hexDigit (b.toNat % 16)).toNat :: acc) [])

def parseStr (s : String) : Option Str :=
  if s == "-" then some [] else
  (s.splitOn ".").mapM (fun t => t.toNat?)

def showStr (cs : Str) : String :=
  if cs.isEmpty then "-" else ".".intercalate (cs.map toString)

def showOptNat : Option Nat → String
  | none => "none"
  | some n => toString n

def showBool (b : Bool) : String := if b then "1" else "0"
def parseBool (s : String) : Bool := s == "1"

end Aio.Wire
