import AioModel.Basic
/-!
# C11 concurrency model — `WebSocketWriter.send_frame` called from several tasks

A label-driven state machine of what matters for the shared deflate context:
`asyncio.Lock` (`_locked`, FIFO `_waiters`, the no-barging fast path, `_wake_up_first`),
the three routes of `send_frame` (plain frame / sync compress under the lock / shielded task:
lock + executor compress + flush + write), cancellation of a sender, and the completion of the
executor job.  CPython ≥ 3.12 semantics (the inner task of the executor route starts eagerly).

Labels (the only nondeterminism): `spawn t k` a new task `t` calls `send_frame` (route `k`);
`cancel t`; `execDone` the executor finished compressing; `tick` one event-loop iteration =
every task that was ready at its start runs, FIFO, up to its next suspension.

Observables: `compLog` = order in which the shared compressor was applied to messages,
`wire` = order in which compressed frames reached the transport, `wireAll` = all frames.
A frame is written by a single `transport.write` sequence with no await inside
(`_write_websocket_frame` is synchronous), so frames are atomic by construction.
-/
namespace Aio.C11.Conc

inductive Kind where
  | plain | sync | exec
deriving Repr, DecidableEq

/-- state of a waiter's future in `Lock._waiters` -/
inductive FSt where
  | pending        -- not done
  | woken          -- `set_result(True)` by `_wake_up_first`
  | cancelled      -- `fut.cancel()` (the waiting task was cancelled)
  | wokenCancel    -- result set, then the task was cancelled (`_must_cancel`)
deriving Repr, DecidableEq

structure Waiter where
  id : Nat
  kind : Kind
  st : FSt
deriving Repr, DecidableEq

structure Fresh where
  id : Nat
  kind : Kind
  cancelled : Bool
deriving Repr, DecidableEq

structure S where
  fresh : List Fresh := []        -- tasks created, first step not yet run
  ready : List Nat := []          -- loop._ready (task wake-ups), FIFO
  locked : Bool := false          -- Lock._locked
  waiters : List Waiter := []     -- Lock._waiters
  inExec : Option Nat := none     -- task whose compress() runs in the executor (holds the lock)
  execSignalled : Bool := false   -- its future completed, wake-up scheduled
  compLog : List Nat := []
  wire : List Nat := []
  wireAll : List Nat := []
deriving Repr, DecidableEq

inductive Label where
  | spawn (t : Nat) (k : Kind)
  | cancel (t : Nat)
  | execDone
  | tick
deriving Repr, DecidableEq

/-- `Lock._wake_up_first` -/
def wakeFirst (s : S) : S :=
  match s.waiters with
  | w :: ws =>
    if w.st = .pending then { s with waiters := { w with st := .woken } :: ws, ready := s.ready ++ [w.id] }
    else s
  | [] => s

/-- the holder of the lock does its work (precondition: the lock was free / just handed over) -/
def holdAndGo (s : S) (t : Nat) (k : Kind) : S :=
  match k with
  | .exec =>
    { s with locked := true, inExec := some t, execSignalled := false, compLog := s.compLog ++ [t] }
  | _ =>
    -- compress_sync + flush + write, then `release()`
    wakeFirst { s with locked := false, compLog := s.compLog ++ [t], wire := s.wire ++ [t],
                       wireAll := s.wireAll ++ [t] }

/-- first step of `send_frame` in task `t` -/
def startStep (s : S) (t : Nat) (k : Kind) : S :=
  match k with
  | .plain => { s with wireAll := s.wireAll ++ [t] }
  | _ =>
    -- `Lock.acquire` fast path: free and every queued waiter already cancelled
    if ¬ s.locked ∧ s.waiters.all (fun w => w.st = .cancelled) then holdAndGo s t k
    else { s with waiters := s.waiters ++ [⟨t, k, .pending⟩] }

/-- the executor future completed and the task resumed: flush, write, release -/
def finishExec (s : S) (t : Nat) : S :=
  wakeFirst { s with wire := s.wire ++ [t], wireAll := s.wireAll ++ [t], inExec := none,
                     execSignalled := false, locked := false }

def removeWaiter (ws : List Waiter) (t : Nat) : List Waiter :=
  match ws with
  | [] => []
  | w :: r => if w.id = t then r else w :: removeWaiter r t

/-- task `t` is taken from the ready queue and runs to its next suspension -/
def runTask (s : S) (t : Nat) : S :=
  match s.fresh.find? (fun f => f.id = t) with
  | some f =>
    let s := { s with fresh := s.fresh.filter (fun g => g.id ≠ t) }
    if f.cancelled then s else startStep s t f.kind
  | none =>
    match s.waiters.find? (fun w => w.id = t) with
    | some w =>
      match w.st with
      | .pending => s
      | .woken =>
        -- `finally: _waiters.remove(fut)`; `_locked = True`; continue as holder
        holdAndGo { s with waiters := removeWaiter s.waiters t } t w.kind
      | _ =>
        -- CancelledError: `_waiters.remove(fut)`; `if not self._locked: self._wake_up_first()`
        let s := { s with waiters := removeWaiter s.waiters t }
        if ¬ s.locked then wakeFirst s else s
    | none =>
      if s.inExec = some t ∧ s.execSignalled then finishExec s t else s

def cancelWaiter (ws : List Waiter) (t : Nat) : List Waiter × Bool :=
  match ws with
  | [] => ([], false)
  | w :: r =>
    if w.id = t then
      if w.kind = .sync then
        match w.st with
        | .pending => ({ w with st := .cancelled } :: r, true)   -- fut.cancel(): wake-up scheduled
        | .woken => ({ w with st := .wokenCancel } :: r, false)  -- already scheduled; `_must_cancel`
        | _ => (w :: r, false)
      else (w :: r, false)   -- executor route: the inner task is shielded
    else
      let (r', b) := cancelWaiter r t
      (w :: r', b)

def step (s : S) : Label → S
  | .spawn t k => { s with fresh := s.fresh ++ [⟨t, k, false⟩], ready := s.ready ++ [t] }
  | .cancel t =>
    if s.fresh.any (fun f => f.id = t) then
      { s with fresh := s.fresh.map (fun f => if f.id = t then { f with cancelled := true } else f) }
    else
      let (ws, sched) := cancelWaiter s.waiters t
      { s with waiters := ws, ready := if sched then s.ready ++ [t] else s.ready }
  | .execDone =>
    match s.inExec with
    | some t => if s.execSignalled then s else { s with execSignalled := true, ready := s.ready ++ [t] }
    | none => s
  | .tick => s.ready.foldl runTask { s with ready := [] }

def run (s : S) (ls : List Label) : S := ls.foldl step s

end Aio.C11.Conc
