import AioModel.Basic
import AioModel.Generated.C17
/-!
# C17 model — the redirect loop of `aiohttp/client.py: ClientSession._request`

One iteration of the `while True:` loop is split at the `await handler(req)`:

* `prepare`  = top of the loop up to and including `ClientRequest(...)` / `_send`:
               `helpers.strip_auth_from_url`, the URL-credential / netrc `Authorization`
               logic, `cookie_jar.filter_cookies(url)`, the per-request `cookies` (temporary
               jar), and what `client_reqrep.ClientRequest.__init__` puts on the wire
               (`_update_headers` incl. the `headers.pop(HOST)` side effect on the caller's
               dict, `_update_auto_headers`, `_update_cookies`, `_update_body_from_data`,
               `_update_transfer_encoding`, default `Content-Type` in `_send`,
               `_write_bytes` with the `Content-Length` cut).
* `react`    = everything after the response arrived: jar update, the redirect branch
               (counter / `TooManyRedirects`, the status × method table, the consumed-body
               refusal, `Location`/`URI` outcome, non-HTTP refusal, origin comparison and
               stripping of `Authorization` / `Cookie` / `Proxy-Authorization` and of the
               per-request cookies, `params = {}`, `resp.release()` / `resp.close()` calls).
* `run`      = the loop: a fold over the scripted chain of responses.
* `runF`     = the loop with connection faults: `run` plus the
               `except (ClientOSError, ServerDisconnectedError)` arm - the per-call resend
               allowance `retry_persistent_connection` (`St.retry`, `afterDrop`).

Not modelled internally (parameters / oracle columns, see `Env`): yarl (a redirect target
arrives already classified as `Loc`: missing / `URL()` raised / scheme not http(s) /
`origin()` raised / resolved absolute URL with origin, userinfo-derived `Authorization`
value, `Host` value and request-target), `CookieJar` (C16), netrc, `parse_cookie_header`,
base64.  Proxies, middlewares, traces, connection-error retries, `raise_for_status` are
outside the model (harness keeps them off).

Ghost data: every header / cookie carries the list of its provenances (`Prov`); `St.idx`
and `St.since` number the hops and remember where the current same-origin streak began.
No function below inspects a `Prov`, `idx` or `since` to decide anything.
-/
namespace Aio.C17
open Aio

/-- code points of an ASCII literal -/
def S (s : String) : Str := s.toList.map Char.toNat

structure Origin where
  scheme : Nat          -- 0 = http, 1 = https
  host : Str
  port : Nat
  /-- 1 when the URL spells out its default port (`http://a.test:80/`): `yarl`'s `origin()` of such a URL compares
  *unequal* to the origin of `http://a.test/`, so the loop's `url.origin() != redirect_origin` treats that hop as
  cross-origin and strips (the safe direction).  Relative targets inherit the spelling. -/
  spelled : Nat := 0
deriving DecidableEq, Repr

/-- a `yarl.URL` as far as the loop looks at it -/
structure Url where
  origin : Origin
  /-- `url.raw_host` is truthy -/
  hasHost : Bool := true
  /-- `encode_basic_auth(url.user or "", url.password or "")` when `raw_user`/`raw_password` is set -/
  cred : Option Str := none
  /-- `url.host_port_subcomponent` -/
  hostHdr : Str
  /-- `url.raw_path_qs` -/
  target : Str
deriving DecidableEq, Repr

/-- where a header / cookie value came from (ghost) -/
inductive Prov where
  | caller               -- `headers=` / `cookies=` argument of `request()` (hop 0)
  | url (hop : Nat)      -- userinfo of the URL requested at `hop`
  | netrc (hop : Nat)    -- netrc lookup performed at `hop`
  | jar (hop : Nat)      -- `cookie_jar.filter_cookies` at `hop`
deriving DecidableEq, Repr

/-- the hop at which a value entered the loop -/
def Prov.birth : Prov → Nat
  | .caller => 0
  | .url h => h
  | .netrc h => h
  | .jar h => h

structure Hdr where
  name : Str
  value : Str
  provs : List Prov := []
deriving DecidableEq, Repr

structure Cookie where
  name : Str
  value : Str
  provs : List Prov := []
deriving DecidableEq, Repr

/-! ## CIMultiDict -/

def lowerC (c : Nat) : Nat := if 65 ≤ c ∧ c ≤ 90 then c + 32 else c
def lowerS (s : Str) : Str := s.map lowerC
/-- case-insensitive key equality (ASCII names) -/
def ciEq (a b : Str) : Bool := lowerS a == lowerS b

def has (n : Str) (h : List Hdr) : Bool := h.any (fun x => ciEq x.name n)
/-- `d.get(n)` -/
def getFirst (n : Str) : List Hdr → Option Hdr
  | [] => none
  | x :: t => if ciEq x.name n then some x else getFirst n t
/-- `d.pop(n, default)` / `d.popone`: removes the first occurrence only -/
def popFirst (n : Str) : List Hdr → List Hdr
  | [] => []
  | x :: t => if ciEq x.name n then t else x :: popFirst n t
/-- `d.popall(n, None)` / `del d[n]` -/
def popAll (n : Str) (h : List Hdr) : List Hdr := h.filter (fun x => !ciEq x.name n)
/-- `d[n] = v`: first occurrence replaced in place, the others removed; appended if absent -/
def setHdr (x : Hdr) : List Hdr → List Hdr
  | [] => [x]
  | y :: t => if ciEq y.name x.name then x :: popAll x.name t else y :: setHdr x t

def AUTHORIZATION := S "Authorization"
def COOKIE := S "Cookie"
def PROXY_AUTHORIZATION := S "Proxy-Authorization"
def HOST := S "Host"
def USER_AGENT := S "User-Agent"
def CONTENT_LENGTH := S "Content-Length"
def CONTENT_TYPE := S "Content-Type"
def TRANSFER_ENCODING := S "Transfer-Encoding"
def GET := S "GET"
def HEAD := S "HEAD"
def POST := S "POST"

/-- the three header names the redirect loop strips on an origin change -/
def isSecretName (n : Str) : Bool :=
  ciEq n AUTHORIZATION || ciEq n COOKIE || ciEq n PROXY_AUTHORIZATION

/-! ## cookies (SimpleCookie as an association list) -/

/-- `c[name] = morsel` -/
def insertCookie (c : Cookie) : List Cookie → List Cookie
  | [] => [c]
  | d :: t => if d.name == c.name then c :: t else d :: insertCookie c t

/-- `base.load(extra)` / `for k, v in extra.items(): base[k] = v` -/
def loadCookies (base extra : List Cookie) : List Cookie := extra.foldl (fun acc c => insertCookie c acc) base

/-- Python `str <` (code-point lexicographic) -/
def strLt : Str → Str → Bool
  | [], [] => false
  | [], _ :: _ => true
  | _ :: _, [] => false
  | a :: s, b :: t => if a < b then true else if b < a then false else strLt s t

def insertSorted (c : Cookie) : List Cookie → List Cookie
  | [] => [c]
  | d :: t => if strLt c.name d.name then c :: d :: t else d :: insertSorted c t
/-- `sorted(self.items())` of `BaseCookie.output` (names are unique) -/
def sortCookies (l : List Cookie) : List Cookie := l.foldr insertSorted []

/-- `c.output(header="", sep=";").strip()` for plain token values: `a=1; b=2` -/
def renderCookies : List Cookie → Str
  | [] => []
  | [c] => c.name ++ [61] ++ c.value
  | c :: t => c.name ++ [61] ++ c.value ++ [59, 32] ++ renderCookies t

/-! ## request body -/

/-- a `payload.Payload` as far as the loop looks at it -/
structure Body where
  /-- what `write_with_length` emits when the payload is (re)played in full -/
  data : Bytes
  /-- `payload.headers[Content-Type]` -/
  ctype : Option Str
  /-- `payload.size is not None` -/
  sized : Bool
  /-- writing marks the payload `consumed` (async iterables without cache) -/
  oneShot : Bool
deriving DecidableEq, Repr

/-- `ClientRequest._EMPTY_BODY` -/
def emptyBody : Body := { data := [], ctype := some Gen.C17.emptyBodyCtype, sized := true, oneShot := false }

/-! ## environment, configuration, state -/

/-- `CookieJar` as seen from the loop (the jar itself is property C16) -/
structure Jar where
  σ : Type
  /-- `filter_cookies(url)` as (name, value) pairs -/
  filter : σ → Url → List (Str × Str)
  /-- `update_cookies_from_headers(resp._raw_cookie_headers, resp.url)`; `sc` identifies the response's Set-Cookie headers -/
  update : σ → Url → Nat → σ

structure Env where
  jar : Jar
  /-- temporary jar of the per-request `cookies`: `update_cookies(cookies); filter_cookies(url)` (hop index only for oracle use) -/
  reqSel : Nat → List (Str × Str) → Url → List (Str × Str)
  /-- `_get_netrc_auth(host)` -/
  netrc : Str → Option Str
  /-- `parse_cookie_header(value)` as (name, value) pairs -/
  parseCookie : Str → List (Str × Str)

structure Cfg where
  /-- `max_redirects`; NOTE `0` is falsy in `if max_redirects and …`: it means *unlimited* -/
  maxRedirects : Nat := 10
  allowRedirects : Bool := true
  trustEnv : Bool := false
  /-- `ClientSession._retry_connection` (default `True`; aiohttp's TestClient switches it off) -/
  retryConnection : Bool := true
deriving Repr

/-- outcome of looking at `Location` / `URI` of a redirect response -/
inductive Loc where
  | none            -- neither header (or empty `Location` and no `URI`)
  | invalid         -- `URL(r_url)` raised ValueError
  | nonHttp         -- scheme not in {http, https, ""}
  | badOrigin       -- `parsed_redirect_url.origin()` raised ValueError
  | ok (u : Url)    -- absolute target (after `url.join` for scheme-less forms)
deriving DecidableEq, Repr

structure Resp where
  status : Nat
  loc : Loc
  /-- identifies the Set-Cookie headers of this response (opaque, for `Jar.update`) -/
  sc : Nat := 0
deriving DecidableEq, Repr

/-- the locals of `_request` that survive an iteration -/
structure St (σ : Type) where
  url : Url
  /-- request-target of `url.extend_query(params)` while `params` is non-empty -/
  params : Option Str
  headers : List Hdr
  cookies : Option (List (Str × Str))
  method : Str
  data : Option Body
  /-- `payload.consumed` of the current `data` -/
  consumed : Bool
  redirects : Nat
  history : List Nat
  jar : σ
  /-- `retry_persistent_connection`: the call's allowance for ONE transparent resend after
  `ServerDisconnectedError` / `ClientOSError` (only read by `runF`) -/
  retry : Bool := false
  /-- ghost: index of the request about to be made = number of responses received -/
  idx : Nat
  /-- ghost: first hop of the current same-origin streak -/
  since : Nat

/-- one request as handed to the connection -/
structure Sent where
  idx : Nat
  since : Nat
  url : Url
  method : Str
  target : Str
  headers : List Hdr
  cookiePairs : List Cookie
  body : Bytes
  /-- ghost: what `cookie_jar.filter_cookies(url)` returned for this request -/
  jarSel : List (Str × Str) := []
  /-- ghost: the `data` handed to `ClientRequest` (`none` = no body) -/
  data : Option Body := none
deriving Repr

inductive Ev where
  | release (i : Nat)     -- `history[i].release()`
  | close (i : Nat)       -- `history[i].close()`
deriving DecidableEq, Repr

inductive Err where
  | invalidUrl             -- InvalidUrlClientError (first URL without host)
  | invalidRedirectUrl     -- InvalidUrlRedirectClientError
  | nonHttpRedirect        -- NonHttpUrlRedirectClientError
  | authConflict           -- ValueError: Authorization header + credentials in the first URL
  | badRequest             -- ValueError from ClientRequest (chunked/Content-Length conflicts)
  | tooManyRedirects       -- TooManyRedirects
  | payloadConsumed        -- ClientPayloadError (consumed body cannot be replayed)
  | disconnected           -- ServerDisconnectedError / ClientOSError (peer closed without answering)
deriving DecidableEq, Repr

inductive Outcome where
  | ok (final : Nat) (history : List Nat)   -- response `final` returned; its `.history`
  | err (e : Err)
  | pending                                   -- the scripted chain ended before the loop did
deriving DecidableEq, Repr

/-! ## `prepare`: top of the loop and `ClientRequest` -/

/-- the `Authorization` decision at the top of the loop -/
def applyAuth (env : Env) (cfg : Cfg) (st : St env.jar.σ) : Except Err (List Hdr) :=
  match st.url.cred with
  | some a =>
    if st.history.isEmpty && has AUTHORIZATION st.headers then .error .authConflict
    else .ok (setHdr { name := AUTHORIZATION, value := a, provs := [.url st.idx] } st.headers)
  | none =>
    if cfg.trustEnv && !has AUTHORIZATION st.headers then
      match env.netrc st.url.origin.host with
      | some a => .ok (setHdr { name := AUTHORIZATION, value := a, provs := [.netrc st.idx] } st.headers)
      | none => .ok st.headers
    else .ok st.headers

def jarCookies (env : Env) (st : St env.jar.σ) (url : Url) : List Cookie :=
  (env.jar.filter st.jar url).map (fun nv => { name := nv.1, value := nv.2, provs := [.jar st.idx] })

def reqCookies (env : Env) (st : St env.jar.σ) (url : Url) : List Cookie :=
  match st.cookies with
  | some cs => (env.reqSel st.idx cs url).map (fun nv => { name := nv.1, value := nv.2, provs := [.caller] })
  | none => []

/-- `all_cookies` handed to `ClientRequest` -/
def allCookies (env : Env) (st : St env.jar.σ) (url : Url) : List Cookie :=
  loadCookies (jarCookies env st url) (reqCookies env st url)

/-- `_update_headers`: Host first (caller's `Host` wins and is *popped from the caller's dict*) -/
def hostHeader (url : Url) (h : List Hdr) : Hdr :=
  match getFirst HOST h with
  | some x => { name := HOST, value := x.value, provs := x.provs }
  | none => { name := HOST, value := url.hostHdr }

def addDefault (kv : Str × Str) (h : List Hdr) : List Hdr :=
  if has kv.1 h then h else h ++ [{ name := kv.1, value := kv.2 }]

/-- `_update_auto_headers(None)` -/
def autoHeaders (h : List Hdr) : List Hdr :=
  addDefault (USER_AGENT, Gen.C17.userAgent) (Gen.C17.defaultHeaders.foldl (fun acc kv => addDefault kv acc) h)

/-- cookies parsed from the (first) `Cookie` header already present -/
def headerCookies (env : Env) (h : List Hdr) : List Cookie :=
  match getFirst COOKIE h with
  | some x => (env.parseCookie x.value).map (fun nv => { name := nv.1, value := nv.2, provs := x.provs })
  | none => []

/-- the cookie pairs of the merged `Cookie` header (`_update_cookies`), `[]` when untouched -/
def mergedCookies (env : Env) (h : List Hdr) (all : List Cookie) : List Cookie :=
  if all.isEmpty then [] else sortCookies (loadCookies (loadCookies [] (headerCookies env h)) all)

/-- `_update_cookies` -/
def cookieHeaders (env : Env) (h : List Hdr) (all : List Cookie) : List Hdr :=
  if all.isEmpty then h
  else
    let m := mergedCookies env h all
    popAll COOKIE h ++ [{ name := COOKIE, value := renderCookies m, provs := m.flatMap (·.provs) }]

def isGetMethod (m : Str) : Bool := Gen.C17.getMethods.contains m
def isPostMethod (m : Str) : Bool := Gen.C17.postMethods.contains m

/-- `_update_body_from_data`: returns headers and `self.chunked` -/
def bodyHeaders (method : Str) (data : Option Body) (h : List Hdr) : List Hdr × Bool :=
  match data with
  | none =>
    if !isGetMethod method && !has CONTENT_LENGTH h then
      (setHdr { name := CONTENT_LENGTH, value := [48] } h, false)
    else (h, false)
  | some b =>
    let (h, chunked) :=
      if !has CONTENT_LENGTH h then
        if b.sized then (setHdr { name := CONTENT_LENGTH, value := (toDec b.data.length).map (·.toNat) } h, false)
        else (h, true)
      else (h, false)
    match b.ctype with
    | some ct => if has CONTENT_TYPE h then (h, chunked) else (setHdr { name := CONTENT_TYPE, value := ct } h, chunked)
    | none => (h, chunked)

def chunkedWord : Str := S "chunked"

/-- `_update_transfer_encoding` (called when `data is not None or method not in GET_METHODS`) -/
def teHeaders (method : Str) (data : Option Body) (chunked : Bool) (h : List Hdr) : Except Err (List Hdr) :=
  if data.isSome || !isGetMethod method then
    let te := match getFirst TRANSFER_ENCODING h with
      | some x => lowerS x.value
      | none => []
    if (findSub chunkedWord te 0).isSome then
      if chunked then .error .badRequest else .ok h
    else if chunked then
      if has CONTENT_LENGTH h then .error .badRequest
      else .ok (setHdr { name := TRANSFER_ENCODING, value := chunkedWord } h)
    else .ok h
  else .ok h

/-- `_send`: default content type for POST-like methods -/
def defaultCtype (method : Str) (h : List Hdr) : List Hdr :=
  if isPostMethod method && !has CONTENT_TYPE h then
    setHdr { name := CONTENT_TYPE, value := S "application/octet-stream" } h
  else h

def strToBytes (s : Str) : Bytes := s.map (·.toUInt8)

/-- `_write_bytes`: body bytes handed to the writer -/
def wireBody (data : Option Body) (consumed : Bool) (h : List Hdr) : Except Err Bytes :=
  match data with
  | none => .ok []
  | some b =>
    if b.sized && b.data.isEmpty then .ok []            -- `_should_write` is false
    else
      match getFirst CONTENT_LENGTH h with
      | none => .ok (if b.oneShot && consumed then [] else b.data)
      | some x =>
        match ofDec (strToBytes x.value) with
        | none => .error .badRequest                       -- `_get_content_length` ValueError
        | some n => .ok ((if b.oneShot && consumed then [] else b.data).take n)

def writes (data : Option Body) : Bool :=
  match data with
  | none => false
  | some b => !(b.sized && b.data.isEmpty)

/-- top of the loop up to the moment the request is on the wire -/
def prepare (env : Env) (cfg : Cfg) (st : St env.jar.σ) : Except Err (St env.jar.σ × Sent) :=
  -- strip_auth_from_url
  let url : Url := { st.url with cred := none }
  if !url.hasHost then .error (if st.redirects != 0 then .invalidRedirectUrl else .invalidUrl) else
  match applyAuth env cfg st with
  | .error e => .error e
  | .ok hs =>
    let all := allCookies env st url
    -- ClientRequest.__init__
    let target := st.params.getD url.target
    let hostH := hostHeader url hs
    let persistent := popFirst HOST hs          -- side effect on the caller's dict
    let h1 := autoHeaders (hostH :: persistent)
    let h2 := cookieHeaders env h1 all
    let (h3, chunked) := bodyHeaders st.method st.data h2
    match teHeaders st.method st.data chunked h3 with
    | .error e => .error e
    | .ok h4 =>
      let h5 := defaultCtype st.method h4
      match wireBody st.data st.consumed h5 with
      | .error e => .error e
      | .ok body =>
        let consumed := st.consumed || (match st.data with
          | some b => b.oneShot && writes st.data
          | none => false)
        .ok ({ st with url := url, headers := persistent, consumed := consumed },
             { idx := st.idx, since := st.since, url := url, method := st.method, target := target,
               headers := h5, cookiePairs := mergedCookies env h1 all, body := body,
               jarSel := env.jar.filter st.jar url, data := st.data })

/-! ## `react`: after the response -/

inductive Next (σ : Type) where
  | continue (st : St σ) (evs : List Ev)
  | stop (out : Outcome) (evs : List Ev)

def isRedirect (status : Nat) : Bool := Gen.C17.redirectStatuses.contains status

/-- the status × method table: is the next request rewritten to a body-less GET? -/
def toGet (status : Nat) (method : Str) : Bool :=
  (Gen.C17.seeOtherStatuses.contains status && method != HEAD) ||
  (Gen.C17.postToGetStatuses.contains status && method == POST)

/-- `if headers.get(CONTENT_LENGTH): headers.pop(CONTENT_LENGTH)` -/
def dropContentLength (h : List Hdr) : List Hdr :=
  match getFirst CONTENT_LENGTH h with
  | some x => if x.value.isEmpty then h else popFirst CONTENT_LENGTH h
  | none => h

/-- stripping on an origin change -/
def stripSecrets (h : List Hdr) : List Hdr :=
  popAll PROXY_AUTHORIZATION (popAll COOKIE (popAll AUTHORIZATION h))

def react (env : Env) (cfg : Cfg) (st : St env.jar.σ) (s : Sent) (r : Resp) : Next env.jar.σ :=
  let i := st.idx
  let jar' := env.jar.update st.jar s.url r.sc
  if isRedirect r.status && cfg.allowRedirects then
    let redirects := st.redirects + 1
    let history := st.history ++ [i]
    if cfg.maxRedirects != 0 && redirects ≥ cfg.maxRedirects then
      .stop (.err .tooManyRedirects) [.close i]
    else
      let rewrite := toGet r.status s.method
      if !rewrite && st.consumed then .stop (.err .payloadConsumed) [.close i] else
      let method := if rewrite then GET else st.method
      let data := if rewrite then none else some (st.data.getD emptyBody)
      let consumed := if rewrite then false else st.consumed
      let headers := if rewrite then dropContentLength st.headers else st.headers
      match r.loc with
      | .none => .stop (.ok i history) []          -- F18: `history` already contains `i`
      | .invalid => .stop (.err .invalidRedirectUrl) [.release i, .close i]
      | .nonHttp => .stop (.err .nonHttpRedirect) [.release i, .close i]
      | .badOrigin => .stop (.err .invalidRedirectUrl) [.release i, .close i]
      | .ok target =>
        let cross := s.url.origin != target.origin
        .continue
          { url := target, params := none,
            headers := if cross then stripSecrets headers else headers,
            cookies := if cross then none else st.cookies,
            method := method, data := data, consumed := consumed,
            redirects := redirects, history := history, jar := jar',
            retry := st.retry,                     -- the allowance is per call: never re-armed
            idx := i + 1, since := if cross then i + 1 else st.since }
          [.release i, .release i]
  else .stop (.ok i st.history) []

/-! ## the loop -/

structure Result where
  sent : List Sent
  events : List Ev
  out : Outcome

def run (env : Env) (cfg : Cfg) : St env.jar.σ → List Resp → Result
  | st, chain =>
    match prepare env cfg st with
    | .error e => { sent := [], events := [], out := .err e }
    | .ok (st1, s) =>
      match chain with
      | [] => { sent := [s], events := [], out := .pending }
      | r :: rest =>
        match react env cfg st1 s r with
        | .stop out evs => { sent := [s], events := evs, out := out }
        | .continue st2 evs =>
          let res := run env cfg st2 rest
          { sent := s :: res.sent, events := evs ++ res.events, out := res.out }

/-- `ClientSession._prepare_headers`: session defaults, then the caller's headers; the first
occurrence of a name (compared *case-sensitively* by `added_names`) replaces, later ones add -/
def prepareHeaders (defaults caller : List Hdr) : List Hdr :=
  (caller.foldl (fun (acc : List Hdr × List Str) x =>
    if acc.2.contains x.name then (acc.1 ++ [x], acc.2) else (setHdr x acc.1, x.name :: acc.2))
    (defaults, [])).1

def callerHdr (nv : Str × Str) : Hdr := { name := nv.1, value := nv.2, provs := [.caller] }

/-- the locals of `_request` before the loop: `headers` = session defaults merged with the
caller's, all tagged `caller`; `method` already upper-cased -/
def init (env : Env) (url : Url) (params : Option Str) (method : Str) (defaults headers : List (Str × Str))
    (cookies : Option (List (Str × Str))) (data : Option Body) (jar0 : env.jar.σ) : St env.jar.σ :=
  { url := url, params := params,
    headers := prepareHeaders (defaults.map callerHdr) (headers.map callerHdr),
    cookies := cookies, method := method, data := data, consumed := false,
    redirects := 0, history := [], jar := jar0, idx := 0, since := 0 }

/-! ## the loop with connection faults

`runF` is `run` plus the `except (ClientOSError, ServerDisconnectedError)` arm of the loop: the
peer may close a connection without answering (`Reply.drop`).  The local
`retry_persistent_connection` (`St.retry`) allows ONE transparent resend per call, for
idempotent methods only; the resend goes through the top of the loop again (`prepare`), with
the payload object of the failed request (`data = req._body`) unless that is already consumed. -/

inductive Reply where
  | resp (r : Resp)
  | drop                  -- connection closed by the peer before any response
deriving DecidableEq, Repr

def isIdempotent (m : Str) : Bool := Gen.C17.idempotentMethods.contains m

/-- the `except (ClientOSError, ServerDisconnectedError)` arm -/
def afterDrop {σ : Type} (st1 : St σ) : Except Err (St σ) :=
  if !st1.retry then .error .disconnected
  else if st1.data.isSome && st1.consumed then .error .disconnected
  else .ok { st1 with retry := false }

def runF (env : Env) (cfg : Cfg) : St env.jar.σ → List Reply → Result
  | st, chain =>
    match prepare env cfg st with
    | .error e => { sent := [], events := [], out := .err e }
    | .ok (st1, s) =>
      match chain with
      | [] => { sent := [s], events := [], out := .pending }
      | .drop :: rest =>
        match afterDrop st1 with
        | .error e => { sent := [s], events := [], out := .err e }
        | .ok st1' =>
          let res := runF env cfg st1' rest
          { sent := s :: res.sent, events := res.events, out := res.out }
      | .resp r :: rest =>
        match react env cfg st1 s r with
        | .stop out evs => { sent := [s], events := evs, out := out }
        | .continue st2 evs =>
          let res := runF env cfg st2 rest
          { sent := s :: res.sent, events := evs ++ res.events, out := res.out }

/-- `init` with the resend allowance of the call: `self._retry_connection and method in IDEMPOTENT_METHODS` -/
def initF (env : Env) (cfg : Cfg) (url : Url) (params : Option Str) (method : Str) (defaults headers : List (Str × Str))
    (cookies : Option (List (Str × Str))) (data : Option Body) (jar0 : env.jar.σ) : St env.jar.σ :=
  { init env url params method defaults headers cookies data jar0 with
    retry := cfg.retryConnection && isIdempotent method }

end Aio.C17
