import AioModel.Http
import AioModel.Generated.C09
/-!
# AioModel.C09 — the body-decoding pipeline (transport ⇄ protocol ⇄ payload parser ⇄ decoder ⇄ reader)

One HTTP message body, from the moment `HttpParser.feed_data` has created the
`HttpPayloadParser`.  Everything is a function `World c → World c` over ONE flat record (the
Python objects alias each other: `StreamReader.feed_data` reaches back through
`protocol.pause_reading()` into the payload parser that is feeding it).  Python exceptions are a
register (`raised`), the return value of `HttpPayloadParser.feed_data` is a register (`res`).

Transcribed (aiohttp file : function → definition here)
* base_protocol.py : `BaseProtocol.pause_reading` → `pauseReading`; `resume_reading` → `resumeReading`
  / `resumeTransport`
* streams.py : `StreamReader.feed_data` → `rdFeed`; `feed_eof` → `rdFeedEof`;
  `begin/end_http_chunk_receiving` → `beginChunk`/`endChunk`; `set_read_chunk_size` → `setChunk`;
  `_read_nowait_chunk` → `readChunk`; `_read_nowait` → `readAllChunks`/`readUpTo`;
  `read(n)`/`readany()` → `readOp`
* http_parser.py : `DeflateBuffer.feed_data` → `payFeed`; `DeflateBuffer.feed_eof` → `payEof`;
  `HttpPayloadParser.feed_data` → `ppFeed` (`feedLength`, `feedUntilEof`, `chunkedLoop`; the three
  `while self._more_data_available` loops → `drain`); `HttpPayloadParser.feed_eof` → `ppFeedEof`;
  the payload branch of `HttpParser.feed_data` → `parserFeed`
* client_proto.py : `ResponseHandler.data_received` (payload path) → `dataReceived`;
  `ResponseHandler.connection_lost` → `connectionLost`
* web_request.py : `BaseRequest.read` (and `post()` through it) → `reqRead`
* compression_utils.py : the decompressor (`decompress_sync`, `data_available`, `eof`) is the
  parameter `Codec` — NOT modelled; its laws are `Codec.Lawful` in `AioProps/C09Lemmas.lean`.

Chunk-size-line / trailer syntax reuses the helpers of `AioModel.Http` (same transcription as
`Http.chunkedLoop`, plus the pause protocol that model leaves out).
-/
namespace Aio.C09
open Aio Aio.Http

/-- `sys.maxsize` -/
def maxsize : Nat := 9223372036854775807

/-- A streaming decompressor as `DeflateBuffer` uses it (zlib / brotli / zstd behind
`compression_utils`).  `step st data maxLen` = `decompress_sync(data, max_length=maxLen)`
(`maxLen = 0` = unlimited; `none` = it raised); `avail` = `data_available` after the call;
`atEof` = `decompressor.eof`; `toRaw st` = the decoder `DeflateBuffer` switches to when the first
byte of a `deflate` body is not a zlib header (a fresh raw-deflate decoder for real codecs). -/
structure Codec where
  St : Type
  init : St
  toRaw : St → St
  step : St → Bytes → Nat → Option (St × Bytes)
  avail : St → Bool
  atEof : St → Bool

inductive Err
  | contentEncoding | contentLength | transferEncoding | lineTooLong | badMessage | invalidHeader
  | connClosed      -- RuntimeError("Connection closed.") from StreamReader._wait
  | connReset       -- ConnectionResetError("Connection lost") set by RequestHandler.connection_lost
  | assertion       -- an `assert` / internal RuntimeError of the real code would fire
  | stall           -- model only: the decoder claims data_available but makes no progress (fuel)
  | tooLarge        -- HTTPRequestEntityTooLarge
deriving DecidableEq, Repr

def Err.name : Err → String
  | .contentEncoding => "E_CONTENT_ENCODING" | .contentLength => "E_CONTENT_LENGTH"
  | .transferEncoding => "E_TRANSFER_ENCODING" | .lineTooLong => "E_LINE_TOO_LONG"
  | .badMessage => "E_BAD_MESSAGE" | .invalidHeader => "E_INVALID_HEADER"
  | .connClosed => "E_CONN_CLOSED" | .connReset => "E_CONN_RESET" | .assertion => "E_ASSERT" | .stall => "E_STALL"
  | .tooLarge => "E_TOO_LARGE"

inductive Framing | length | chunked | untilEof
deriving DecidableEq, Repr
inductive CState | size | chunk | chunkEof | trailers
deriving DecidableEq, Repr
/-- what `HttpPayloadParser.feed_data` returned: NEEDS_INPUT / HAS_PENDING_INPUT / COMPLETE / raised -/
inductive Res | needs | pending | complete | failed
deriving DecidableEq, Repr

structure World (c : Codec) where
  -- configuration
  lax : Bool := false
  limit : Nat := 65536
  compressed : Bool := false
  sniff : Bool := false          -- encoding == "deflate": first byte chooses zlib/raw
  checkEof : Bool := false       -- encoding == "deflate": feed_eof insists on decompressor.eof
  maxLine : Nat := 8190
  maxField : Nat := 8190
  maxTrailers : Nat := 128
  /-- behaviour flag (probed from the source on every run, `Gen.C09.needsInputClearsPause`): every
  `return PAYLOAD_NEEDS_INPUT` of `HttpPayloadParser.feed_data` clears `_paused` (the repair of the
  stale-pause finding); `false` = only the mid-chunk return does (the code before the repair) -/
  clearOnNeeds : Bool := false
  /-- behaviour flag (probed, `Gen.C09.waitRechecksException`): `StreamReader._wait()` re-checks
  `_exception` after a normal wake-up (data / eof / chunk end) and raises it; `false` = the code
  before that repair, where a resumed reader never looks at `_exception` again -/
  waitRechecks : Bool := false
  /-- behaviour flag (probed, `Gen.C09.waitChecksExceptionAtEntry`): `StreamReader._wait()` raises a
  recorded `_exception` BEFORE parking; `false` = the code before that repair, where a reader whose
  own read made the parser fail parks on a fresh waiter with the error recorded -/
  waitEntryCheck : Bool := false
  -- transport and protocol
  trPaused : Bool := false       -- transport.pause_reading() in effect
  connected : Bool := true       -- protocol.transport is not None
  readingPaused : Bool := false  -- BaseProtocol._reading_paused
  parserLive : Bool := true      -- protocol._parser is not None
  -- HttpParser
  hasMore : Bool := false        -- _payload_has_more_data
  ppLive : Bool := true          -- _payload_parser is not None
  -- HttpPayloadParser
  framing : Framing := .untilEof
  length : Nat := 0
  paused : Bool := false
  more : Bool := false           -- _more_data_available
  tail : Bytes := []             -- _chunk_tail
  eofPending : Bool := false
  done : Bool := false
  cstate : CState := .size
  chunkSize : Nat := 0
  trailerLines : List Bytes := []
  -- DeflateBuffer
  dst : c.St := c.init
  started : Bool := false
  dsize : Nat := 0
  -- StreamReader
  low : Nat := 65536
  high : Nat := 131072
  highChunks : Nat := 4096
  lowChunks : Nat := 2048
  buf : List Bytes := []         -- the deque; head already trimmed by _buffer_offset
  eof : Bool := false
  exc : Option Err := none
  total : Nat := 0
  cursor : Nat := 0
  splits : Option (List Nat) := none
  -- registers and ghosts
  raised : Option Err := none
  res : Res := .needs
  outb : Bytes := []             -- bytes collected by the read in progress
  upErr : Option Err := none     -- an exception left HttpParser.feed_data (protocol-level error)
  -- ghosts are kept as reversed lists of pieces (O(1) per event); read them with `flat`
  deliveredR : List Bytes := []  -- ghost: everything handed to the consumer
  decodedR : List Bytes := []    -- ghost: everything passed to StreamReader.feed_data
  rawInR : List Bytes := []      -- ghost: everything passed to payload.feed_data
  wireInR : List Bytes := []     -- ghost: everything the transport delivered
  peak : Nat := 0                -- ghost: largest buffered size seen
  -- BaseRequest.read()
  reqStarted : Bool := false
  reqParked : Bool := false      -- the read() coroutine is parked in StreamReader._wait
  waiter : Bool := false         -- StreamReader._waiter is not None
  wakeExc : Option Err := none   -- the parked waiter was failed by set_exception
  reqBody : Bytes := []
  lineAcc : Bytes := []          -- bytes a parked `readuntil()` has collected so far (its local `chunk`)
  lineMax : Nat := 0             -- its `max_size` (`max_size or self._high_water`, fixed at entry)

variable {c : Codec}

/-- concatenation of a reversed piece list -/
def flat (l : List Bytes) : Bytes := l.reverse.flatten
def World.delivered (w : World c) : Bytes := flat w.deliveredR
def World.decoded (w : World c) : Bytes := flat w.decodedR
def World.rawIn (w : World c) : Bytes := flat w.rawInR
def World.wireIn (w : World c) : Bytes := flat w.wireInR

/-- `StreamReader._size` -/
def bsize (buf : List Bytes) : Nat := (buf.map List.length).sum

/-- `World` for a reader created with `limit` (StreamReader.__init__) -/
def World.init (c : Codec) (limit : Nat) (framing : Framing) (length : Nat) (compressed sniff checkEof lax : Bool)
    (maxTrailers : Nat := 128) (clearOnNeeds : Bool := false) (waitRechecks : Bool := false)
    (waitEntryCheck : Bool := false) : World c :=
  { clearOnNeeds := clearOnNeeds, waitRechecks := waitRechecks, waitEntryCheck := waitEntryCheck, limit := limit, framing := framing, length := length, compressed := compressed, sniff := sniff,
    checkEof := checkEof, lax := lax, maxTrailers := maxTrailers,
    low := limit, high := limit * 2, highChunks := max 4 (limit / 16), lowChunks := max 4 (limit / 16) / 2 }

/-- `max_length` that `DeflateBuffer.feed_data` passes to the decompressor -/
def maxLen (w : World c) : Nat := if w.low ≥ maxsize then 0 else max w.limit w.low

/-- `BaseProtocol.pause_reading` (+ `HttpParser.pause_reading`, `HttpPayloadParser.pause_reading`) -/
def pauseReading (w : World c) : World c :=
  let w := { w with readingPaused := true }
  if !w.parserLive || !w.ppLive then { w with raised := some .assertion }
  else { w with paused := true, trPaused := w.trPaused || w.connected }

/-- `set_result(self._waiter, None); self._waiter = None` -/
def wake (w : World c) : World c := { w with waiter := false }

/-- `StreamReader.set_exception(e)`: a registered waiter is failed with `e` -/
def setExc (w : World c) (e : Err) : World c :=
  if w.waiter then { w with exc := some e, waiter := false, wakeExc := some e } else { w with exc := some e }

/-- `StreamReader.feed_data` -/
def rdFeed (w : World c) (data : Bytes) : World c :=
  if w.eof then { w with raised := some .assertion } else
  if data.isEmpty then w else
  let w := wake { w with buf := w.buf ++ [data], total := w.total + data.length, decodedR := data :: w.decodedR }
  let w := { w with peak := max w.peak (bsize w.buf) }
  if bsize w.buf > w.high then pauseReading w else w

/-- the tail of `BaseProtocol.resume_reading`: resume the transport unless paused again -/
def resumeTransport (w : World c) : World c :=
  if !w.readingPaused && w.connected then { w with trPaused := false } else w

/-- `StreamReader.feed_eof` (→ `protocol.resume_reading(resume_parser=False)`) -/
def rdFeedEof (w : World c) : World c :=
  resumeTransport (wake { w with eof := true, readingPaused := false })

/-- `StreamReader.set_read_chunk_size` -/
def setChunk (w : World c) (n : Nat) : World c :=
  if n > w.low then { w with low := n, high := n * 2 } else w

/-- `StreamReader.begin_http_chunk_receiving` -/
def beginChunk (w : World c) : World c :=
  match w.splits with
  | some _ => w
  | none => if w.total != 0 then { w with raised := some .assertion } else { w with splits := some [] }

/-- `StreamReader.end_http_chunk_receiving` -/
def endChunk (w : World c) : World c :=
  match w.splits with
  | none => { w with raised := some .assertion }
  | some sp =>
    let pos := sp.getLast?.getD 0
    if w.total == pos then w else
    let sp := sp ++ [w.total]
    let w := { w with splits := some sp }
    wake (if sp.length > w.highChunks then pauseReading w else w)

/-- `DeflateBuffer.feed_data`: the first non-empty chunk of a `deflate` body chooses zlib / raw -/
def sniffStart (w : World c) (chunk : Bytes) : World c :=
  if !w.started && !chunk.isEmpty then
    { w with started := true,
             dst := if w.sniff && (chunk.headD 0).toNat % 16 != 8 then c.toRaw w.dst else w.dst }
  else w

/-- `DeflateBuffer.feed_data` after the sniff: one capped decompressor call, output to the reader -/
def decodeFeed (w : World c) (chunk : Bytes) : World c :=
  match c.step w.dst chunk (maxLen w) with
  | none => { w with raised := some .contentEncoding }
  | some (st, out) =>
    let w := rdFeed { w with dst := st } out
    { w with more := c.avail st }

/-- `payload.feed_data(chunk)` where payload is the `DeflateBuffer` (compressed) or the
`StreamReader` itself; the return value lands in `more` -/
def payFeed (w : World c) (chunk : Bytes) : World c :=
  let w := { w with rawInR := chunk :: w.rawInR }
  if !w.compressed then { rdFeed w chunk with more := false } else
  decodeFeed (sniffStart { w with dsize := w.dsize + chunk.length } chunk) chunk

/-- `payload.feed_eof()` (`DeflateBuffer.feed_eof`; `flush()` is taken to return `b""`) -/
def payEof (w : World c) : World c :=
  if w.compressed && w.dsize > 0 && w.checkEof && !c.atEof w.dst then { w with raised := some .contentEncoding }
  else rdFeedEof w

/-- `while self._more_data_available: if self._paused: self._paused = False; return PENDING
     self._more_data_available = self.payload.feed_data(b"")` -/
def drain : Nat → World c → World c
  | 0, w => { w with raised := some .stall, res := .failed }
  | fuel + 1, w =>
    if !w.more then { w with res := .needs }
    else if w.paused then { w with paused := false, res := .pending }
    else
      let w := payFeed w []
      if w.raised.isSome then { w with res := .failed } else drain fuel w

/-- iterations the `drain` loop can need before the reader is over its high-water mark -/
def drainFuel (w : World c) : Nat := w.high + 4

def failWith (w : World c) (e : Err) : World c := { w with raised := some e, res := .failed }

/-- `feed_data`, `PARSE_LENGTH` branch -/
def feedLength (w : World c) (chunk : Bytes) : World c :=
  let chunk := w.tail ++ chunk
  let required := w.length
  let w := { w with tail := [], length := required - chunk.length }
  let w := payFeed w (chunk.take required)
  if w.raised.isSome then { w with res := .failed } else
  let w := drain (drainFuel w) w
  match w.res with
  | .pending => { w with tail := chunk.drop required }
  | .failed => w
  | _ =>
    if w.length == 0 then
      let w := payEof w
      if w.raised.isSome then { w with res := .failed }
      else { w with res := .complete }
    else { w with res := .needs }

/-- `feed_data`, `PARSE_UNTIL_EOF` branch -/
def feedUntilEof (w : World c) (chunk : Bytes) : World c :=
  let w := payFeed w chunk
  if w.raised.isSome then { w with res := .failed } else
  let w := drain (drainFuel w) w
  match w.res with
  | .pending => w
  | .failed => w
  | _ =>
    if w.eofPending then
      let w := payEof w
      if w.raised.isSome then { w with res := .failed }
      else { w with done := true, eofPending := false, res := .complete }
    else { w with res := .needs }

def stripLaxCR (lax : Bool) (chunk : Bytes) : Bytes :=
  if lax then (match chunk with | 13 :: t => t | x => x) else chunk

/-- `PARSE_TRAILERS` part of one loop iteration; `k` = the rest of the `while` loop -/
def trailersStep (k : World c → Bytes → World c) (w : World c) (chunk : Bytes) : World c :=
  match findSep w.lax chunk with
  | none =>
    if chunk.any (· == 10) then failWith w .transferEncoding
    else { w with tail := chunk, res := .needs }
  | some pos =>
    let line := chunk.take pos
    let chunk := chunk.drop (pos + sepLen w.lax)
    let line := if w.lax then rstrip (· == 13) line else line
    if line.length > w.maxField then failWith w .lineTooLong else
    let tl := w.trailerLines ++ [line]
    if tl.length > w.maxTrailers then failWith w .badMessage else
    if line.isEmpty then
      match parseHeaders w.lax w.maxField tl with
      | .error e =>
        failWith { w with trailerLines := [] }
          (if e == .invalidHeader then .invalidHeader else if e == .lineTooLong then .lineTooLong else .badMessage)
      | .ok _ =>
        let w := payEof { w with trailerLines := [] }
        if w.raised.isSome then { w with res := .failed }
        else { w with res := .complete, tail := chunk }   -- `tail` here = bytes after the message
    else k { w with trailerLines := tl } chunk

/-- `PARSE_CHUNKED_CHUNK_EOF` part of one loop iteration -/
def chunkEofStep (k : World c → Bytes → World c) (w : World c) (chunk : Bytes) : World c :=
  let unstripped := chunk
  let chunk := stripLaxCR w.lax chunk
  let n := sepLen w.lax
  let sep : Bytes := if w.lax then [10] else [13, 10]
  if chunk.take n == sep then k { w with cstate := .size } (chunk.drop n)
  else if chunk.length ≥ n || chunk != sep.take chunk.length then failWith w .transferEncoding
  else { w with tail := unstripped, res := .needs }

/-- `PARSE_CHUNKED_CHUNK` part of one loop iteration -/
def chunkStep (k : World c → Bytes → World c) (w : World c) (chunk : Bytes) : World c :=
  if w.paused then { w with paused := false, tail := chunk, res := .pending } else
  let required := w.chunkSize
  let w := payFeed { w with chunkSize := required - chunk.length } (chunk.take required)
  if w.raised.isSome then { w with res := .failed } else
  let chunk := chunk.drop required
  if w.more then k w chunk
  else if w.chunkSize != 0 then { w with paused := false, res := .needs }
  else
    let w := endChunk { w with cstate := .chunkEof }
    if w.raised.isSome then { w with res := .failed } else chunkEofStep k w chunk

/-- `PARSE_CHUNKED_SIZE` part of one loop iteration -/
def sizeStep (k : World c → Bytes → World c) (w : World c) (chunk : Bytes) : World c :=
  match findSep w.lax chunk with
  | some pos =>
    if pos > w.maxLine then failWith w .lineTooLong else
    let line := chunk.take pos
    let (sizeB, extBad) :=
      match findByte 59 line with
      | some i => (line.take i, (line.drop i).any (· == 10))
      | none => (line, false)
    if extBad then failWith w .transferEncoding else
    let sizeB := if w.lax then strip isBytesWs sizeB else sizeB
    if sizeB.isEmpty || !sizeB.all isHexB then failWith w .transferEncoding else
    match ofHex sizeB with
    | none => failWith w .transferEncoding
    | some size =>
      let chunk := chunk.drop (pos + sepLen w.lax)
      if size == 0 then
        trailersStep k { w with cstate := .trailers } (stripLaxCR w.lax chunk)
      else
        let w := beginChunk { w with cstate := .chunk, chunkSize := size }
        if w.raised.isSome then { w with res := .failed } else chunkStep k w chunk
  | none =>
    if chunk.any (· == 10) then failWith w .transferEncoding
    else { w with tail := chunk, res := .needs }

/-- the `while chunk or self._more_data_available:` loop of the `PARSE_CHUNKED` branch -/
def chunkedLoop : Nat → World c → Bytes → World c
  | 0, w, _ => failWith w .stall
  | fuel + 1, w, chunk =>
    if chunk.isEmpty && !w.more then { w with res := .needs } else
    match w.cstate with
    | .size => sizeStep (chunkedLoop fuel) w chunk
    | .chunk => chunkStep (chunkedLoop fuel) w chunk
    | .chunkEof => chunkEofStep (chunkedLoop fuel) w chunk
    | .trailers => trailersStep (chunkedLoop fuel) w chunk

/-- the early length check on a buffered partial line (chunked) -/
def tailTooLong (w : World c) : Bool :=
  if w.tail.isEmpty || w.cstate == .chunk then false else
  let maxL := if w.cstate == .trailers then w.maxField else w.maxLine
  let tl :=
    if !w.lax then w.tail.length - (if w.tail.getLast? == some 13 then 1 else 0)
    else if w.cstate == .trailers then (rstrip (· == 13) w.tail).length
    else w.tail.length
  tl > maxL

/-- `HttpPayloadParser.feed_data(chunk)` up to (not including) the `self._paused = False` that the
repaired code executes before every `return PAYLOAD_NEEDS_INPUT` -/
def ppFeedCore (w : World c) (chunk : Bytes) : World c :=
  match w.framing with
  | .length => feedLength w chunk
  | .untilEof => feedUntilEof w chunk
  | .chunked =>
    if tailTooLong w then failWith w .lineTooLong else
    let chunk := w.tail ++ chunk
    chunkedLoop (chunk.length + drainFuel w + 4) { w with tail := [] } chunk

/-- `HttpPayloadParser.feed_data(chunk)`.  With `clearOnNeeds` every NEEDS_INPUT return (size line
incomplete, chunk-EOF incomplete, trailers incomplete, and the final return that serves
PARSE_LENGTH / PARSE_UNTIL_EOF / loop exit at a chunk boundary) clears the pause flag; the
mid-chunk return does so in both versions (inside `chunkStep`).  Nothing else happens between
those assignments and the return, so clearing once here is the same function. -/
def ppFeed (w : World c) (chunk : Bytes) : World c :=
  let w := ppFeedCore w chunk
  if w.res == .needs && w.clearOnNeeds then { w with paused := false } else w

/-- the payload branch of `HttpParser.feed_data(data)` (one message body; bytes after the end of
the message are dropped from the model's view) -/
def parserFeed (w : World c) (data : Bytes) : World c :=
  if !w.ppLive then w else
  if data.isEmpty && !w.hasMore then w else
  let w := ppFeed { w with raised := none, res := .needs } data
  match w.res with
  | .needs => { w with hasMore := false }
  | .pending => { w with hasMore := true }
  | .complete => { w with hasMore := false, ppLive := false, tail := [] }
  | .failed =>
    let e := w.raised.getD .assertion
    -- `set_exception(payload, …)`; InvalidHeader / TransferEncodingError are re-raised BEFORE
    -- `_payload_has_more_data` and `_payload_parser` are touched
    if e == .transferEncoding || e == .invalidHeader then
      { setExc w e with raised := none, upErr := some e }
    else
      { setExc w e with hasMore := false, ppLive := false, raised := none }

/-- `protocol.data_received(data)` (payload path) -/
def dataReceived (w : World c) (data : Bytes) : World c :=
  if !w.parserLive then w else parserFeed w data

/-- `BaseProtocol.resume_reading()` -/
def resumeReading (w : World c) : World c :=
  resumeTransport (dataReceived { w with readingPaused := false } [])

/-- `StreamReader._read_nowait_chunk(n)` (`none` = -1); the bytes go to `outb` and `delivered` -/
def readChunk (w : World c) (n : Option Nat) : World c :=
  match w.buf with
  | [] => { w with raised := some .assertion }
  | first :: restb =>
    let (data, buf') :=
      match n with
      | some k => if first.length > k then (first.take k, first.drop k :: restb) else (first, restb)
      | none => (first, restb)
    let cursor := w.cursor + data.length
    let w := { w with buf := buf', cursor := cursor, outb := w.outb ++ data, deliveredR := data :: w.deliveredR,
                      splits := w.splits.map (fun sp => sp.dropWhile (· < cursor)) }
    if bsize w.buf < w.low && (match w.splits with | none => true | some sp => sp.length < w.lowChunks)
    then resumeReading w else w

/-- `_read_nowait(-1)`: pop the `count` buffers present at the start -/
def readAllChunks : Nat → World c → World c
  | 0, w => w
  | k + 1, w => readAllChunks k (readChunk w none)

/-- `_read_nowait(n)`, n > 0 -/
def readUpTo : Nat → Nat → World c → World c
  | 0, _, w => w
  | fuel + 1, n, w =>
    if w.buf.isEmpty then w else
    let before := w.outb.length
    let w := readChunk w (some n)
    let n := n - (w.outb.length - before)
    if n == 0 then w else readUpTo fuel n w

inductive Out
  | none | skipped | blocked
  | data (bs : Bytes)
  | err (e : Err)
deriving Repr, DecidableEq

/-- `await payload.read(n)` (`some n`, n > 0) / `await payload.readany()` (`none`), one
non-blocking attempt: `blocked` = the coroutine parks in `_wait` -/
def readOp (w : World c) (n : Option Nat) : World c × Out :=
  match w.exc with
  | some e => (w, .err e)
  | none =>
    let w := match n with | some k => setChunk w k | none => w
    if w.buf.isEmpty && !w.eof then (w, if w.connected then .blocked else .err .connClosed) else
    let w := { w with outb := [] }
    let w :=
      match n with
      | some k => readUpTo k k w
      | none => readAllChunks w.buf.length w
    (w, .data w.outb)

/-- `HttpPayloadParser.feed_eof()` -/
def ppFeedEof (w : World c) : World c :=
  match w.framing with
  | .chunked => failWith w .transferEncoding
  | .length =>
    if w.length != 0 then failWith w .contentLength else
    let w := drain (drainFuel w) w
    match w.res with
    | .pending => w
    | .failed => w
    | _ =>
      let w := payEof w
      if w.raised.isSome then { w with res := .failed } else { w with done := true }
  | .untilEof =>
    let w := drain (drainFuel w) { w with eofPending := true }
    match w.res with
    | .pending => w
    | .failed => w
    | _ =>
      let w := payEof w
      if w.raised.isSome then { w with res := .failed } else { w with done := true, eofPending := false }

/-- `ResponseHandler.connection_lost(None)` -/
def connectionLost (w : World c) : World c :=
  let w :=
    if w.parserLive && w.ppLive then
      let w := ppFeedEof { w with raised := none, res := .needs }
      match w.raised with
      | some e => { setExc w e with raised := none }
      | none => if w.done then { w with ppLive := false } else w
    else w
  { w with parserLive := false, readingPaused := false, connected := false }

/-- the loop of `BaseRequest.read()`; `cms` = client_max_size.  Result register: `Out.data body`
when it returns, `Out.err .tooLarge` for 413, `blocked` while the coroutine is parked. -/
def reqLoop (cms : Nat) : Nat → World c → World c × Out
  | 0, w => (w, .err .stall)
  | fuel + 1, w =>
    -- `readany()` checks `_exception` on entry only; a coroutine resumed from `_wait` does not
    if !w.reqParked && w.exc.isSome then (w, .err (w.exc.getD .assertion))
    else if w.buf.isEmpty && !w.eof then
      -- `await self._wait()`: (repaired) a recorded exception is raised first; RuntimeError when the
      -- connection is gone; else park on a new waiter
      if w.waitEntryCheck && w.exc.isSome then ({ w with reqParked := false }, .err (w.exc.getD .assertion))
      else if w.connected then ({ w with reqParked := true, waiter := true, wakeExc := none }, .blocked)
      else ({ w with reqParked := false }, .err .connClosed)
    else
      let w := { w with reqParked := false, outb := [] }
      let w := readAllChunks w.buf.length w
      let chunk := w.outb
      let w := { w with reqBody := w.reqBody ++ chunk }
      if cms != 0 && w.reqBody.length > cms then (w, .err .tooLarge)
      else if chunk.isEmpty then (w, .data w.reqBody)
      else reqLoop cms fuel w

def reqRead (w : World c) (cms : Nat) : World c × Out :=
  let w := if w.reqStarted then w else
    { (if cms != 0 then setChunk w cms else w) with reqStarted := true }
  if w.reqParked && w.waiter then (w, .blocked)            -- the waiter is not done yet
  else
    match (if w.reqParked then w.wakeExc else none) with
    | some e => ({ w with reqParked := false, wakeExc := none }, .err e)   -- woken by set_exception
    | none =>
      -- resumed from `_wait()` by a normal wake-up: the repaired `_wait` raises a recorded exception
      -- here; the code before the repair goes on (reads what is buffered, or parks again)
      if w.reqParked && w.waitRechecks && w.exc.isSome then
        ({ w with reqParked := false }, .err (w.exc.getD .assertion))
      else reqLoop cms 1099511627776 w

/-! ## a consumer coroutine that stays parked: `read(n)` / `readany()` / `readline()`

Unlike `readOp` (one attempt; a blocked coroutine is thrown away and re-issued), these keep the
coroutine parked in `StreamReader._wait()` and resume it when its waiter is done — the only way
to see what a reader does right after a wake-up (chunk end without data, exception set while
parked, partial line collected so far). -/

/-- what a parked coroutine finds when it is resumed: still waiting / its waiter was failed /
(repaired `_wait`) an exception recorded since.  `none` = go on. -/
def resumeGate (w : World c) : Option (World c × Out) :=
  if w.reqParked && w.waiter then some (w, .blocked)
  else
    match (if w.reqParked then w.wakeExc else none) with
    | some e => some ({ w with reqParked := false, wakeExc := none, lineAcc := [] }, .err e)
    | none =>
      if w.reqParked && w.waitRechecks && w.exc.isSome then
        some ({ w with reqParked := false, lineAcc := [] }, .err (w.exc.getD .assertion))
      else if !w.reqParked && w.exc.isSome then some (w, .err (w.exc.getD .assertion))   -- entry check of a new call
      else none

/-- `await self._wait()`: RuntimeError when the connection is gone, else park on a new waiter -/
def parkOrFail (w : World c) : World c × Out :=
  -- repaired `_wait`: `if self._exception is not None: raise self._exception` comes first
  if w.waitEntryCheck && w.exc.isSome then ({ w with reqParked := false, lineAcc := [] }, .err (w.exc.getD .assertion))
  else if w.connected then ({ w with reqParked := true, waiter := true, wakeExc := none }, .blocked)
  else ({ w with reqParked := false, lineAcc := [] }, .err .connClosed)

/-- `await payload.read(n)` (`some n`, n > 0) / `await payload.readany()` (`none`), coroutine kept:
`while not self._buffer and not self._eof: await self._wait()` then `_read_nowait` -/
def parkedRead (w : World c) (n : Option Nat) : World c × Out :=
  match resumeGate w with
  | some r => r
  | none =>
    let w := match n with | some k => setChunk w k | none => w
    if w.buf.isEmpty && !w.eof then parkOrFail w else
    let w := { w with reqParked := false, outb := [] }
    let w :=
      match n with
      | some k => readUpTo k k w
      | none => readAllChunks w.buf.length w
    (w, .data w.outb)

inductive LineRes | found | more | tooLong
deriving DecidableEq, Repr

/-- is the separator in the first buffer? (`self._buffer[0].find(separator, offset) + 1`) -/
def lineFound (w : World c) : Bool :=
  match w.buf with
  | first :: _ => (findByte 10 first).isSome
  | [] => false

/-- one turn of the inner loop: take from the first buffer up to and including the separator (or
all of it) and add it to the line -/
def lineTake (w : World c) : World c :=
  let n := match w.buf with
    | first :: _ => (findByte 10 first).map (· + 1)
    | [] => none
  let w := readChunk { w with outb := [] } n
  { w with lineAcc := w.lineAcc ++ w.outb }

/-- `while self._buffer and not_enough:` of `readuntil(b"\\n")`: take a buffer, then raise
`LineTooLong` as soon as the line is longer than `max_size` — checked after EVERY buffer taken,
which is what bounds the memory of one `readline()` when taking a buffer refills the reader
re-entrantly. -/
def lineInner : Nat → Nat → World c → World c × LineRes
  | 0, _, w => (w, .more)
  | fuel + 1, maxSize, w =>
    if w.buf.isEmpty then (w, .more) else
    let found := lineFound w
    let w := lineTake w
    if w.lineAcc.length > maxSize then (w, .tooLong)
    else if found then (w, .found)
    else lineInner fuel maxSize w

/-- entry of `readuntil`: `chunk = b""`, `max_size = max_size or self._high_water` (a resumed
coroutine keeps what it had) -/
def lineStart (w : World c) : World c :=
  if w.reqParked then w else { w with lineMax := w.high, lineAcc := [] }

/-- what `readuntil` does once the inner loop stops: raise, return the line, return what is left
at EOF, or wait for more -/
def lineFinish (r : World c × LineRes) : World c × Out :=
  let w := r.1
  match r.2 with
  | .tooLong => ({ w with reqParked := false, lineAcc := [] }, .err .lineTooLong)
  | .found => ({ w with reqParked := false, lineAcc := [] }, .data w.lineAcc)
  | .more =>
    if w.eof then ({ w with reqParked := false, lineAcc := [] }, .data w.lineAcc)
    else parkOrFail w

/-- `await payload.readline()` (= `readuntil(b"\\n")`), coroutine kept -/
def parkedLine (w : World c) : World c × Out :=
  match resumeGate w with
  | some r => r
  | none =>
    let w := lineStart w
    lineFinish (lineInner (w.lineMax + 2) w.lineMax w)

/-- `RequestHandler.connection_lost(exc)` (server side): no `feed_eof`; the payload of the
request being handled gets `exc`, or `ConnectionResetError("Connection lost")` for a clean close -/
def connectionLostServer (w : World c) : World c :=
  { setExc w .connReset with parserLive := false, connected := false }

inductive Op
  | deliver (seg : Bytes)
  | close
  | read (n : Nat)
  | readAny
  | setChunk (n : Nat)
  | reqRead (cms : Nat)
  | pread (n : Nat)
  | preadAny
  | preadLine
  | closeServer
deriving Repr

def step (w : World c) : Op → World c × Out
  | .deliver seg =>
    if w.trPaused || !w.connected then (w, .skipped)
    else (dataReceived { w with wireInR := seg :: w.wireInR } seg, .none)
  | .close => if !w.connected then (w, .skipped) else (connectionLost w, .none)
  | .setChunk n => (setChunk w n, .none)
  | .read n =>
    match w.exc with
    | some e => (w, .err e)
    | none => if n == 0 then (w, .data []) else readOp w (some n)
  | .readAny => readOp w none
  | .reqRead cms => reqRead w cms
  | .pread n => parkedRead w (some n)
  | .preadAny => parkedRead w none
  | .preadLine => parkedLine w
  | .closeServer => if !w.connected then (w, .skipped) else (connectionLostServer w, .none)

def run (w : World c) (ops : List Op) : World c := ops.foldl (fun w op => (step w op).1) w

/-- run, collecting outputs -/
def runOuts (w : World c) : List Op → List (World c × Out)
  | [] => []
  | op :: ops => let r := step w op; r :: runOuts r.1 ops

/-! ## codecs -/

/-- identity "codec" (never used by the pipeline when `compressed = false`; handy for examples) -/
def Codec.ident : Codec where
  St := Unit
  init := ()
  toRaw := fun _ => ()
  step := fun _ i _ => some ((), i)
  avail := fun _ => false
  atEof := fun _ => true

/-- Toy expansion codec, a genuine "bomb" shape: input byte `b ≠ 0` decodes to `b` copies of
`b`; byte 0 is a corrupt stream.  State = decoded bytes not yet handed out. -/
def expandByte (b : UInt8) : Bytes := List.replicate b.toNat b
def expandAll (i : Bytes) : Bytes := i.flatMap expandByte

def expandStep (pend i : Bytes) (m : Nat) : Option (Bytes × Bytes) :=
  if i.any (· == 0) then none else
  let all := pend ++ expandAll i
  if m == 0 then some ([], all) else some (all.drop m, all.take m)

@[reducible] def Codec.expand : Codec where
  St := Bytes
  init := []
  toRaw := fun _ => []
  step := expandStep
  avail := fun pend => !pend.isEmpty
  atEof := fun pend => pend.isEmpty

/-- Scripted codec for the correspondence run: replays what the real decompressor returned,
call by call (`input`, `max_length` as recorded; `output` or raise; `data_available`; `eof`).
A call that does not match the recording is a desynchronisation and raises. -/
structure Call where
  input : Bytes
  maxLen : Nat
  out : Option Bytes
  avail : Bool
  atEof : Bool

structure ScriptSt where
  todo : List Call
  avail : Bool := false
  atEof : Bool := false
  desync : Bool := false

def Codec.scripted (script : List Call) : Codec where
  St := ScriptSt
  init := { todo := script }
  toRaw := fun s => s
  step := fun s i m =>
    match s.todo with
    | [] => none
    | k :: rest =>
      if k.input != i || k.maxLen != m then some ({ s with todo := [], desync := true }, []) else
      match k.out with
      | none => none
      | some o => some ({ todo := rest, avail := k.avail, atEof := k.atEof }, o)
  avail := fun s => s.avail
  atEof := fun s => s.atEof

end Aio.C09
