import AioModel.Basic
import AioModel.Generated.C15
/-!
# C15 model, part 2 — confinement of `StaticResource` (aiohttp/web_urldispatcher.py)

* `normpath`          = `posixpath.normpath` (what `os.path.normpath` is when `IS_WINDOWS` is false)
* `unquotePathSafe`   = `_unquote_path_safe`
* `route`             = `StaticResource.resolve` (normalise, prefix test, `filename` = slice of the
                        *un-normalised* path, unquoted)
* `indexed`           = the `UrlDispatcher.resolve` walk that decides whether the resource is asked at all
* `Fs`, `Node`        = the abstract file system: `lstat` of an absolute path given as its list of names
* `walk`, `follow`    = `posixpath._joinrealpath` (non-strict, Python 3.12) / the kernel's path resolution;
                        fuel bounds the number of symlink expansions
* `realpath`          = `Path.resolve()`: on a symlink loop the *partially resolved*, normalised path is
                        returned unless it still runs into the loop (`RuntimeError`); embedded NUL = `ValueError`
* `statF`, `osLstat`  = `Path.stat()` (follows symlinks), `Path.lstat()` (follows them in the directory part)
* `pathSegs`          = pathlib's parsing of the joined path (`//` and `.` dropped, `..` kept)
* `lexNorm`           = `os.path.normpath` of an absolute pathlib path
* `resolvePathG`      = `StaticResource._handle` + `_resolve_path_to_response` (parameter: is the
                        resolve-fixpoint check of the F21 repair present in the source)
* `fileTarget`        = `FileResponse._get_file_path_stat_encoding` (pre-compressed sibling by `lstat`,
                        then `stat` of the file itself, regular-file test)
* `serve`             = what a GET on the static route finally answers with
-/
namespace Aio.C15
open Aio

/-! ## strings -/

def SLASH : Nat := 47

/-- split at every `/` (`str.split("/")`): always at least one piece -/
def splitSlash : Str → List Str
  | [] => [[]]
  | c :: t =>
    if c = SLASH then [] :: splitSlash t
    else match splitSlash t with
      | [] => [[c]]
      | h :: r => (c :: h) :: r

def DOT : Str := [46]
def DOTDOT : Str := [46, 46]

/-- `"/".join(segs)` -/
def joinSlash : List Str → Str
  | [] => []
  | [a] => a
  | a :: t => a ++ SLASH :: joinSlash t

/-- the component stack of `posixpath.normpath` -/
def normStep (abs : Bool) (st : List Str) (c : Str) : List Str :=
  if c = [] ∨ c = DOT then st
  else if c ≠ DOTDOT ∨ (!abs && st = []) ∨ (st ≠ [] ∧ st.getLast? = some DOTDOT) then st ++ [c]
  else st.dropLast

/-- `posixpath.normpath(path)` -/
def normpath (path : Str) : Str :=
  if path = [] then DOT else
  let slashes : Nat :=
    if path.head? = some SLASH then
      (if path.take 2 = [SLASH, SLASH] ∧ path.take 3 ≠ [SLASH, SLASH, SLASH] then 2 else 1)
    else 0
  let comps := (splitSlash path).foldl (normStep (slashes != 0)) []
  let r := List.replicate slashes SLASH ++ joinSlash comps
  if r = [] then DOT else r

/-- `s.replace(pat, rep)` for a non-empty `pat` -/
def replaceAll (pat rep : Str) : Nat → Str → Str
  | 0, s => s
  | _, [] => []
  | fuel + 1, c :: t =>
    if isPrefix pat (c :: t) then rep ++ replaceAll pat rep fuel ((c :: t).drop pat.length)
    else c :: replaceAll pat rep fuel t

/-- `_unquote_path_safe` -/
def unquotePathSafe (v : Str) : Str :=
  if !v.contains 37 then v
  else
    let a := replaceAll [37, 50, 70] [SLASH] (v.length + 1) v
    replaceAll [37, 50, 53] [37] (a.length + 1) a

/-- `StaticResource.resolve`: `none` = "not mine"; `some filename` = matched (method GET/HEAD) -/
def route (pfx : Str) (pathSafe : Str) : Option Str :=
  let np := normpath pathSafe
  if !(isPrefix (pfx ++ [SLASH]) np) && np != pfx then none
  else some (unquotePathSafe (pathSafe.drop (pfx.length + 1)))

/-- does the walk in `UrlDispatcher.resolve` (`url_part = path; … rpartition("/")[0] or "/"`)
ever look up `key`?  (`key` = the resource's index key, `prefix.rstrip("/") or "/"`) -/
def indexed (key : Str) : Nat → Str → Bool
  | 0, _ => false
  | fuel + 1, part =>
    if part = [] then false
    else if part = key then true
    else if part = [SLASH] then false
    else
      -- rpartition("/")[0]: everything before the last slash ("" when there is none)
      let pieces := splitSlash part
      let head := joinSlash pieces.dropLast
      indexed key fuel (if pieces.length ≤ 1 then [SLASH] else if head = [] then [SLASH] else head)

/-! ## abstract file system -/

/-- an absolute path: the names below `/` -/
abbrev Path := List Str

inductive Node where
  | missing                 -- lstat raises OSError (ENOENT, ENOTDIR, …)
  | dir
  | file (id : Nat)         -- regular file; `id` identifies its content
  | link (target : Str)     -- symbolic link with this target string
  | other                   -- FIFO, socket, device
deriving Repr, DecidableEq

structure Fs where
  lstat : Path → Node

def hasNul (s : Str) : Bool := s.contains 0

inductive RErr where
  | loop      -- symlink loop: RuntimeError from Path.resolve (py < 3.13)
  | nul       -- ValueError: embedded null byte
deriving Repr, DecidableEq

/-- work list of `_joinrealpath`: a name still to process, or the end of a link's expansion -/
inductive Item where
  | name (s : Str)
  | pop
deriving Repr, DecidableEq

def itemNames : List Item → List Str
  | [] => []
  | .name s :: t => s :: itemNames t
  | .pop :: t => itemNames t

inductive WalkRes where
  | ok (p : Path)
  | loop (partialPath : Path)   -- `(join(newpath, rest), False)`: the link met again while being expanded
  | nul                         -- ValueError from `os.lstat`
  | fuel                        -- more link expansions than any finite tree needs
deriving Repr, DecidableEq

/-- `posixpath._joinrealpath` (non-strict, Python 3.12): `cur` is the resolved prefix, `rest` the
work list; a link's target is spliced in front of the remaining names; `act` are the links being
expanded (`seen[newpath] is None`).  Meeting one of them again is a loop: the path so far plus
all unprocessed names is returned *unresolved*. -/
def walk (fs : Fs) : Nat → List Path → Path → List Item → WalkRes
  | _, _, cur, [] => .ok cur
  | fuel, act, cur, .pop :: rest => walk fs fuel act.tail cur rest
  | fuel, act, cur, .name n :: rest =>
    if n = [] ∨ n = DOT then walk fs fuel act cur rest
    else if n = DOTDOT then walk fs fuel act cur.dropLast rest
    else if hasNul n then .nul
    else match fs.lstat (cur ++ [n]) with
      | .link target =>
        if act.contains (cur ++ [n]) then .loop (cur ++ [n] ++ itemNames rest)
        else match fuel with
          | 0 => .fuel
          | fuel + 1 =>
            walk fs fuel ((cur ++ [n]) :: act) (if target.head? = some SLASH then [] else cur)
              ((splitSlash target).map .name ++ .pop :: rest)
      | _ => walk fs fuel act (cur ++ [n]) rest
termination_by fuel _ _ rest => (fuel, rest.length)

/-- `os.path.normpath` of an absolute pathlib path given as names -/
def lexNorm (p : Path) : Path :=
  p.foldl (fun st c => if c = DOTDOT then st.dropLast else if c = [] ∨ c = DOT then st else st ++ [c]) []

/-- the kernel's path resolution (`os.stat`): the real location, or an error -/
def follow (fs : Fs) (fuel : Nat) (p : Path) : WalkRes := walk fs fuel [] [] (p.map .name)

/-- `Path(p).resolve()` (non-strict) in Python 3.12: `os.path.realpath`, which on a symlink loop
returns the *partially resolved* path, normalised by `abspath`; then `p.stat()` turns a remaining
loop into `RuntimeError`.  If normalisation removed the looping link the result is a path whose
components are not resolved. -/
def realpath (fs : Fs) (fuel : Nat) (p : Path) : Except RErr Path :=
  match follow fs fuel p with
  | .ok q => .ok q
  | .nul => .error .nul
  | .fuel => .error .loop
  | .loop partialPath =>
    match follow fs fuel (lexNorm partialPath) with
    | .ok _ => .ok (lexNorm partialPath)
    | .nul => .error .nul
    | _ => .error .loop

/-- `Path(p).stat()`: follow links, then look; `missing` for every OSError -/
def statF (fs : Fs) (fuel : Nat) (p : Path) : Node :=
  match follow fs fuel p with
  | .ok q => (match fs.lstat q with | .link _ => .missing | n => n)
  | _ => .missing

/-- `Path(p).lstat()`: the kernel follows links in the directory part only -/
def osLstat (fs : Fs) (fuel : Nat) (p : Path) : Node :=
  match p.getLast? with
  | none => fs.lstat []
  | some n =>
    match follow fs fuel p.dropLast with
    | .ok d => if n = [] ∨ n = DOT ∨ n = DOTDOT then .dir else fs.lstat (d ++ [n])
    | _ => .missing

/-- pathlib's parse of the relative part: split at `/`, drop `""` and `"."` -/
def pathSegs (s : Str) : List Str := (splitSlash s).filter (fun c => c != [] && c != DOT)

/-! ## `_handle`, `_resolve_path_to_response`, `FileResponse` -/

structure Cfg where
  root : Path            -- `self._directory` (already resolved)
  follow : Bool          -- `_break_symlink_sandbox`
  showIndex : Bool
deriving Repr

inductive Out where
  | notFound
  | forbidden
  | serverError            -- an exception nobody handles (500)
  | listing (dir : Path)
  | file (real : Path) (id : Nat) (enc : Option Str)
deriving Repr, DecidableEq

/-- `file_path.resolve() != file_path` is false (no exception, same path) -/
def isFixpoint (fs : Fs) (fuel : Nat) (p : Path) : Bool :=
  match realpath fs fuel p with
  | .ok p2 => p2 == p
  | .error _ => false

/-- outcome of `_handle` up to the choice of response object:
`.inl out` = answered already, `.inr p` = `FileResponse(p)`.
`fix` = the source contains the check `if file_path.resolve() != file_path: raise ValueError`
in the non-follow branch (added to repair finding F21; probed from the source on every run). -/
def resolvePathG (fix : Bool) (fs : Fs) (fuel : Nat) (cfg : Cfg) (filename : Str) : Out ⊕ Path :=
  if filename.head? = some SLASH then .inl .notFound            -- Path(filename).is_absolute()
  else
    let unresolved := cfg.root ++ pathSegs filename              -- self._directory.joinpath(filename)
    let checked : Option Path :=
      if cfg.follow then
        let n := lexNorm unresolved
        if cfg.root.isPrefixOf n then (match realpath fs fuel n with | .ok p => some p | .error _ => none)
        else none
      else
        match realpath fs fuel unresolved with
        | .ok p =>
          if fix && !isFixpoint fs fuel p then none
          else if cfg.root.isPrefixOf p then some p else none
        | .error _ => none
    match checked with
    | none => .inl .notFound
    | some p =>
      if statF fs fuel p = .dir then
        (if cfg.showIndex then
           -- `_directory_as_html`: `dir_path.relative_to(self._directory)` raises ValueError
           -- for a directory reached through a link that leaves the root
           (if cfg.root.isPrefixOf p then .inl (.listing p) else .inl .serverError)
         else .inl .forbidden)
      else .inr p

/-- ASCII lower-casing (`str.lower()` on the ASCII header values the harness sends) -/
def asciiLower (s : Str) : Str := s.map (fun c => if 65 ≤ c ∧ c ≤ 90 then c + 32 else c)

/-- `file_path.with_suffix(file_path.suffix + ext)`: the last name with `ext` appended -/
def withExt (p : Path) (ext : Str) : Path :=
  match p.getLast? with
  | some n => p.dropLast ++ [n ++ ext]
  | none => p

/-- the first pre-compressed sibling that the client accepts and that `lstat` says is regular -/
def sibling (fs : Fs) (fuel : Nat) (p : Path) (acceptEnc : Str) : List (Str × Str) → Option (Path × Nat × Str)
  | [] => none
  | (ext, coding) :: t =>
    if (findSub coding acceptEnc 0).isSome then
      match osLstat fs fuel (withExt p ext), follow fs fuel p.dropLast with
      | .file id, .ok d => some (withExt (d ++ [p.getLast?.getD []]) ext, id, coding)
      | _, _ => sibling fs fuel p acceptEnc t
    else sibling fs fuel p acceptEnc t

/-- `FileResponse._get_file_path_stat_encoding` + the status mapping in `FileResponse.prepare`;
`acceptEnc` is the lower-cased Accept-Encoding value ("" when absent) -/
def fileTarget (fs : Fs) (fuel : Nat) (p : Path) (acceptEnc : Str) : Out :=
  match sibling fs fuel p acceptEnc Gen.C15.encodingExtensions with
  | some (q, id, coding) => .file q id (some coding)
  | none =>
    match follow fs fuel p with
    | .ok q =>
      (match fs.lstat q with
       | .file id => .file q id none       -- `q` is where the bytes really live
       | .missing => .notFound
       | .link _ => .notFound
       | _ => .forbidden)
    | _ => .notFound

/-- GET `filename` on the static route -/
def serveG (fix : Bool) (fs : Fs) (fuel : Nat) (cfg : Cfg) (filename : Str) (acceptEnc : Str) : Out :=
  match resolvePathG fix fs fuel cfg filename with
  | .inl o => o
  | .inr p => fileTarget fs fuel p (asciiLower acceptEnc)

/-- the route as the source is *now* (the flag is regenerated from the source) -/
def serve (fs : Fs) (fuel : Nat) (cfg : Cfg) (filename : Str) (acceptEnc : Str) : Out :=
  serveG Gen.C15.resolveFixpointCheck fs fuel cfg filename acceptEnc

/-! ## a file system given by a table (driver input, and the toy instance of the theorems) -/

def tableFs (t : List (Path × Node)) : Fs :=
  { lstat := fun p => match t.find? (fun e => e.1 == p) with
      | some e => e.2
      | none => .missing }

end Aio.C15
