/-!
# AioModel.Basic — shared vocabulary of the executable models

Import-free (core Lean only) so that everything under `AioModel/` links into the
native driver.  `Bytes = List UInt8`; Python `str` values are `List Nat` code points.
-/
namespace Aio

abbrev Bytes := List UInt8
/-- a Python `str`: list of Unicode code points (surrogates allowed, as in Python) -/
abbrev Str := List Nat

def CR : UInt8 := 13
def LF : UInt8 := 10
def SP : UInt8 := 32
def HT : UInt8 := 9
def CRLF : Bytes := [13, 10]

/-- ASCII bytes of a Lean string literal (used for constants only) -/
def ascii (s : String) : Bytes := s.toList.map (fun c => c.toNat.toUInt8)

/-! ## hex digits (shared by the chunked writer, the chunk-size parser and the driver) -/

def hexDigit (d : Nat) : UInt8 := if d < 10 then (48 + d).toUInt8 else (87 + d).toUInt8

def hexVal (c : UInt8) : Option Nat :=
  if 48 ≤ c.toNat ∧ c.toNat ≤ 57 then some (c.toNat - 48)
  else if 97 ≤ c.toNat ∧ c.toNat ≤ 102 then some (c.toNat - 87)
  else if 65 ≤ c.toNat ∧ c.toNat ≤ 70 then some (c.toNat - 55)
  else none

/-- `f"{n:x}"`: lower-case hex digits, most significant first, `"0"` for zero -/
def toHex (n : Nat) : Bytes :=
  if _h : n < 16 then [hexDigit n] else toHex (n / 16) ++ [hexDigit (n % 16)]
termination_by n
decreasing_by omega

def hexStep (acc : Option Nat) (c : UInt8) : Option Nat :=
  match acc, hexVal c with
  | some a, some v => some (a * 16 + v)
  | _, _ => none

def ofHexFrom (acc : Option Nat) (bs : Bytes) : Option Nat := bs.foldl hexStep acc
/-- `int(bs, 16)` restricted to `HEXDIGITS.fullmatch` (non-empty, hex digits only) -/
def ofHex (bs : Bytes) : Option Nat := if bs.isEmpty then none else ofHexFrom (some 0) bs

/-! ## decimal -/
def isDigit (c : UInt8) : Bool := 48 ≤ c.toNat && c.toNat ≤ 57
def ofDec (bs : Bytes) : Option Nat :=
  if bs.isEmpty then none
  else bs.foldl (fun acc c => match acc with
    | some a => if isDigit c then some (a * 10 + (c.toNat - 48)) else none
    | none => none) (some 0)

def toDecAux : Nat → Nat → Bytes → Bytes
  | 0, _, acc => acc
  | fuel+1, n, acc =>
    let acc := (48 + n % 10).toUInt8 :: acc
    if n / 10 = 0 then acc else toDecAux fuel (n / 10) acc
/-- `str(n).encode()` -/
def toDec (n : Nat) : Bytes := toDecAux (n + 1) n []

/-! ## list helpers -/

/-- is `p` a prefix of `l` -/
def isPrefix [BEq α] : List α → List α → Bool
  | [], _ => true
  | _ :: _, [] => false
  | a :: p, b :: l => a == b && isPrefix p l

/-- index of the first occurrence of `pat` in `l` (like `bytes.find`), `none` if absent -/
def findSub [BEq α] (pat : List α) : List α → Nat → Option Nat
  | [], i => if pat.isEmpty then some i else none
  | l@(_ :: t), i => if isPrefix pat l then some i else findSub pat t (i + 1)

/-- split at every occurrence of `sep` (like `bytes.split(sep)` with non-empty `sep`) -/
def splitOn [BEq α] (sep : List α) (l : List α) : List (List α) :=
  go l [] l.length
where
  go (l : List α) (cur : List α) : Nat → List (List α)
    | 0 => [cur.reverse ++ l]
    | fuel + 1 =>
      match l with
      | [] => [cur.reverse]
      | a :: t =>
        if !sep.isEmpty && isPrefix sep l then cur.reverse :: go (l.drop sep.length) [] fuel
        else go t (a :: cur) fuel

/-- count (possibly overlapping) occurrences of `pat` in `l` -/
def countSub [BEq α] (pat : List α) : List α → Nat
  | [] => 0
  | l@(_ :: t) => (if isPrefix pat l then 1 else 0) + countSub pat t

end Aio
