import AioModel.Basic
import AioModel.C12
import AioModel.Generated.C11
/-!
# C11 model — `aiohttp/_websocket/writer.py` (sequential part)

* `frameHeader`, `writeFrame` = `WebSocketWriter._write_websocket_frame`
  (`PACK_LEN1/2/3`, mask bit, `PACK_RANDBITS` mask, `websocket_mask`, `_output_size`).
* `route` = the three-way branch of `send_frame` (plain / sync-compressed / executor-compressed)
  together with `_get_compressor` (shared `_compressobj` vs. a fresh per-message compressor).
* `sendFrameZ` = `send_frame` with the compressor's output supplied by the caller (oracle column
  of the driver); `sendFrame` = the same with a `Deflater` parameter; `close` = `close()`.
* `stripTrailing` = `.removesuffix(WS_DEFLATE_TRAILING)`.

The reader side is C12's model (`Aio.C12.feed`).  zlib is not modelled: `Deflater` is a
parameter.  Only the concatenation of `transport.write` calls is modelled.  The scheduling of
concurrent senders is `AioModel/C11Conc.lean`.
-/
namespace Aio.C11
open Aio

structure WCfg where
  useMask : Bool
  compress : Nat        -- negotiated window bits (0 = no compression)
  notakeover : Bool
  limit : Nat           -- `_limit` (drain threshold)
deriving Repr

/-- `k` bytes, big-endian (`struct.pack("!H"/"!Q"/"!L")`) -/
def beBytes : Nat → Nat → Bytes
  | 0, _ => []
  | k + 1, n => beBytes k (n / 256) ++ [(n % 256).toUInt8]

/-- header bytes for a first byte, mask bit (0 or 0x80) and payload length -/
def frameHeader (firstByte maskBit len : Nat) : Bytes :=
  if len < 126 then [firstByte.toUInt8, (len ||| maskBit).toUInt8]
  else if len < 65536 then [firstByte.toUInt8, (126 ||| maskBit).toUInt8] ++ beBytes 2 len
  else [firstByte.toUInt8, (127 ||| maskBit).toUInt8] ++ beBytes 8 len

/-- `bs.removesuffix(b"\x00\x00\xff\xff")` -/
def stripTrailing (bs : Bytes) : Bytes :=
  if bs.length ≥ 4 ∧ bs.drop (bs.length - 4) = [0, 0, 255, 255] then bs.take (bs.length - 4) else bs

inductive WErr where
  | reset       -- ClientConnectionResetError
  | pack        -- struct.error (first byte or length does not fit)
deriving Repr, DecidableEq

/-- writer state without the compressor -/
structure WS where
  closing : Bool := false            -- `_closing`
  outputSize : Nat := 0              -- `_output_size`
  transportClosing : Bool := false   -- `transport.is_closing()`
  out : Bytes := []                  -- concatenation of `transport.write`
deriving Repr

/-- `_write_websocket_frame(message, opcode, rsv)`; `maskKey` = `PACK_RANDBITS(get_random_bits())` -/
def writeFrame (cfg : WCfg) (w : WS) (message : Bytes) (opcode rsv : Nat) (maskKey : Bytes) :
    Except WErr WS :=
  let n := message.length
  let firstByte := 0x80 ||| rsv ||| opcode
  if firstByte > 255 ∨ n ≥ 2 ^ 64 then .error .pack
  else
    let header := frameHeader firstByte (if cfg.useMask then 0x80 else 0) n
    if w.transportClosing then .error .reset
    else if cfg.useMask then
      .ok { w with out := w.out ++ header ++ maskKey ++ C12.maskBytes maskKey message,
                   outputSize := w.outputSize + Gen.C11.maskLen + header.length + n }
    else
      .ok { w with out := w.out ++ header ++ message, outputSize := w.outputSize + header.length + n }

/-- which compressor `send_frame` uses for a message -/
inductive ZCall where
  | plain                                   -- not compressed
  | shared (wbits : Nat) (full : Bool) (executor : Bool)   -- `self._compressobj`
  | fresh (wbits : Nat) (full : Bool) (executor : Bool)    -- a new `ZLibCompressor` for this frame only
deriving Repr, DecidableEq

/-- the branch of `send_frame` + `_get_compressor` -/
def route (cfg : WCfg) (opcode : Nat) (compress : Nat) (len : Nat) : ZCall :=
  if ¬ (compress ≠ 0 ∨ cfg.compress ≠ 0) ∨ opcode ≥ Gen.C11.controlOpcode then .plain
  else
    let exec := ¬ (len ≤ Gen.C11.maxSyncChunk)
    if compress ≠ 0 then .fresh compress cfg.notakeover exec
    else .shared cfg.compress cfg.notakeover exec

/-- the drain bookkeeping at the end of `send_frame` -/
def afterSend (cfg : WCfg) (w : WS) : WS :=
  if w.outputSize > cfg.limit then { w with outputSize := 0 } else w

/-- what goes into the frame: the message itself with RSV1 clear, or the compressor output
without its `00 00 ff ff` tail with RSV1 set -/
def framePlan (cfg : WCfg) (message : Bytes) (opcode compress : Nat) (zout : Bytes) : Bytes × Nat :=
  match route cfg opcode compress message.length with
  | .plain => (message, 0)
  | _ => (stripTrailing zout, 0x40)

/-- `send_frame(message, opcode, compress)` with the compressor output `zout` given -/
def sendFrameZ (cfg : WCfg) (w : WS) (message : Bytes) (opcode compress : Nat)
    (maskKey zout : Bytes) : WS × Option WErr :=
  if w.closing ∧ opcode &&& 8 = 0 then (w, some .reset)
  else
    let plan := framePlan cfg message opcode compress zout
    match writeFrame cfg w plan.1 opcode plan.2 maskKey with
    | .error e => (w, some e)
    | .ok w' =>
      -- `if opcode == WSMsgType.CLOSE: self._closing = True` (present iff the generated flag says so)
      let w'' := if Gen.C11.closeLatchesInSendFrame ∧ opcode = 8 then { w' with closing := true } else w'
      (afterSend cfg w'', none)

/-- `close(code, message)`: CLOSE frame, then `_closing = True` whatever happened -/
def closeZ (cfg : WCfg) (w : WS) (code : Nat) (message maskKey : Bytes) : WS × Option WErr :=
  if code ≥ 65536 then ({ w with closing := true }, some .pack)
  else
    let (w', e) := sendFrameZ cfg w (beBytes 2 code ++ message) 8 0 maskKey []
    ({ w' with closing := true }, e)

/-! ## with a `Deflater` parameter -/

/-- the un-modelled compressor: `init wbits` = `ZLibCompressor(level=Z_BEST_SPEED, wbits=-wbits)`,
`deflate st msg full` = `compress(msg) + flush(Z_FULL_FLUSH if full else Z_SYNC_FLUSH)` -/
structure Deflater where
  St : Type
  init : Nat → St
  deflate : St → Bytes → Bool → St × Bytes

structure W (D : Deflater) where
  ws : WS := {}
  comp : Option D.St := none     -- `_compressobj`

variable {D : Deflater}

/-- `send_frame` -/
def sendFrame (cfg : WCfg) (w : W D) (message : Bytes) (opcode compress : Nat) (maskKey : Bytes) :
    W D × Option WErr :=
  if w.ws.closing ∧ opcode &&& 8 = 0 then (w, some .reset)
  else
    match route cfg opcode compress message.length with
    | .plain =>
      let (ws, e) := sendFrameZ cfg w.ws message opcode compress maskKey []
      ({ w with ws := ws }, e)
    | .fresh wb full _ =>
      let (_, z) := D.deflate (D.init wb) message full
      let (ws, e) := sendFrameZ cfg w.ws message opcode compress maskKey z
      ({ w with ws := ws }, e)
    | .shared wb full _ =>
      let st := w.comp.getD (D.init wb)
      let (st', z) := D.deflate st message full
      let (ws, e) := sendFrameZ cfg w.ws message opcode compress maskKey z
      ({ ws := ws, comp := some st' }, e)

/-- a message as handed to the writer -/
structure Send where
  opcode : Nat
  payload : Bytes
  compress : Nat := 0     -- per-message override (`None`/0 = use the negotiated setting)
  maskKey : Bytes := []
deriving Repr

def sendAll (cfg : WCfg) (w : W D) : List Send → W D
  | [] => w
  | s :: ss => sendAll cfg (sendFrame cfg w s.payload s.opcode s.compress s.maskKey).1 ss

end Aio.C11
