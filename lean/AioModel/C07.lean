import AioModel.Basic
/-!
# AioModel.C07 — the connection pool of `aiohttp/connector.py:BaseConnector`

A transcription of the pool bookkeeping on the FIFO event-loop abstraction (DESIGN §4.3).
The only nondeterminism is the label sequence: external events (`spawn`, `createDone`,
`cancel`, `timeout`, `release`, `lose`, `close`, `shuffle`) and `tick` = the event loop runs
the callback at the head of its ready queue (one step of one task, i.e. the code between two
awaits).  Since labels can be interleaved arbitrarily with single ticks, the label sequences
are exactly the interleavings at await granularity.

Python → Lean
* `BaseConnector._available_connections(key) > 0`      → `hasCap`
* `BaseConnector._get` (no traces: it never suspends)   → `popIdle`, `tryGet`
* `BaseConnector.connect` up to its first suspension    → `enter` (called with `first := true`)
* `BaseConnector._wait_for_available_connection`        → `park` (queue the future; `front` after a
  lost race), the `.waiting` case of `resume` (the `finally`, the capacity re-check, the re-queue)
* `connect`: placeholder reservation / swap / `except`  → `reserve`, the `.creating` case of `resume`
* `BaseConnector._release_waiter` (+ `random.shuffle`)   → `order`, `wakeScan`, `wake`, `releaseWaiterKeys`, `releaseWaiter`
* `BaseConnector._release_acquired`                      → `releaseAcquired`
* `BaseConnector._release` / `Connection.release|close`  → the `.release` case of `step`
* `BaseConnector._close_immediately`                     → `closeAll`
* `BaseConnector._cleanup` (keep-alive sweep)            → `cleanup`, label `sweep`; `monotonic()` → `St.now`, label `advance`
* `asyncio.Task.cancel`, `asyncio.timeout` firing        → `cancelTask`
* CPython's `_run_once` for one handle                   → `.tick`

Python sets (`_acquired`, `_acquired_per_host[key]`) are lists with set-insert / remove-all;
the `OrderedDict` FIFO of waiter futures per key is the sub-list of `waitq` for that key
(a task has at most one queued future); the dict `_waiters` itself (its key order matters for
`close` and for keys the shuffle label does not name) is `wkeys`.

Trace callbacks: `St.mask` says which of the five hooks the connector awaits really suspend
(`Hook`, `suspendAt`, `resumeTrace`, label `traceDone`); a task suspended in one keeps its pc and
records the hook in `Task.tr`.

`Fixes` switches on the repairs of the deviations found (DESIGN §9 F7, F8 and two more found
while building this model); `Fixes.none` is the code as it is, `Fixes.all` is what the theorems
in `AioProps/C07.lean` are about.  Not modelled: `force_close`, SSL `abort`/`_cleanup_closed`.
-/
namespace Aio.C07

abbrev Key := Nat
abbrev Tid := Nat
abbrev Cid := Nat

/-- state of the future a waiter is parked on -/
inductive FutSt | pending | woken | cancelled
deriving DecidableEq, Repr

/-- how `connect()` ended when it raised -/
inductive Fail
  | cancelled   -- asyncio.CancelledError
  | timeout     -- TimeoutError (connect timeout)
  | oserr       -- the connection attempt failed
  | closedErr   -- ClientConnectionError("Connector is closed.")
deriving DecidableEq, Repr

inductive Pc
  | idle                          -- connect() not called yet
  | start                         -- task created, first step queued
  | waiting                       -- parked in _wait_for_available_connection on `fut`
  | creating (res : Option Bool)  -- placeholder held; awaiting _create_connection (`res` = its outcome once known)
  | holding (c : Cid)             -- connect() returned Connection c, not yet released
  | done                          -- connection released
  | failed (f : Fail)
deriving DecidableEq, Repr

/-- the trace hooks `BaseConnector` awaits (`Trace.send_connection_*`); each is an await point when the
application registered a callback that really suspends -/
inductive Hook
  | reuse (first : Bool)   -- on_connection_reuseconn, inside `_get` (`first`: the fast-path `_get`, outside the connect timeout)
  | qstart                 -- on_connection_queued_start, after the waiter future was queued, before it is awaited
  | qend                   -- on_connection_queued_end, after the wake-up, before the `finally`
  | cstart                 -- on_connection_create_start, after the placeholder was added
  | cend (c : Cid)         -- on_connection_create_end, `_create_connection` has returned connection `c`
deriving DecidableEq, Repr

structure Task where
  key : Key
  pc : Pc := .idle
  fut : FutSt := .pending
  extCancel : Bool := false       -- Task.cancel() was called by the application
  timedOut : Bool := false        -- the connect-timeout timer fired
  tr : Option (Hook × Bool) := none  -- suspended inside a trace callback (hook, has the callback returned?)
deriving DecidableEq, Repr

/-- members of `_acquired`: the placeholder of task `t`, or a real connection -/
inductive Slot | ph (t : Tid) | conn (c : Cid)
deriving DecidableEq, Repr

structure Conn where
  key : Key
  isOpen : Bool := true
  usedAt : Nat := 0               -- `monotonic()` when it was last released to the pool
deriving DecidableEq, Repr

structure Fixes where
  f7 : Bool      -- fast path takes a pooled connection only when there is capacity
  f8 : Bool      -- a woken waiter that leaves by exception passes the wake-up on
  race : Bool    -- a woken waiter that lost the race passes the wake-up on before re-queueing
  close : Bool   -- close() also clears _acquired_per_host; no placeholder on a closed connector
  trclose : Bool -- a connection orphaned by a cancellation inside a reuseconn / create_end trace callback is closed
deriving DecidableEq, Repr

def Fixes.none : Fixes := ⟨false, false, false, false, false⟩
def Fixes.all : Fixes := ⟨true, true, true, true, true⟩

structure St where
  limit : Nat
  lph : Nat
  tasks : List Task               -- index = Tid
  conns : List Conn := []         -- every connection ever created; index = Cid
  acquired : List Slot := []      -- `_acquired`
  perHost : List (Key × Slot) := []  -- `_acquired_per_host` (maintained only when lph ≠ 0)
  waitq : List Tid := []          -- `_waiters`: all queued futures; per key = sub-list
  wkeys : List Key := []          -- keys of the dict `_waiters`, insertion order
  idle : List Cid := []           -- `_conns`: per key = sub-list (FIFO)
  ready : List Tid := []          -- the loop's ready queue (task steps only)
  closed : Bool := false
  perm : List Key := []           -- what `random.shuffle` will do (set by the `shuffle` label)
  pendingNew : List Cid := []     -- ghost: connections returned by `_create_connection` whose
                                  -- on_connection_create_end callback has not returned yet
  now : Nat := 0                  -- `monotonic()` (moved by the `advance` label)
  ka : Nat := 15                  -- `_keepalive_timeout`
  timer : Bool := false           -- `_cleanup_handle is not None`: the keep-alive sweep is scheduled
  mask : Nat := 0                 -- which trace hooks suspend: bit 0 reuseconn, 1 queued_start, 2 queued_end,
                                  -- 3 create_start, 4 create_end (0 = no traces); bit 5: the connector was
                                  -- built with `force_close=True`
deriving Repr

inductive Label
  | spawn (t : Tid)
  | tick
  | createDone (t : Tid) (ok : Bool)
  | cancel (t : Tid)
  | timeout (t : Tid)
  | release (t : Tid) (pool : Bool)
  | lose (c : Cid)
  | close
  | shuffle (p : List Key)
  | traceDone (t : Tid)             -- the trace callback task `t` is suspended in returns
  | advance (d : Nat)               -- time passes
  | sweep                           -- the keep-alive timer fires: `_cleanup()`
deriving Repr

/-! ## the endpoint part of `ClientRequest.connection_key`

`Key` above is abstract; this is what it stands for.  `connection_key` is built from `url.raw_host`
(already lower-cased by yarl), `url.port` — the explicit port if the URL has one, else the default port of the
scheme — and `url.scheme in ("https", "wss")`.  (The ssl object, proxy, proxy-header hash and server_hostname
components are constant in every scenario of this check.) -/

structure UrlParts where
  host : List Nat               -- code points of `url.raw_host`
  explicitPort : Option Nat     -- `url.explicit_port`
  ssl : Bool                    -- `url.scheme in _SSL_SCHEMES`
deriving DecidableEq, Repr

def defaultPort (ssl : Bool) : Nat := if ssl then 443 else 80
/-- `url.port` -/
def effPort (u : UrlParts) : Nat := u.explicitPort.getD (defaultPort u.ssl)
/-- the (host, port, is_ssl) triple of the connection key -/
def endpointKey (u : UrlParts) : List Nat × Nat × Bool := (u.host, effPort u, u.ssl)

/-! ## small helpers -/

def sinsert [DecidableEq α] (a : α) (l : List α) : List α := if a ∈ l then l else a :: l
def sremove [DecidableEq α] (a : α) (l : List α) : List α := l.filter (fun x => !decide (x = a))

def keyOf (s : St) (t : Tid) : Key := match s.tasks[t]? with | some x => x.key | none => 0
def futOf (s : St) (t : Tid) : FutSt := match s.tasks[t]? with | some x => x.fut | none => .cancelled
def connKey (s : St) (c : Cid) : Key := match s.conns[c]? with | some x => x.key | none => 0
def connOpen (s : St) (c : Cid) : Bool := match s.conns[c]? with | some x => x.isOpen | none => false

def setTask (s : St) (t : Tid) (x : Task) : St := { s with tasks := s.tasks.set t x }
def closeConn (s : St) (c : Cid) : St :=
  { s with conns := s.conns.modify c (fun x => { x with isOpen := false }) }
/-- `proto.close()` for every connection in `l` -/
def closeMany (s : St) (l : List Cid) : St :=
  { s with conns := s.conns.mapIdx (fun i x => if i ∈ l then { x with isOpen := false } else x) }
/-- reusable: `proto.is_connected() and now - use_time <= keepalive_timeout` (the test of `_get` and of `_cleanup`) -/
def usable (s : St) (c : Cid) : Bool :=
  match s.conns[c]? with
  | some x => x.isOpen && decide (s.now ≤ x.usedAt + s.ka)
  | none => false

/-- does trace hook number `bit` suspend? -/
def hooked (s : St) (bit : Nat) : Bool := s.mask.testBit bit
def suspendAt (s : St) (bit : Nat) (h : Hook) : Option (Hook × Bool) := if hooked s bit then some (h, false) else none

def hostCount (s : St) (k : Key) : Nat := s.perHost.countP (·.1 = k)

/-- `_available_connections(key) > 0` -/
def hasCap (s : St) (k : Key) : Bool :=
  (s.limit = 0 || s.acquired.length < s.limit) && (s.lph = 0 || hostCount s k < s.lph)

/-- `_acquired.add(x)`; `if self._limit_per_host: self._acquired_per_host[key].add(x)` -/
def acquire (s : St) (k : Key) (x : Slot) : St :=
  { s with acquired := sinsert x s.acquired,
           perHost := if s.lph = 0 then s.perHost else sinsert (k, x) s.perHost }

/-! ## `_get` -/

/-- pop idle connections of key `k` from the left until a reusable one is found; the others met on the way
(lost, or idle for longer than the keep-alive timeout) are dropped from the pool -/
def popIdle (s : St) (k : Key) : List Cid → Option Cid × List Cid
  | [] => (none, [])
  | c :: rest =>
    if connKey s c = k then
      if usable s c then (some c, rest) else popIdle s k rest
    else
      let r := popIdle s k rest
      (r.1, c :: r.2)

/-- the connections `popIdle` drops: `_get` closes them -/
def popDropped (s : St) (k : Key) : List Cid → List Cid
  | [] => []
  | c :: rest =>
    if connKey s c = k then
      if usable s c then [] else c :: popDropped s k rest
    else popDropped s k rest

/-- `_get(key)`: on success the connection is in `_acquired` and the task holds it -/
def tryGet (s : St) (t : Tid) (x : Task) (first : Bool) : St × Bool :=
  let r := popIdle s x.key s.idle
  let s := closeMany { s with idle := r.2 } (popDropped s x.key s.idle)
  match r.1 with
  | none => (s, false)
  | some c => (setTask (acquire s x.key (.conn c)) t
                { x with pc := .holding c, tr := suspendAt s 0 (.reuse first) }, true)

/-! ## `_release_waiter` -/

/-- what the shuffle label makes of `list(self._waiters)` -/
def order (perm ks : List Key) : List Key :=
  (perm.eraseDups.filter (· ∈ ks)) ++ ks.filter (· ∉ perm)

/-- the `while waiters: popitem(last=False)` loop on the queue of key `k`:
drop finished futures from the front, stop at the first pending one -/
def wakeScan (s : St) (k : Key) : List Tid → Option Tid × List Tid
  | [] => (none, [])
  | t :: rest =>
    if keyOf s t = k then
      if futOf s t = .pending then (some t, rest) else wakeScan s k rest
    else
      let r := wakeScan s k rest
      (r.1, t :: r.2)

def wake (s : St) (t : Tid) : St :=
  match s.tasks[t]? with
  | some x =>
    -- `set_result`: the task's wake-up is scheduled only if the task is awaiting this future
    { setTask s t { x with fut := .woken } with ready := if x.tr.isNone then s.ready ++ [t] else s.ready }
  | none => s

def releaseWaiterKeys (s : St) : List Key → St
  | [] => s
  | k :: ks =>
    if hasCap s k then
      let r := wakeScan s k s.waitq
      let s' := { s with waitq := r.2 }
      match r.1 with
      | some t => wake s' t
      | none => releaseWaiterKeys s' ks
    else releaseWaiterKeys s ks

def releaseWaiter (s : St) : St := releaseWaiterKeys s (order s.perm s.wkeys)

/-- `_release_acquired(key, x)` -/
def releaseAcquired (s : St) (k : Key) (x : Slot) : St :=
  if s.closed then s else
  releaseWaiter { s with acquired := sremove x s.acquired,
                         perHost := if s.lph = 0 then s.perHost else sremove (k, x) s.perHost }

/-! ## `connect` / `_wait_for_available_connection` -/

/-- queue a fresh future for task `t` (at the front after a lost race) and suspend -/
def park (s : St) (t : Tid) (x : Task) (front : Bool) : St :=
  let s := setTask s t { x with pc := .waiting, fut := .pending, tr := suspendAt s 1 .qstart }
  { s with waitq := if front then t :: s.waitq else s.waitq ++ [t],
           wkeys := if x.key ∈ s.wkeys then s.wkeys else s.wkeys ++ [x.key] }

/-- add the placeholder and suspend in `_create_connection` -/
def reserve (fx : Fixes) (s : St) (t : Tid) (x : Task) : St :=
  if fx.close && s.closed then setTask s t { x with pc := .failed .closedErr }
  else setTask (acquire s x.key (.ph t)) t { x with pc := .creating none, tr := suspendAt s 3 .cstart }

/-- `connect()` from its first line (`first`) or from the capacity re-check after a wake-up -/
def enter (fx : Fixes) (s : St) (t : Tid) (x : Task) (first : Bool) : St :=
  let fast := if first && (!fx.f7 || hasCap s x.key) then tryGet s t x true else (s, false)
  if fast.2 then fast.1 else
  let s := fast.1
  if hasCap s x.key then
    let again := if first then (s, false) else tryGet s t x false
    if again.2 then again.1 else reserve fx again.1 t x
  else
    let s := if !first && fx.race then releaseWaiter s else s
    park s t x (!first)

def failKind (x : Task) : Fail := if x.timedOut && !x.extCancel then .timeout else .cancelled
def mustRaise (x : Task) : Bool := x.fut = .cancelled || x.extCancel || x.timedOut

/-- the `finally` of `_wait_for_available_connection`: pop the future, drop an empty queue -/
def unpark (s : St) (t : Tid) (k : Key) : St :=
  let q := sremove t s.waitq
  { s with waitq := q,
           wkeys := if q.all (fun u => keyOf s u ≠ k) then sremove k s.wkeys else s.wkeys }

/-- leaving `_wait_for_available_connection` by exception: the `finally` (+ repair f8) -/
def failWait (fx : Fixes) (s : St) (t : Tid) (x : Task) : St :=
  let s := unpark s t x.key
  let s := setTask s t { x with pc := .failed (failKind x), tr := none }
  if fx.f8 && x.fut = .woken then releaseWaiter s else s

/-- the wait ended normally: the `finally`, then the capacity re-check -/
def finishWait (fx : Fixes) (s : St) (t : Tid) (x : Task) : St :=
  enter fx (unpark s t x.key) t x false

/-- the task runs and its waiter future is done (`await fut` returns or raises) -/
def afterFut (fx : Fixes) (s : St) (t : Tid) (x : Task) : St :=
  if mustRaise x then failWait fx s t x
  else if hooked s 2 then setTask s t { x with tr := some (.qend, false) }
  else finishWait fx s t x

/-- `_create_connection` returned connection `c` and no trace is pending: closed check, then the swap -/
def swapOrClosed (s : St) (t : Tid) (x : Task) (c : Cid) : St :=
  if s.closed then
    -- proto.close(); raise ClientConnectionError — the placeholder is not released
    setTask (closeConn s c) t { x with pc := .failed .closedErr }
  else
    let s := { s with acquired := sinsert (.conn c) (sremove (.ph t) s.acquired),
                      perHost := if s.lph = 0 then s.perHost
                                 else sinsert (x.key, .conn c) (sremove (x.key, .ph t) s.perHost) }
    setTask s t { x with pc := .holding c }

/-- the task resumes inside `connect` after a trace callback (its record `x` already has `tr := none`) -/
def resumeTrace (fx : Fixes) (s : St) (t : Tid) (x : Task) (h : Hook) : St :=
  let raise := x.extCancel || x.timedOut
  match h with
  | .reuse _ =>
    match x.pc with
    | .holding c =>
      if raise then
        -- `except BaseException: self._release_acquired(key, proto); raise` — proto is neither pooled nor closed
        let s := releaseAcquired (setTask s t { x with pc := .failed (failKind x) }) x.key (.conn c)
        if fx.trclose then closeConn s c else s
      else s
    | _ => s
  | .qstart =>
    match x.pc with
    | .waiting =>
      if raise then failWait fx s t x
      else if x.fut = .pending then s                -- `await fut` suspends
      else afterFut fx s t x
    | _ => s
  | .qend =>
    match x.pc with
    | .waiting => if raise then failWait fx s t x else finishWait fx s t x
    | _ => s
  | .cstart =>
    match x.pc with
    | .creating _ =>
      if raise then releaseAcquired (setTask s t { x with pc := .failed (failKind x) }) x.key (.ph t)
      else s                                         -- now `_create_connection` runs
    | _ => s
  | .cend c =>
    match x.pc with
    | .creating _ =>
      let s := { s with pendingNew := sremove c s.pendingNew }
      if raise then
        let s := releaseAcquired (setTask s t { x with pc := .failed (failKind x) }) x.key (.ph t)
        if fx.trclose then closeConn s c else s
      else swapOrClosed s t x c
    | _ => s

/-- one step of task `t` (the event loop calls its wake-up) -/
def resume (fx : Fixes) (s : St) (t : Tid) (x : Task) : St :=
  match x.tr with
  | some (h, r) =>
    if !r && !(x.extCancel || x.timedOut) then s     -- callback neither returned nor cancelled: nothing to run
    else resumeTrace fx (setTask s t { x with tr := none }) t { x with tr := none } h
  | none =>
  match x.pc with
  | .start =>
    if x.extCancel then setTask s t { x with pc := .failed .cancelled }
    else enter fx s t x true
  | .waiting =>
    if x.fut = .pending && !mustRaise x then s   -- not woken: nothing to run
    else afterFut fx s t x
  | .creating res =>
    if x.extCancel || x.timedOut then
      releaseAcquired (setTask s t { x with pc := .failed (failKind x) }) x.key (.ph t)
    else match res with
      | none => s
      | some false => releaseAcquired (setTask s t { x with pc := .failed .oserr }) x.key (.ph t)
      | some true =>
        let c := s.conns.length
        let s := { s with conns := s.conns ++ [({ key := x.key } : Conn)] }
        if hooked s 4 then
          setTask { s with pendingNew := c :: s.pendingNew } t { x with tr := some (.cend c, false) }
        else swapOrClosed s t x c
  | _ => s

/-- `Task.cancel()` (`byTimer := false`) or the connect timer firing (`byTimer := true`) -/
def cancelTask (s : St) (t : Tid) (x : Task) (byTimer : Bool) : St :=
  let flag (x : Task) : Task := if byTimer then { x with timedOut := true } else { x with extCancel := true }
  match x.tr with
  | some (h, r) =>
    -- the task awaits the future of a trace callback; the connect timer is not armed on the fast path
    if byTimer && (x.timedOut || h = .reuse true) then s
    else if !r && !x.extCancel && !x.timedOut then
      { setTask s t (flag x) with ready := s.ready ++ [t] }
    else setTask s t (flag x)
  | none =>
  match x.pc with
  | .start => if byTimer then s else setTask s t (flag x)
  | .waiting =>
    if byTimer && x.timedOut then s
    else if x.fut = .pending then
      { setTask s t { flag x with fut := .cancelled } with ready := s.ready ++ [t] }
    else setTask s t (flag x)
  | .creating res =>
    if byTimer && x.timedOut then s
    else if res = none && !x.extCancel && !x.timedOut then
      { setTask s t (flag x) with ready := s.ready ++ [t] }
    else setTask s t (flag x)
  | _ => s

/-- cancel every queued future, in the order `_close_immediately` walks `_waiters` -/
def cancelWaiters (s : St) : List Tid → St
  | [] => s
  | t :: ts =>
    match s.tasks[t]? with
    | some x =>
      if x.fut = .pending then
        cancelWaiters { setTask s t { x with fut := .cancelled } with
                        ready := if x.tr.isNone then s.ready ++ [t] else s.ready } ts
      else cancelWaiters s ts
    | none => cancelWaiters s ts

def closeSlots (s : St) : List Slot → St
  | [] => s
  | .conn c :: r => closeSlots (closeConn s c) r
  | .ph _ :: r => closeSlots s r

/-- `_close_immediately()` -/
def closeAll (fx : Fixes) (s : St) : St :=
  if s.closed then s else
  let s := { s with closed := true }
  let s := s.idle.foldl closeConn s
  let s := closeSlots s s.acquired
  let victims := s.wkeys.flatMap (fun k => s.waitq.filter (fun t => keyOf s t = k))
  let s := cancelWaiters s victims
  { s with idle := [], acquired := [], waitq := [], wkeys := [], timer := false,
           perHost := if fx.close then [] else s.perHost }

/-- `_cleanup()`: every idle connection that is still reusable stays (in order), every other one is closed;
the timer is re-armed iff something stays -/
def cleanup (s : St) : St :=
  let alive := s.idle.filter (usable s)
  let expired := s.idle.filter (fun c => !usable s c)
  closeMany { s with idle := alive, timer := !alive.isEmpty && decide (0 < s.ka) } expired

def step (fx : Fixes) (s : St) : Label → St
  | .spawn t =>
    match s.tasks[t]? with
    | some x => if x.pc = .idle then { setTask s t { x with pc := .start } with ready := s.ready ++ [t] } else s
    | none => s
  | .tick =>
    match s.ready with
    | [] => s
    | t :: rest =>
      let s := { s with ready := rest }
      match s.tasks[t]? with
      | some x => resume fx s t x
      | none => s
  | .createDone t ok =>
    match s.tasks[t]? with
    | some x =>
      if x.pc = .creating none && x.tr.isNone && !x.extCancel && !x.timedOut then
        { setTask s t { x with pc := .creating (some ok) } with ready := s.ready ++ [t] }
      else s
    | none => s
  | .cancel t =>
    match s.tasks[t]? with
    | some x => cancelTask s t x false
    | none => s
  | .timeout t =>
    match s.tasks[t]? with
    | some x => cancelTask s t x true
    | none => s
  | .release t pool =>
    match s.tasks[t]? with
    | some x =>
      match x.pc with
      | .holding c =>
        if x.tr.isSome then s else   -- connect() has not returned the Connection yet
        let s := setTask s t { x with pc := .done }
        if s.closed then s else
        let s := releaseAcquired s x.key (.conn c)
        -- a connection that was lost while in use has `protocol.should_close`: it is closed, not pooled
        -- ... and a `force_close=True` connector never pools
        if pool && connOpen s c && !s.mask.testBit 5 then
          -- `_conns[key].append((protocol, monotonic()))`; the keep-alive sweep is scheduled if it is not
          -- (`helpers.weakref_handle` returns no handle for a timeout of 0)
          { s with idle := s.idle ++ [c], timer := s.timer || decide (0 < s.ka),
                   conns := s.conns.modify c (fun y => { y with usedAt := s.now }) }
        else closeConn s c
      | _ => s
    | none => s
  | .lose c => if c ∈ s.idle ∨ Slot.conn c ∈ s.acquired then closeConn s c else s
  | .close => closeAll fx s
  | .shuffle p => { s with perm := p }
  | .advance d => { s with now := s.now + d }
  | .sweep => if s.timer then cleanup s else s
  | .traceDone t =>
    match s.tasks[t]? with
    | some x =>
      match x.tr with
      | some (h, false) =>
        if !x.extCancel && !x.timedOut then
          { setTask s t { x with tr := some (h, true) } with ready := s.ready ++ [t] }
        else s
      | _ => s
    | none => s

def run (fx : Fixes) (s : St) (ls : List Label) : St := ls.foldl (step fx) s

/-- N tasks with the given keys, nothing started -/
def init (limit lph : Nat) (keys : List Key) (mask : Nat := 0) (ka : Nat := 15) : St :=
  { limit := limit, lph := lph, tasks := keys.map (fun k => ({ key := k } : Task)), mask := mask, ka := ka }

end Aio.C07
