import AioProps.C03Chunked
/-!
# C03: every segmentation

`feed_segments`: feeding the pieces of ANY segmentation of a byte string one `feed_data` call at a
time is observably the same as one call with the whole string, provided the reads before the last
are *clean* (raise nothing, hand nothing back, set no payload exception, leave the parser usable
and — the side condition of `feed_two_reads` — leave no over-long partial chunk line buffered).
-/
namespace Aio.Http
open Aio

/-! ### the parser only ever holds body states that the laws cover -/

theorem stepOnce_stop_anyBody (cfg : Cfg) (urlOk : Bool → Bytes → Bool) (st : St) (d : Bytes) (o : FeedOut)
    (h : stepOnce cfg urlOk st d = .stop o) (hst : StG AnyBody st) : StG AnyBody o.st := by
  cases hp : st.payload with
  | some p =>
    rw [stepOnce_payload cfg urlOk st p d hp] at h
    rcases hpf : payloadFeed cfg p d with ⟨r, pev⟩
    rw [hpf] at h
    cases r with
    | needs p' =>
      simp only [] at h
      injection h with h1
      subst h1
      intro q hq
      simp only [Option.some.injEq] at hq
      subst hq
      exact (payloadLaws_all cfg).needs_closed p _ d pev (hst p hp) hpf
    | complete rest => cases h
    | err e rr =>
      cases rr
      · simp only [] at h
        injection h with h1
        subst h1
        intro q hq
        unfold afterBody at hq
        simp only [] at hq
        split at hq <;> cases hq
      · simp only [] at h
        injection h with h1
        subst h1
        exact fun q hq => hst q hq
  | none =>
    have hnone : ∀ s : St, s.payload = none → StG AnyBody s := fun s hs q hq => by rw [hs] at hq; cases hq
    unfold stepOnce at h
    simp only [hp] at h
    repeat' (first | split at h | (dsimp only at h; split at h))
    all_goals try cases h
    all_goals first
      | exact hst
      | exact hnone _ hp
      | exact hnone _ (by simpa using hp)
      | (unfold partialLine
         repeat' split
         all_goals exact hnone _ (by simpa using hp))

theorem feedLoop_anyBody (cfg : Cfg) (urlOk : Bool → Bytes → Bool) :
    ∀ (f : Nat) (st : St) (d : Bytes) (acc : List Ev), StG AnyBody st →
      StG AnyBody (feedLoop cfg urlOk f st d acc).st := by
  intro f
  induction f with
  | zero => intro st d acc h; exact fun q hq => h q hq
  | succ n ih =>
    intro st d acc hst
    by_cases hd : d = []
    · subst hd; rw [feedLoop_nil]; exact hst
    · rw [feedLoop_succ cfg urlOk n st d acc hd]
      cases hs : stepOnce cfg urlOk st d with
      | stop o => exact stepOnce_stop_anyBody cfg urlOk st d o hs hst
      | cont st' d' ev =>
        have h' := stepOnce_cont_anyBody cfg urlOk st st' d d' ev hs hst
        simp only []
        split
        · exact ih st' d' _ h'
        · exact fun q hq => h' q hq

theorem feed_anyBody (cfg : Cfg) (urlOk : Bool → Bytes → Bool) (st : St) (d : Bytes) (hst : StG AnyBody st) :
    StG AnyBody (feed cfg urlOk st d).st := by
  unfold feed
  split
  · exact hst
  · exact feedLoop_anyBody cfg urlOk _ _ _ _ (fun q hq => hst q hq)

/-! ### `failed` is set only together with an error -/

theorem onHeaderBlock_failed (cfg : Cfg) (urlOk : Bool → Bytes → Bool) (st st' : St) (lines : List Bytes)
    (evs : List Ev) (sc : Bool) (h : onHeaderBlock cfg urlOk st lines = .ok (st', evs, sc)) :
    st'.failed = st.failed := by
  unfold onHeaderBlock at h
  simp only [] at h
  repeat' (first | split at h | (dsimp only at h; split at h))
  all_goals try cases h
  all_goals rfl

theorem stepOnce_cont_failed (cfg : Cfg) (urlOk : Bool → Bytes → Bool) (st st' : St) (d d' : Bytes) (ev : List Ev)
    (h : stepOnce cfg urlOk st d = .cont st' d' ev) : st'.failed = st.failed := by
  cases hp : st.payload with
  | some p =>
    rw [stepOnce_payload cfg urlOk st p d hp] at h
    rcases hpf : payloadFeed cfg p d with ⟨r, pev⟩
    rw [hpf] at h
    cases r with
    | needs p' => cases h
    | complete rest =>
      simp only [] at h
      injection h with h1
      subst h1
      simp only [afterBody]; split <;> rfl
    | err e rr => cases rr <;> cases h
  | none =>
    unfold stepOnce at h
    simp only [hp] at h
    repeat' (first | split at h | (dsimp only at h; split at h))
    all_goals try cases h
    all_goals first
      | rfl
      | (rename_i hob; have := onHeaderBlock_failed cfg urlOk _ _ _ _ _ hob; exact this)

theorem stepOnce_stop_failed (cfg : Cfg) (urlOk : Bool → Bytes → Bool) (st : St) (d : Bytes) (o : FeedOut)
    (h : stepOnce cfg urlOk st d = .stop o) (he : o.err = none) : o.st.failed = st.failed := by
  cases hp : st.payload with
  | some p =>
    rw [stepOnce_payload cfg urlOk st p d hp] at h
    rcases hpf : payloadFeed cfg p d with ⟨r, pev⟩
    rw [hpf] at h
    cases r with
    | needs p' => simp only [] at h; injection h with h1; subst h1; rfl
    | complete rest => cases h
    | err e rr =>
      cases rr
      · simp only [] at h; injection h with h1; subst h1
        simp only [afterBody]; split <;> rfl
      · simp only [] at h; injection h with h1; subst h1; cases he
  | none =>
    unfold stepOnce at h
    simp only [hp] at h
    repeat' (first | split at h | (dsimp only at h; split at h))
    all_goals try cases h
    all_goals first
      | rfl
      | cases he
      | (unfold partialLine at he ⊢
         repeat' (first | split at he | (dsimp only at he; split at he))
         all_goals first | cases he | skip
         all_goals (simp_all; try (split <;> simp_all; try omega)))

theorem feedLoop_failed (cfg : Cfg) (urlOk : Bool → Bytes → Bool) :
    ∀ (f : Nat) (st : St) (d : Bytes) (acc : List Ev),
      (feedLoop cfg urlOk f st d acc).err = none → (feedLoop cfg urlOk f st d acc).st.failed = st.failed := by
  intro f
  induction f with
  | zero => intro st d acc _; rfl
  | succ n ih =>
    intro st d acc
    by_cases hd : d = []
    · subst hd; rw [feedLoop_nil]; intro _; rfl
    · rw [feedLoop_succ cfg urlOk n st d acc hd]
      cases hstep : stepOnce cfg urlOk st d with
      | stop o => exact stepOnce_stop_failed cfg urlOk st d o hstep
      | cont st' d' ev =>
        have hs := stepOnce_cont_failed cfg urlOk st st' d d' ev hstep
        simp only []
        split
        · intro he; rw [ih st' d' _ he, hs]
        · intro he; cases he

/-- a read that raised nothing leaves the parser usable -/
theorem feed_failed (cfg : Cfg) (urlOk : Bool → Bytes → Bool) (st : St) (d : Bytes)
    (he : (feed cfg urlOk st d).err = none) : (feed cfg urlOk st d).st.failed = st.failed := by
  by_cases hf : st.failed = true
  · simp [feed, hf]
  · simp only [feed, hf, if_false, Bool.false_eq_true] at he ⊢
    rw [feedLoop_failed cfg urlOk _ _ _ _ he]


/-! ### any number of reads -/

/-- a read after which the next one may be issued: nothing raised, nothing handed back (no
protocol switch), no payload exception, no over-long partial chunk line buffered -/
def Clean (cfg : Cfg) (o : FeedOut) : Prop :=
  o.err = none ∧ o.rest = [] ∧ (∀ e, Ev.payloadErr e ∉ o.evs) ∧
    (∀ p', o.st.payload = some p' → TailOk cfg p')

/-- one `feed_data` call per segment; events concatenated, outcome of the last call -/
def runSegs (cfg : Cfg) (urlOk : Bool → Bytes → Bool) : St → List Bytes → FeedOut
  | st, [] => { st, evs := [], rest := [], err := none }
  | st, [d] => feed cfg urlOk st d
  | st, d :: d2 :: ds =>
    let o := feed cfg urlOk st d
    let o' := runSegs cfg urlOk o.st (d2 :: ds)
    { o' with evs := o.evs ++ o'.evs }

/-- every read but the last is clean -/
def CleanRun (cfg : Cfg) (urlOk : Bool → Bytes → Bool) : St → List Bytes → Prop
  | _, [] => True
  | _, [_] => True
  | st, d :: d2 :: ds => Clean cfg (feed cfg urlOk st d) ∧ CleanRun cfg urlOk (feed cfg urlOk st d).st (d2 :: ds)

/-- **Every segmentation.** From any usable parser state whose body parser (if active) is in a
state the parser can have produced, and for every way of cutting a byte string into reads:
one `feed_data` call per piece ends in the same parser state (or both failed), raises the same
error, hands back the same bytes and delivers the same events (up to the grouping of body
bytes) as a single call with the whole string — provided every read before the last is `Clean`. -/
theorem feed_segments (cfg : Cfg) (urlOk : Bool → Bytes → Bool) :
    ∀ (segs : List Bytes) (st : St), segs ≠ [] → StG AnyBody st → st.failed = false →
      CleanRun cfg urlOk st segs →
      Equiv (feed cfg urlOk st segs.flatten) (runSegs cfg urlOk st segs) := by
  intro segs
  induction segs with
  | nil => intro st h; exact absurd rfl h
  | cons d ds ih =>
    intro st _ hst hf hclean
    cases ds with
    | nil => simp [runSegs]; exact Equiv.refl _
    | cons d2 ds =>
      obtain ⟨hc, hrest⟩ := hclean
      obtain ⟨he, hr, hpe, hadm⟩ := hc
      have hf1 : (feed cfg urlOk st d).st.failed = false := by rw [feed_failed cfg urlOk st d he]; exact hf
      have key := feed_two_reads cfg urlOk st d (d2 :: ds).flatten hst hf he hr hpe hf1 hadm
      simp only [] at key
      have ih' := ih (feed cfg urlOk st d).st (by simp) (feed_anyBody cfg urlOk st d hst) hf1 hrest
      obtain ⟨k1, k2, k3, k4⟩ := key
      obtain ⟨i1, i2, i3, i4⟩ := ih'
      have efl : (d :: d2 :: ds).flatten = d ++ (d2 :: ds).flatten := by simp
      rw [efl]
      refine ⟨?_, ?_, ?_, ?_⟩
      · show _ = (runSegs cfg urlOk (feed cfg urlOk st d).st (d2 :: ds)).st ∨ _
        rcases k1 with k1 | k1 <;> rcases i1 with i1 | i1
        · exact Or.inl (k1.trans i1)
        · exact Or.inr ⟨by rw [k1]; exact i1.1, i1.2⟩
        · exact Or.inr ⟨k1.1, by
            show (runSegs cfg urlOk (feed cfg urlOk st d).st (d2 :: ds)).st.failed = true
            rw [← i1]; exact k1.2⟩
        · exact Or.inr ⟨k1.1, i1.2⟩
      · show _ = proj ((feed cfg urlOk st d).evs ++ (runSegs cfg urlOk (feed cfg urlOk st d).st (d2 :: ds)).evs)
        rw [k2, proj_append, proj_append, i2]
      · exact k3.trans i3
      · exact k4.trans i4

end Aio.Http

namespace Aio.Http
open Aio

/-! ### non-vacuity -/

def Ev.isPerr : Ev → Bool
  | .payloadErr _ => true
  | _ => false

/-- executable form of `Clean` -/
def cleanB (cfg : Cfg) (o : FeedOut) : Bool :=
  o.err.isNone && o.rest.isEmpty && o.evs.all (fun e => !e.isPerr) &&
    (match o.st.payload with
     | some p => !(decide (p.type = .chunked)) || !chunkTailTooLong cfg p
     | none => true)

theorem clean_of_cleanB (cfg : Cfg) (o : FeedOut) (h : cleanB cfg o = true) : Clean cfg o := by
  unfold cleanB at h
  simp only [Bool.and_eq_true] at h
  obtain ⟨⟨⟨h1, h2⟩, h3⟩, h4⟩ := h
  refine ⟨by simpa using h1, by simpa using h2, ?_, ?_⟩
  · intro e he
    have := (List.all_eq_true.mp h3) _ he
    simp [Ev.isPerr] at this
  · intro p' hp' hc
    rw [hp'] at h4
    simp only [hc, decide_true, Bool.not_true, Bool.false_or, Bool.not_eq_true'] at h4
    exact h4

/-- `POST / HTTP/1.1`, `Host: a`, `Transfer-Encoding: chunked`, body `3 CRLF abc CRLF 0 CRLF CRLF`
read in four pieces — cut inside the request line, inside the chunk data and inside the last
chunk: every read before the last is clean, so `feed_segments` applies. -/
example :
    let segs : List Bytes := [[80, 79, 83, 84, 32, 47, 32, 72, 84],
      [84, 80, 47, 49, 46, 49, 13, 10, 72, 111, 115, 116, 58, 32, 97, 13, 10,
       84, 114, 97, 110, 115, 102, 101, 114, 45, 69, 110, 99, 111, 100, 105, 110, 103, 58, 32, 99, 104, 117, 110, 107, 101, 100, 13, 10,
       13, 10, 51, 13, 10, 97],
      [98, 99, 13, 10, 48, 13],
      [10, 13, 10]]
    CleanRun {} (fun _ _ => true) {} segs ∧ (runSegs {} (fun _ _ => true) {} segs).err = none := by
  intro segs
  refine ⟨⟨clean_of_cleanB _ _ (by decide +kernel), clean_of_cleanB _ _ (by decide +kernel),
    clean_of_cleanB _ _ (by decide +kernel), trivial⟩, by decide +kernel⟩

end Aio.Http
