import AioProps.C08Post
/-! C08: the invariant is kept by every producer operation and by `step`; bookkeeping of
`delivered`. -/
namespace Aio.C08
open Aio

theorem off_le_flatten {s : S} (hi : Inv s) : s.off ≤ s.bufs.flatten.length := by
  cases hb : s.bufs with
  | nil => rw [hi.off_nil hb]; simp
  | cons b t => have := hi.off_lt b t hb; simp; omega

/-- the state after `feed_data(d)`, `d ≠ b""`, for any outcome of the wake-up and pause decisions -/
def feedUpd (s : S) (d : Bytes) (f : Fut) (p tp : Bool) (ev : List Ev) : S :=
  { s with size := s.size + d.length, bufs := s.bufs ++ [d], total := s.total + d.length,
           fed := s.fed ++ d, waiter := false, fut := f, paused := p, tpaused := tp, evs := ev }

theorem inv_feedUpd {s : S} (hi : Inv s) (d : Bytes) (hd : d ≠ []) (f : Fut) (p tp : Bool) (ev : List Ev)
    (hf : f = .pending → False) (htp : s.connected = true → tp = true → p = true)
    (hbd : p = false → s.eof = false → s.size + d.length ≤ s.high ∧ nsplits s ≤ s.highChunks) :
    Inv (feedUpd s d f p tp ev) := by
  have hrest : rest (feedUpd s d f p tp ev) = rest s ++ d := by
    simp only [feedUpd, rest, List.flatten_append, List.flatten_cons, List.flatten_nil, List.append_nil]
    exact List.drop_append_of_le_length (off_le_flatten hi)
  constructor
  · intro b hb
    rcases List.mem_append.mp hb with h | h
    · exact hi.nonempty b h
    · simp at h; rw [h]; exact hd
  · intro b t hbt
    cases hb : s.bufs with
    | nil =>
      simp [feedUpd, hb] at hbt
      show s.off < b.length
      rw [hi.off_nil hb, ← hbt.1]
      exact List.length_pos_iff.mpr hd
    | cons b0 t0 =>
      simp [feedUpd, hb] at hbt
      show s.off < b.length
      rw [← hbt.1]; exact hi.off_lt b0 t0 hb
  · intro h; simp [feedUpd] at h
  · rw [hrest]; simp [feedUpd]; rw [hi.size_eq]
  · rw [hrest]; show s.taken ++ (rest s ++ d) = s.fed ++ d; rw [← List.append_assoc, hi.cons]
  · exact hi.cursor_eq
  · show s.total + d.length = (s.fed ++ d).length
    rw [hi.total_eq]; simp
  · exact hi.sorted
  · intro l hl q hq
    have := hi.range l hl q hq
    exact ⟨this.1, by show q ≤ s.total + d.length; omega⟩
  · exact hi.inb
  · exact hi.high_eq
  · exact hi.lwc
  · exact htp
  · exact hbd
  · intro h; cases h
  · intro h; cases h
  · intro h; exact absurd h hf

theorem feed_inv {s : S} (hi : Inv s) (d : Bytes) : Inv (feed s d).1 := by
  by_cases heof : s.eof = true
  · simp [feed, heof]; exact hi
  by_cases hd : d = []
  · simp [feed, heof, hd]; exact hi
  have hfp := hi.fut_pending
  have htp := hi.tp
  have hbd := hi.bounded
  cases s with
  | mk bufs off size cursor total splits eof exc low high lowChunks highChunks waiter parked fut connected
       paused tpaused evs fed taken bounds delivered lost =>
  simp only at heof hfp htp hbd
  cases eof
  case true => exact absurd rfl heof
  cases waiter <;> cases connected <;> by_cases hsz : size + d.length > high <;>
    simp only [feed, wake, pauseReading, hd, hsz, List.isEmpty_iff, if_true, if_false,
      Bool.false_eq_true]
  all_goals
    refine inv_feedUpd hi d hd _ _ _ _ ?_ ?_ ?_
    · intro h; first | (have := hfp h; cases this) | cases h
    · intro hc' ht; first | exact htp hc' ht | rfl | cases hc'
    · intro hp he; first | exact ⟨by simp only [] ; omega, (hbd hp he).2⟩ | cases hp

theorem last_of_mem_eq_top {t : Nat} : ∀ {l : List Nat}, l.Pairwise (· < ·) → (∀ p ∈ l, p ≤ t) → t ∈ l →
    l.getLast? = some t
  | [], _, _, h => by simp at h
  | [x], _, _, h => by simp at h; simp [h]
  | x :: y :: r, hs, hle, h => by
    rw [List.getLast?_cons_cons]
    rcases List.mem_cons.mp h with rfl | hm
    · have h1 := List.rel_of_pairwise_cons hs (List.mem_cons_self (a := y) (l := r))
      have h2 := hle y (by simp)
      omega
    · exact last_of_mem_eq_top (List.Pairwise.of_cons hs) (fun p hp => hle p (List.mem_cons_of_mem _ hp)) hm

theorem lt_of_last_ne {t : Nat} {l : List Nat} (hs : l.Pairwise (· < ·)) (hle : ∀ p ∈ l, p ≤ t)
    (hne : l.getLast?.getD 0 ≠ t) : ∀ a ∈ l, a < t := by
  intro a ha
  have h1 := hle a ha
  by_cases h : a = t
  · subst h
    have := last_of_mem_eq_top hs hle ha
    rw [this] at hne
    simp at hne
  · omega

/-- the state after an `end_http_chunk_receiving()` that recorded a new split -/
def endUpd (s : S) (sp : List Nat) (f : Fut) (p tp : Bool) (ev : List Ev) : S :=
  { s with bounds := s.bounds ++ [s.total], splits := some (sp ++ [s.total]), waiter := false, fut := f,
           paused := p, tpaused := tp, evs := ev }

theorem inv_endUpd {s : S} (hi : Inv s) (sp : List Nat) (hsp : s.splits = some sp)
    (hne : sp.getLast?.getD 0 ≠ s.total) (f : Fut) (p tp : Bool) (ev : List Ev)
    (hf : f = .pending → False) (htp : s.connected = true → tp = true → p = true)
    (hbd : p = false → s.eof = false → s.size ≤ s.high ∧ sp.length + 1 ≤ s.highChunks) :
    Inv (endUpd s sp f p tp ev) := by
  have hlt := lt_of_last_ne (hi.sorted sp hsp) (fun q hq => (hi.range sp hsp q hq).2) hne
  exact { hi with
    sorted := by
      intro l hl; simp only [endUpd, Option.some.injEq] at hl; subst hl
      rw [List.pairwise_append]
      exact ⟨hi.sorted sp hsp, by simp, by intro a ha b hb; simp at hb; subst hb; exact hlt a ha⟩
    range := by
      intro l hl q hq; simp only [endUpd, Option.some.injEq] at hl; subst hl
      rcases List.mem_append.mp hq with h | h
      · exact hi.range sp hsp q h
      · simp at h; subst h; exact ⟨cursor_le_total (s := s) hi, Nat.le_refl _⟩
    inb := by
      intro l hl q hq; simp only [endUpd, Option.some.injEq] at hl; subst hl
      show q ∈ s.bounds ++ [s.total]
      rcases List.mem_append.mp hq with h | h
      · exact List.mem_append_left _ (hi.inb sp hsp q h)
      · exact List.mem_append_right _ h
    tp := htp
    bounded := by
      intro hp he
      have := hbd hp he
      exact ⟨this.1, by simp [nsplits, endUpd]; exact this.2⟩
    waiter_parked := by intro h; cases h
    waiter_empty := by intro h; cases h
    fut_pending := by intro h; exact absurd h hf }

theorem endChunk_inv {s : S} (hi : Inv s) : Inv (endChunk s).1 := by
  cases hsp : s.splits with
  | none => simp [endChunk, hsp]; exact hi
  | some sp =>
    by_cases hpos : s.total = sp.getLast?.getD 0
    · have e : (endChunk s).1 = { s with bounds := s.bounds ++ [s.total] } := by
        unfold endChunk
        split
        · rename_i h; rw [hsp] at h; cases h
        · rename_i sp' h
          rw [hsp] at h; cases h
          rw [if_pos hpos]
      rw [e]
      exact { hi with
        inb := by
          intro l hl q hq
          exact List.mem_append_left _ (hi.inb l hl q hq) }
    · have hne : sp.getLast?.getD 0 ≠ s.total := fun h => hpos h.symm
      have hfp := hi.fut_pending
      have htp := hi.tp
      have hbd := hi.bounded
      cases s with
      | mk bufs off size cursor total splits eof exc low high lowChunks highChunks waiter parked fut connected
           paused tpaused evs fed taken bounds delivered lost =>
      simp only at hsp hfp htp hbd hpos hne
      subst hsp
      simp only [nsplits] at hbd
      cases waiter <;> cases connected <;> by_cases hsz : sp.length + 1 > highChunks <;>
        simp only [endChunk, wake, pauseReading, hpos, hsz, if_true, if_false, Bool.false_eq_true]
      all_goals
        refine inv_endUpd hi sp rfl hne _ _ _ _ ?_ ?_ ?_
        · intro h; first | (have := hfp h; cases this) | cases h
        · intro hc' ht; first | exact htp hc' ht | rfl | cases hc'
        · intro hp he; first | exact ⟨(hbd hp he).1, by simp only []; omega⟩ | cases hp

theorem wake_inv {s : S} (hi : Inv s) : Inv (wake s) := by
  unfold wake
  split
  · exact { hi with
      waiter_parked := by intro h; cases h
      waiter_empty := by intro h; cases h
      fut_pending := by intro h; cases h }
  · exact hi

theorem wakeExc_inv {s : S} (hi : Inv s) (e : Nat) : Inv (wakeExc s e) := by
  unfold wakeExc
  split
  · exact { hi with
      waiter_parked := by intro h; cases h
      waiter_empty := by intro h; cases h
      fut_pending := by intro h; cases h }
  · exact hi

theorem feedEof_inv {s : S} (hi : Inv s) : Inv (feedEof s).1 := by
  have h1 : Inv { s with eof := true } := { hi with bounded := by intro _ h; cases h }
  have h2 := wake_inv h1
  have he2 : (wake { s with eof := true }).eof = true := by unfold wake; split <;> rfl
  unfold feedEof
  simp only []
  generalize wake { s with eof := true } = s2 at h2 he2
  unfold resumeReading
  split
  · exact { h2 with
      tp := by intro _ h; cases h
      bounded := by intro _ he; rw [he2] at he; cases he }
  · rename_i hc
    exact { h2 with
      tp := by intro h; exact absurd h hc
      bounded := by intro _ he; rw [he2] at he; cases he }

theorem setExc_inv {s : S} (hi : Inv s) (e : Nat) : Inv (setExc s e).1 := by
  have h1 : Inv { s with exc := some e } := { hi with }
  exact wakeExc_inv h1 e

theorem beginChunk_inv {s : S} (hi : Inv s) : Inv (beginChunk s).1 := by
  unfold beginChunk
  split
  · exact hi
  · rename_i hn
    split
    · exact hi
    · exact { hi with
        sorted := by intro l hl; simp at hl; subst hl; simp
        range := by intro l hl q hq; simp at hl; subst hl; simp at hq
        inb := by intro l hl q hq; simp at hl; subst hl; simp at hq
        bounded := by
          intro hp he
          exact ⟨(hi.bounded hp he).1, by simp [nsplits]⟩ }

theorem disconnect_inv {s : S} (hi : Inv s) : Inv { s with connected := false } :=
  { hi with tp := by intro h; cases h }

theorem evs_inv {s : S} (hi : Inv s) (ev : List Ev) : Inv { s with evs := ev } := { hi with }

theorem init_inv (limit : Nat) : Inv (init limit) := by
  constructor <;> simp [init, rest, nsplits, Gen.C08.highMul, Gen.C08.chunkFloor, Gen.C08.lowDiv]
  omega

end Aio.C08
